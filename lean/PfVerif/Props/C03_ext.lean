import PfVerif.Proofs.C03_ext
import PfVerif.Proofs.C03_extNup
import PfVerif.Proofs.C03RankAlg
import PfVerif.Props.C01
/-! # C03 extension — construction and persistence of network objects

Models (`Model/C03_ext.lean`, namespace `Pf.C03x`): `getLocIdx` = `flwdir.get_loc_idx`, `fromDataframe` =
`flwdir.from_dataframe`, `mvSel` = `Flwdir._mv`, `selectDtype` = the index dtype chosen by
`pyflwdir.from_array`, `ctorVec` / `ctorRaster` = `Flwdir.__init__` / `FlwdirRaster.__init__`,
`Obj.mask`, `Obj.nUpstream`, `Obj.getitem`, `Obj.idxsPit`, `Obj.nnodesP` = the properties of the same name,
`fromArray` = `pyflwdir.from_array` up to the constructed object (with `idxs_outlet`), `dictOf` = `_dict`,
`load` = `Flwdir.load` / `FlwdirRaster.load` (`pickle` is the identity).

Every theorem quantifies over all inputs: any number of rows, any ids, any network, any raster shape. -/
namespace Pf.C03x
open Pf Pf.Fd Pf.Fd.Spec

/-! ## 1. `get_loc_idx` / `from_dataframe` -/

/-- the executable distinctness test reported by the driver is the hypothesis `Distinct` -/
theorem distinctB_iff (ids : Array Int) : distinctB ids = true ↔ Distinct ids := distinctB_iff' ids

/-- **`get_loc_idx` is the declarative row lookup**: for an index column and a downstream-id column of
the same length, row `i` of the result is the (last) row holding the downstream id of row `i`, and `i`
itself when no row holds it. No hypothesis on the ids. -/
theorem getLocIdx_eq_spec (ids dsids : Array Int) (h : dsids.size = ids.size) :
    getLocIdx ids dsids = specLocIdx ids dsids := getLocIdx_eq_spec' ids dsids h

/-- **the result is a well-formed network without missing cells**: one entry per row, every entry is a
row number, hence `WF` (the hypothesis of every C03 theorem) holds — for distinct ids and, in fact, for
any ids. -/
theorem getLocIdx_wf (ids dsids : Array Int) (h : dsids.size = ids.size) :
    (getLocIdx ids dsids).size = ids.size ∧
    (∀ i, i < ids.size → (getLocIdx ids dsids)[i]! < ids.size) ∧
    WF (getLocIdx ids dsids) := by
  rw [getLocIdx_eq_spec ids dsids h]
  have hlt : ∀ i, i < ids.size → (specLocIdx ids dsids)[i]! < ids.size := by
    intro i hi
    rw [specLocIdx_get ids dsids i hi]
    cases hr : rowOf ids dsids[i]! with
    | none => simpa using hi
    | some j => simpa using (rowOf_some hr).1
  refine ⟨specLocIdx_size ids dsids, hlt, ?_⟩
  intro i hi
  rw [specLocIdx_size] at hi ⊢
  exact ⟨Nat.le_of_lt (hlt i hi), fun hl => hlt _ hl⟩

/-- **each link points to the row holding the downstream id; rows whose downstream id is absent are
pits** (ids pairwise distinct, as in a dataframe index). -/
theorem getLocIdx_link (ids dsids : Array Int) (hd : Distinct ids) (h : dsids.size = ids.size)
    (i : Nat) (hi : i < ids.size) :
    (∀ j, j < ids.size → ids[j]! = dsids[i]! → (getLocIdx ids dsids)[i]! = j) ∧
    ((∀ j, j < ids.size → ids[j]! ≠ dsids[i]!) → (getLocIdx ids dsids)[i]! = i) := by
  rw [getLocIdx_eq_spec ids dsids h, specLocIdx_get ids dsids i hi]
  constructor
  · intro j hj he
    cases hr : rowOf ids dsids[i]! with
    | none => exact absurd he (rowOf_none hr j hj)
    | some j' =>
      obtain ⟨h1, h2, _⟩ := rowOf_some hr
      simpa using hd j' j h1 hj (by rw [h2, he])
  · intro hn
    cases hr : rowOf ids dsids[i]! with
    | none => rfl
    | some j' =>
      obtain ⟨h1, h2, _⟩ := rowOf_some hr
      exact absurd h2 (hn j' h1)

/-- **pits of the result, exactly**: row `i` is a pit iff its downstream id is its own id or is held by
no row -/
theorem getLocIdx_pit_iff (ids dsids : Array Int) (hd : Distinct ids) (h : dsids.size = ids.size)
    (i : Nat) (hi : i < ids.size) :
    (getLocIdx ids dsids)[i]! = i ↔ (dsids[i]! = ids[i]! ∨ ∀ j, j < ids.size → ids[j]! ≠ dsids[i]!) := by
  obtain ⟨h1, h2⟩ := getLocIdx_link ids dsids hd h i hi
  constructor
  · intro he
    by_cases hex : ∃ j, j < ids.size ∧ ids[j]! = dsids[i]!
    · obtain ⟨j, hj, hje⟩ := hex
      have := h1 j hj hje
      rw [he] at this
      subst this
      exact Or.inl hje.symm
    · exact Or.inr fun j hj hje => hex ⟨j, hj, hje⟩
  · rintro (he | hn)
    · exact h1 i hi he.symm
    · exact h2 hn

/-- without distinctness the dictionary keeps the **last** row of a repeated id -/
theorem getLocIdx_last (ids dsids : Array Int) (h : dsids.size = ids.size) (i : Nat) (hi : i < ids.size)
    (j : Nat) (hj : j < ids.size) (he : ids[j]! = dsids[i]!) :
    ids[(getLocIdx ids dsids)[i]!]! = dsids[i]! ∧ j ≤ (getLocIdx ids dsids)[i]! := by
  rw [getLocIdx_eq_spec ids dsids h, specLocIdx_get ids dsids i hi]
  cases hr : rowOf ids dsids[i]! with
  | none => exact absurd he (rowOf_none hr j hj)
  | some j' =>
    obtain ⟨_, h2, h3⟩ := rowOf_some hr
    exact ⟨by simpa using h2, by simpa using h3 j hj he⟩

-- the example of tests/test_flwdir.py: the first downstream id (15442) is absent, the last row names itself
example : getLocIdx #[13924, 15144, 10043, 432, 7684, 6379, 6401, 3650, 2725, 95, 147, 7777]
    #[15442, 13924, 13924, 10043, 10043, 7684, 7684, 6401, 6401, 2725, 2725, 7777] =
    #[0, 0, 0, 2, 2, 4, 4, 6, 6, 8, 8, 11] := by decide +kernel
example : distinctB #[13924, 15144, 10043, 432, 7684, 6379, 6401, 3650, 2725, 95, 147, 7777] = true := by
  decide +kernel
example : getLocIdx #[5, 7, 5, 9] #[7, 5, 9, 100] = #[1, 2, 3, 3] ∧ distinctB #[5, 7, 5, 9] = false := by
  decide +kernel

/-! ## 2. the missing-value sentinel and the index dtype -/

/-- `_mv` is `-1` on signed, `2^32-1` on `uint32`, `2^64-1` on `uint64` networks -/
theorem mvSel_values :
    mvSel .i32 = -1 ∧ mvSel .i64 = -1 ∧ mvSel .u32 = 4294967295 ∧ mvSel .u64 = 18446744073709551615 := by
  decide

/-- **`_mv` is the value the decoders store in cells outside the network**: `np.full(n, core._mv, dtype)`
stores `-1` cast to the dtype, and that is `_mv` for each of the four index dtypes -/
theorem mvSel_eq_cast (d : Dtype) : mvSel d = castTo d coreMv := by
  cases d <;> decide

/-- largest value of each index dtype -/
theorem maxVal_values :
    Dtype.maxVal .i32 = 2147483647 ∧ Dtype.maxVal .i64 = 9223372036854775807 ∧
    Dtype.maxVal .u32 = 4294967295 ∧ Dtype.maxVal .u64 = 18446744073709551615 := by
  decide

/-- the sentinel is never a cell index of an array the dtype can index: it is negative or the largest value -/
theorem mvSel_not_index (d : Dtype) (n : Nat) (hn : (n : Int) ≤ d.maxVal) (i : Nat) (hi : i < n) :
    (i : Int) ≠ mvSel d := by
  obtain ⟨m1, m2, m3, m4⟩ := mvSel_values
  obtain ⟨x1, x2, x3, x4⟩ := maxVal_values
  cases d
  · rw [m1]; omega
  · rw [m2]; omega
  · rw [m3]; rw [x3] at hn; omega
  · rw [m4]; rw [x4] at hn; omega

/-- **dtype selection of `from_array`**: for every raster size `n < 2^64` the selected dtype stores every
cell index `0 … n-1`, its sentinel is not one of them, and `int32` is chosen exactly below `2^31 - 1` cells,
`uint32` exactly from there up to below `2^32 - 2`. -/
theorem selectDtype_fits (n : Nat) (hn : n < 18446744073709551616) :
    (∀ i, i < n → (0 : Int) ≤ i ∧ (i : Int) ≤ (selectDtype n).maxVal ∧ (i : Int) ≠ mvSel (selectDtype n)) ∧
    (selectDtype n = .i32 ↔ n < 2147483647) ∧
    (selectDtype n = .u32 ↔ 2147483647 ≤ n ∧ n < 4294967294) := by
  obtain ⟨m1, _, m3, m4⟩ := mvSel_values
  obtain ⟨x1, _, x3, x4⟩ := maxVal_values
  unfold selectDtype
  by_cases h1 : n < 2147483647
  · rw [if_pos h1, m1, x1]
    exact ⟨fun i hi => ⟨by omega, by omega, by omega⟩, ⟨fun _ => h1, fun _ => rfl⟩,
      ⟨fun h => (by cases h), fun h => (by omega)⟩⟩
  · rw [if_neg h1]
    by_cases h2 : n < 4294967294
    · rw [if_pos h2, m3, x3]
      exact ⟨fun i hi => ⟨by omega, by omega, by omega⟩, ⟨fun h => (by cases h), fun h => absurd h h1⟩,
        ⟨fun _ => ⟨by omega, h2⟩, fun _ => rfl⟩⟩
    · rw [if_neg h2, m4, x4]
      exact ⟨fun i hi => ⟨by omega, by omega, by omega⟩, ⟨fun h => (by cases h), fun h => absurd h h1⟩,
        ⟨fun h => (by cases h), fun h => absurd h.2 h2⟩⟩

/-- **`mask` on the machine array = "cell of the canonical network"**: on every raw index array whose
entries are cell indices or the dtype's sentinel, `idxs_ds != _mv` is true exactly where the canonical
network (sentinel ↦ `n`, the convention of every other theorem) has a cell, and there the canonical entry
is the raw index. -/
theorem mask_canon (d : Dtype) (raw : Array Int) (hok : RawOK d raw) :
    (maskRaw d raw).size = raw.size ∧ (canon d raw).size = raw.size ∧
    ∀ i, i < raw.size →
      ((maskRaw d raw)[i]! = true ↔ (canon d raw)[i]! ≠ raw.size) ∧
      ((maskRaw d raw)[i]! = true → ((canon d raw)[i]! : Int) = raw[i]! ∧ (canon d raw)[i]! < raw.size) := by
  refine ⟨maskRaw_size d raw, canon_size d raw, ?_⟩
  intro i hi
  rw [maskRaw_get d raw i hi, canon_get d raw i hi]
  rcases hok i hi with h | ⟨h0, h1⟩
  · simp [h]
  · by_cases hm : raw[i]! = mvSel d
    · simp [hm]
    · simp only [bne_iff_ne, ne_eq, hm, not_false_eq_true, if_false, true_iff, true_imp_iff]
      refine ⟨by omega, by omega, by omega⟩

theorem rawOKB_iff (d : Dtype) (raw : Array Int) : rawOKB d raw = true ↔ RawOK d raw := by
  simp [rawOKB, RawOK]

example : canon .u32 #[1, 1, 4294967295, 0] = #[1, 1, 4, 0] ∧ maskRaw .u32 #[1, 1, 4294967295, 0] = #[true, true, false, true] ∧
    rawOKB .u32 #[1, 1, 4294967295, 0] = true := by decide +kernel
example : selectDtype 2147483646 = .i32 ∧ selectDtype 2147483647 = .u32 ∧ selectDtype 4294967293 = .u32 ∧
    selectDtype 4294967294 = .u64 := by decide

/-! ## 3. constructors and simple properties -/

/-- `Flwdir.__init__` in closed form -/
theorem ctorVec_eq (dtype : Dtype) (ds : Array Nat) (pit outlet seq : Option (List Nat)) (nnodes : Option Nat)
    (cache : Bool) :
    ctorVec dtype ds pit outlet seq nnodes cache =
      if ds.size ≤ 1 then .error "ValueError"
      else if (pit.getD (pitIndices ds)).length = 0 then .error "ValueError"
      else .ok { dtype := dtype, ds := ds, pit := some (pit.getD (pitIndices ds)), outlet := outlet, seq := seq,
                 nnodes := nnodes, cache := cache, rast := none } := by
  unfold ctorVec
  cases pit <;> rfl

/-- every exception of the two constructors on modelled arguments is a `ValueError`
(7-9 transform coefficients are left to the `affine` package: "unmodelled") -/
theorem ctorVec_error {dtype : Dtype} {ds : Array Nat} {pit outlet seq : Option (List Nat)} {nnodes : Option Nat}
    {cache : Bool} {e : String} (h : ctorVec dtype ds pit outlet seq nnodes cache = .error e) : e = "ValueError" := by
  rw [ctorVec_eq] at h
  by_cases h1 : ds.size ≤ 1
  · rw [if_pos h1] at h; cases h; rfl
  · rw [if_neg h1] at h
    by_cases h2 : (pit.getD (pitIndices ds)).length = 0
    · rw [if_pos h2] at h; cases h; rfl
    · rw [if_neg h2] at h; cases h

/-- **`Flwdir(...)` succeeds iff** the array has at least two entries and there is a pit: a non-empty
`idxs_pit` argument, or - when none is given - a self-draining cell. -/
theorem ctorVec_ok_iff (dtype : Dtype) (ds : Array Nat) (pit outlet seq : Option (List Nat)) (nnodes : Option Nat)
    (cache : Bool) :
    (∃ o, ctorVec dtype ds pit outlet seq nnodes cache = .ok o) ↔
      (1 < ds.size ∧ match pit with
        | some p => p ≠ []
        | none => ∃ i, i < ds.size ∧ ds[i]! = i) := by
  rw [ctorVec_eq]
  by_cases h1 : ds.size ≤ 1
  · rw [if_pos h1]
    constructor
    · rintro ⟨o, ho⟩; cases ho
    · rintro ⟨h, _⟩; omega
  · rw [if_neg h1]
    have h1' : 1 < ds.size := by omega
    have hiff : (pit.getD (pitIndices ds)).length ≠ 0 ↔
        (match pit with
          | some p => p ≠ []
          | none => ∃ i, i < ds.size ∧ ds[i]! = i) := by
      cases pit with
      | some p => simp [List.length_eq_zero_iff]
      | none =>
        simp only [Option.getD_none, ne_eq, List.length_eq_zero_iff]
        constructor
        · intro hne
          cases hl : pitIndices ds with
          | nil => exact absurd hl hne
          | cons a l =>
            have : a ∈ pitIndices ds := by rw [hl]; simp
            exact ⟨a, (mem_pitIndices ds a).1 this⟩
        · rintro ⟨i, hi, he⟩ h0
          have : i ∈ pitIndices ds := (mem_pitIndices ds i).2 ⟨hi, he⟩
          rw [h0] at this; cases this
    by_cases h2 : (pit.getD (pitIndices ds)).length = 0
    · rw [if_pos h2]
      constructor
      · rintro ⟨o, ho⟩; cases ho
      · rintro ⟨_, h⟩; exact absurd h2 (hiff.2 h)
    · rw [if_neg h2]
      exact ⟨fun _ => ⟨h1', hiff.1 h2⟩, fun _ => ⟨_, rfl⟩⟩

/-- a successfully constructed object stores its arguments unchanged, `idxs_pit` being the given array or
the self-draining cells in increasing order -/
theorem ctorVec_fields {dtype : Dtype} {ds : Array Nat} {pit outlet seq : Option (List Nat)} {nnodes : Option Nat}
    {cache : Bool} {o : Obj} (h : ctorVec dtype ds pit outlet seq nnodes cache = .ok o) :
    o.dtype = dtype ∧ o.ds = ds ∧ o.outlet = outlet ∧ o.seq = seq ∧ o.nnodes = nnodes ∧ o.cache = cache ∧
    o.rast = none ∧ o.pit = some (pit.getD (pitIndices ds)) ∧ o.idxsPit = pit.getD (pitIndices ds) ∧
    o.idxsPit ≠ [] ∧ 1 < o.ds.size := by
  rw [ctorVec_eq] at h
  by_cases h1 : ds.size ≤ 1
  · rw [if_pos h1] at h; cases h
  · rw [if_neg h1] at h
    by_cases h2 : (pit.getD (pitIndices ds)).length = 0
    · rw [if_pos h2] at h; cases h
    · rw [if_neg h2] at h
      cases h
      refine ⟨rfl, rfl, rfl, rfl, rfl, rfl, rfl, rfl, rfl, ?_, by show 1 < ds.size; omega⟩
      show pit.getD (pitIndices ds) ≠ []
      intro h0; rw [h0] at h2; exact h2 rfl

/-- **`FlwdirRaster(...)` succeeds iff** `Flwdir(...)` does, the type name is one of d8 / ldd / nextxy, the
shape has exactly two entries whose product (in `uint64`) is the array size, and the transform has six
coefficients (`transform.size ∈ {7, 8, 9}` is outside the model). Everything else is a `ValueError`. -/
theorem ctorRaster_ok_iff (dtype : Dtype) (ds : Array Nat) (shape : List Nat) (ftype : Option Ftype)
    (pit outlet seq : Option (List Nat)) (nnodes : Option Nat) (transform : Array Int) (latlon cache : Bool) :
    (∃ o, ctorRaster dtype ds shape ftype pit outlet seq nnodes transform latlon cache = .ok o) ↔
      ((∃ o, ctorVec dtype ds pit outlet seq nnodes cache = .ok o) ∧ ftype.isSome = true ∧
       (∃ nrow ncol, shape = [nrow, ncol] ∧ (nrow * ncol) % 2 ^ 64 = ds.size) ∧ transform.size = 6) := by
  unfold ctorRaster
  cases hv : ctorVec dtype ds pit outlet seq nnodes cache with
  | error e => simp
  | ok o =>
    cases ftype with
    | none => simp
    | some ft =>
      match shape with
      | [] => simp
      | [_] => simp
      | _ :: _ :: _ :: _ => simp
      | [nrow, ncol] =>
        by_cases hs : (nrow * ncol) % 2 ^ 64 = ds.size
        · by_cases ht : transform.size = 6
          · simp [hs, ht, transformCheck]
            exact ⟨nrow, ncol, ⟨rfl, rfl⟩, by simpa using hs⟩
          · simp only [hs, ne_eq, not_true_eq_false, if_false, transformCheck, ht]
            by_cases h3 : transform.size < 6 ∨ 9 < transform.size
            · simp [h3]
            · simp [h3]
        · simp [hs]

/-- a shape that is not 2-D is rejected with `ValueError` whenever the vector part and the type name are fine -/
theorem ctorRaster_bad_shape (dtype : Dtype) (ds : Array Nat) (shape : List Nat) (ft : Ftype)
    (pit outlet seq : Option (List Nat)) (nnodes : Option Nat) (transform : Array Int) (latlon cache : Bool)
    (hv : ∃ o, ctorVec dtype ds pit outlet seq nnodes cache = .ok o) (hs : shape.length ≠ 2) :
    ctorRaster dtype ds shape (some ft) pit outlet seq nnodes transform latlon cache = .error "ValueError" := by
  obtain ⟨o, ho⟩ := hv
  unfold ctorRaster
  rw [ho]
  match shape, hs with
  | [], _ => rfl
  | [_], _ => rfl
  | _ :: _ :: _ :: _, _ => rfl
  | [_, _], hs => exact absurd rfl hs

/-- a successfully constructed raster object stores its arguments unchanged and satisfies the object invariant -/
theorem ctorRaster_fields {dtype : Dtype} {ds : Array Nat} {shape : List Nat} {ftype : Option Ftype}
    {pit outlet seq : Option (List Nat)} {nnodes : Option Nat} {transform : Array Int} {latlon cache : Bool} {o : Obj}
    (h : ctorRaster dtype ds shape ftype pit outlet seq nnodes transform latlon cache = .ok o) :
    o.dtype = dtype ∧ o.ds = ds ∧ o.outlet = outlet ∧ o.seq = seq ∧ o.nnodes = nnodes ∧ o.cache = cache ∧
    o.pit = some (pit.getD (pitIndices ds)) ∧ o.idxsPit = pit.getD (pitIndices ds) ∧
    (∃ ft nrow ncol, ftype = some ft ∧ shape = [nrow, ncol] ∧
      o.rast = some { shape := (nrow, ncol), ftype := ft, transform := transform, latlon := latlon }) ∧ o.Inv := by
  unfold ctorRaster at h
  cases hv : ctorVec dtype ds pit outlet seq nnodes cache with
  | error e => rw [hv] at h; cases h
  | ok o1 =>
    rw [hv] at h
    obtain ⟨f1, f2, f3, f4, f5, f6, _, f8, f9, f10, f11⟩ := ctorVec_fields hv
    cases ftype with
    | none => cases h
    | some ft =>
      match shape, h with
      | [], h => cases h
      | [_], h => cases h
      | _ :: _ :: _ :: _, h => cases h
      | [nrow, ncol], h =>
        simp only at h
        split at h
        · cases h
        · rename_i hs
          have hs' : (nrow * ncol) % 2 ^ 64 = ds.size := by simpa using hs
          cases htc : transformCheck transform with
          | error e => rw [htc] at h; cases h
          | ok u =>
            rw [htc] at h
            cases h
            have ht6 : transform.size = 6 := by
              unfold transformCheck at htc
              split at htc
              · assumption
              · split at htc <;> cases htc
            refine ⟨f1, f2, f3, f4, f5, f6, f8, by simpa [Obj.idxsPit] using f9, ⟨ft, nrow, ncol, rfl, rfl, rfl⟩, ?_⟩
            refine ⟨by simpa using f11, ⟨_, f8, ?_⟩, ?_, ?_⟩
            · simpa [Obj.idxsPit, f8] using f10
            · intro r hr
              simp only [Option.some.injEq] at hr
              subst hr
              simpa [f2] using hs'
            · intro r hr
              simp only [Option.some.injEq] at hr
              subst hr
              exact ht6

theorem ctorVec_inv {dtype : Dtype} {ds : Array Nat} {pit outlet seq : Option (List Nat)} {nnodes : Option Nat}
    {cache : Bool} {o : Obj} (h : ctorVec dtype ds pit outlet seq nnodes cache = .ok o) : o.Inv := by
  obtain ⟨_, _, _, _, _, _, f7, f8, f9, f10, f11⟩ := ctorVec_fields h
  refine ⟨f11, ⟨_, f8, ?_⟩, ?_, ?_⟩
  · simpa [Obj.idxsPit, f8] using f10
  · intro r hr; rw [f7] at hr; cases hr
  · intro r hr; rw [f7] at hr; cases hr

/-- **default pits**: when no `idxs_pit` is given the object's pits are exactly the self-draining cells -/
theorem idxsPit_default {dtype : Dtype} {ds : Array Nat} {outlet seq : Option (List Nat)} {nnodes : Option Nat}
    {cache : Bool} {o : Obj} (h : ctorVec dtype ds none outlet seq nnodes cache = .ok o) (p : Nat) :
    p ∈ o.idxsPit ↔ (p < ds.size ∧ ds[p]! = p) := by
  obtain ⟨_, _, _, _, _, _, _, _, f9, _, _⟩ := ctorVec_fields h
  rw [f9]
  exact mem_pitIndices ds p

/-- **`mask`**: one flag per cell, true exactly on the cells of the network -/
theorem mask_iff (o : Obj) : o.mask.size = o.ds.size ∧ ∀ i, i < o.ds.size → (o.mask[i]! = true ↔ o.ds[i]! ≠ o.ds.size) := by
  refine ⟨by simp [Obj.mask], fun i hi => ?_⟩
  simp [Obj.mask, hi]

/-- **`n_upstream`**: on a well-formed network the entry of a cell of the network is the number of other
cells draining directly into it; cells outside the network carry `-9` -/
theorem nUpstream_spec (o : Obj) (hwf : WF o.ds) (v : Nat) (hv : v < o.ds.size) :
    o.nUpstream[v]! = specNup o.ds v ∧
    (o.ds[v]! = o.ds.size → o.nUpstream[v]! = -9) ∧
    (o.ds[v]! ≠ o.ds.size →
      o.nUpstream[v]! = (((List.range o.ds.size).filter fun j => o.ds[j]! == v && j != v).length : Int)) := by
  have h := nUpstream_get o.ds hwf v hv
  refine ⟨h, fun hm => ?_, fun hm => ?_⟩
  · show (upstreamCount o.ds none)[v]! = -9
    rw [h]; simp [specNup, hm]
  · show (upstreamCount o.ds none)[v]! = _
    rw [h]; simp [specNup, hm]

/-- **`__getitem__`**: `flw[idx]` is the downstream entry of cell `idx` (`n` = missing); a negative index
counts from the end; anything else is an `IndexError` -/
theorem getitem_spec (o : Obj) (idx : Int) :
    (0 ≤ idx → idx < o.ds.size → o.getitem idx = .ok o.ds[idx.toNat]!) ∧
    (idx < 0 → -(o.ds.size : Int) ≤ idx → o.getitem idx = .ok o.ds[(idx + o.ds.size).toNat]!) ∧
    (idx < -(o.ds.size : Int) ∨ (o.ds.size : Int) ≤ idx → o.getitem idx = .error "IndexError") := by
  unfold Obj.getitem
  refine ⟨fun h0 h1 => by simp [h0, h1], fun h0 h1 => ?_, fun h => ?_⟩
  · have : ¬ (0 ≤ idx ∧ idx < (o.ds.size : Int)) := by omega
    simp [this, h0, h1]
  · have h1 : ¬ (0 ≤ idx ∧ idx < (o.ds.size : Int)) := by omega
    have h2 : ¬ (-(o.ds.size : Int) ≤ idx ∧ idx < 0) := by omega
    simp [h1, h2]

/-- **`from_dataframe`** builds the network of `get_loc_idx` iff there are at least two rows and at least
one pit row; all rows are cells of the network and the pits are the rows that point to themselves -/
theorem fromDataframe_ok_iff (dtype : Dtype) (ids dsids : Array Int) (h : dsids.size = ids.size) :
    (∃ o, fromDataframe dtype ids dsids = .ok o) ↔
      (1 < ids.size ∧ ∃ i, i < ids.size ∧ (getLocIdx ids dsids)[i]! = i) := by
  unfold fromDataframe
  rw [ctorVec_ok_iff]
  simp only [(getLocIdx_wf ids dsids h).1]

theorem fromDataframe_fields {dtype : Dtype} {ids dsids : Array Int} {o : Obj} (h : dsids.size = ids.size)
    (ho : fromDataframe dtype ids dsids = .ok o) :
    o.ds = getLocIdx ids dsids ∧ WF o.ds ∧ (∀ i, i < o.ds.size → o.mask[i]! = true) ∧
    (∀ p, p ∈ o.idxsPit ↔ (p < ids.size ∧ (getLocIdx ids dsids)[p]! = p)) ∧ o.Inv := by
  obtain ⟨_, f2, _⟩ := ctorVec_fields ho
  obtain ⟨w1, w2, w3⟩ := getLocIdx_wf ids dsids h
  refine ⟨f2, by rw [f2]; exact w3, ?_, ?_, ctorVec_inv ho⟩
  · intro i hi
    rw [(mask_iff o).2 i hi, f2, w1]
    rw [f2, w1] at hi
    exact Nat.ne_of_lt (w2 i hi)
  · intro p
    rw [idxsPit_default ho p, w1]

example : (fromDataframe .i64 #[10, 20, 30] #[20, 99, 20]).toOption.map (fun o => (o.ds, o.idxsPit)) =
    some (#[1, 1, 1], [1]) := by decide +kernel
example : (fromDataframe .i64 #[10, 20] #[20, 10]).toOption = none := by decide +kernel   -- a 2-cycle: no pit
example : (ctorRaster .i32 #[1, 5, 6, 1, 4, 5] [2, 3] (some .d8) none none none none #[1, 0, 0, 0, -1, 0] false true).toOption.map
    (fun o => (o.idxsPit, o.mask, o.nUpstream)) =
    some ([4, 5], #[true, true, false, true, true, true], #[0, 2, -9, 0, 0, 1]) := by decide +kernel
example : (ctorRaster .i32 #[1, 5, 6, 1, 4, 5] [3, 3] (some .d8) none none none none #[1, 0, 0, 0, -1, 0] false true).toOption = none ∧
    (ctorRaster .i32 #[1, 5, 6, 1, 4, 5] [2, 3] none none none none none #[1, 0, 0, 0, -1, 0] false true).toOption = none ∧
    (ctorRaster .i32 #[1, 0, 6, 1, 0, 1] [2, 3] (some .d8) none none none none #[1, 0, 0, 0, -1, 0] false true).toOption = none ∧
    (ctorRaster .i32 #[0] [1, 1] (some .d8) none none none none #[1, 0, 0, 0, -1, 0] false true).toOption = none ∧
    (ctorRaster .i32 #[1, 5, 6, 1, 4, 5] [6] (some .d8) none none none none #[1, 0, 0, 0, -1, 0] false true).toOption = none ∧
    (ctorRaster .i32 #[1, 5, 6, 1, 4, 5] [1, 2, 3] (some .d8) none none none none #[1, 0, 0, 0, -1, 0] false true).toOption = none := by
  decide +kernel

/-! ## 4. `idxs_outlet` as computed by `pyflwdir.from_array` -/

/-- **D8 outlets**: for every shape and every raster over the D8 alphabet (masked cells are nodata cells of
that raster), `idxs_pit[np.isin(data.flat[idxs_pit], _pv)]` is exactly the list of cells carrying a pit code
(0 or 255), in increasing order; the pits that are *not* outlets are exactly the cells whose direction code
points off the raster or into a nodata cell. -/
theorem d8_outlets (nrow ncol : Nat) (codes : Array Nat) (hlegal : ∀ i, i < nrow * ncol → codes[i]! ∈ d8Alphabet) :
    let d := fromArrayD8 nrow ncol codes
    let out := outletsOf .d8 (.u8 nrow ncol codes) d.pits
    out = specOutlets nrow ncol (readD8 ncol codes) ∧
    (∀ i, i ∈ out → i ∈ d.pits.toList) ∧
    d.pits.toList.filter (fun i => !out.contains i) = specEdgePits nrow ncol (readD8 ncol codes) := by
  intro d out
  have hp := (C01.d8_decode nrow ncol codes hlegal).2.1
  have hpv : ∀ i, i < nrow * ncol → (isPvAt .d8 (.u8 nrow ncol codes) i = true ↔ readD8 ncol codes i = .pit) := by
    intro i hi
    have hl := hlegal i hi
    simp only [d8Alphabet, alphabet, d8Dirs, d8Pits, d8Nodata, List.map_cons, List.map_nil, List.cons_append, List.nil_append,
      List.mem_cons, List.mem_nil_iff, or_false] at hl
    simp only [isPvAt, d8Pv, readD8, readTab, d8Nodata, d8Pits, d8Dirs]
    rcases hl with h | h | h | h | h | h | h | h | h | h | h <;> simp [h, List.lookup]
  have hout : out = specOutlets nrow ncol (readD8 ncol codes) := by
    show d.pits.toList.filter _ = _
    rw [hp]; exact outlets_generic nrow ncol _ _ hpv
  refine ⟨hout, fun i hi => (List.mem_filter.mp hi).1, ?_⟩
  rw [hp, ← edge_generic nrow ncol _ _ hpv]
  apply List.filter_congr
  intro i hi
  have hi' : i ∈ d.pits.toList := by rw [hp]; exact hi
  show (!out.contains i) = _
  congr 1
  rw [Bool.eq_iff_iff, List.contains_iff_mem]
  show i ∈ d.pits.toList.filter _ ↔ _
  simp [List.mem_filter, hi']

/-- **LDD outlets**: the cells carrying the pit code 5 -/
theorem ldd_outlets (nrow ncol : Nat) (codes : Array Nat) (hlegal : ∀ i, i < nrow * ncol → codes[i]! ∈ lddAlphabet) :
    let d := fromArrayLdd nrow ncol codes
    let out := outletsOf .ldd (.u8 nrow ncol codes) d.pits
    out = specOutlets nrow ncol (readLdd ncol codes) ∧
    (∀ i, i ∈ out → i ∈ d.pits.toList) ∧
    d.pits.toList.filter (fun i => !out.contains i) = specEdgePits nrow ncol (readLdd ncol codes) := by
  intro d out
  have hp := (C01.ldd_decode nrow ncol codes hlegal).2.1
  have hpv : ∀ i, i < nrow * ncol → (isPvAt .ldd (.u8 nrow ncol codes) i = true ↔ readLdd ncol codes i = .pit) := by
    intro i hi
    have hl := hlegal i hi
    simp only [lddAlphabet, alphabet, lddDirs, lddPits, lddNodata, List.map_cons, List.map_nil, List.cons_append, List.nil_append,
      List.mem_cons, List.mem_nil_iff, or_false] at hl
    simp only [isPvAt, lddPv, readLdd, readTab, lddNodata, lddPits, lddDirs]
    rcases hl with h | h | h | h | h | h | h | h | h | h <;> simp [h, List.lookup]
  have hout : out = specOutlets nrow ncol (readLdd ncol codes) := by
    show d.pits.toList.filter _ = _
    rw [hp]; exact outlets_generic nrow ncol _ _ hpv
  refine ⟨hout, fun i hi => (List.mem_filter.mp hi).1, ?_⟩
  rw [hp, ← edge_generic nrow ncol _ _ hpv]
  apply List.filter_congr
  intro i hi
  have hi' : i ∈ d.pits.toList := by rw [hp]; exact hi
  show (!out.contains i) = _
  congr 1
  rw [Bool.eq_iff_iff, List.contains_iff_mem]
  show i ∈ d.pits.toList.filter _ ↔ _
  simp [List.mem_filter, hi']

/-- **NEXTXY outlets** (no legality hypothesis): the cells whose `nextx` is -9 or -10. A cell that designates
itself, a target off the raster or in nodata, or a pit code in `nexty` only, gives a pit that is not an outlet. -/
theorem nextxy_outlets (nrow ncol : Nat) (xs ys : Array Int) :
    let d := fromArrayXY nrow ncol xs ys
    let out := outletsOf .nextxy (.xy nrow ncol xs ys) d.pits
    out = specOutlets nrow ncol (readXY xs ys) ∧
    (∀ i, i ∈ out → i ∈ d.pits.toList) ∧
    d.pits.toList.filter (fun i => !out.contains i) = specEdgePits nrow ncol (readXY xs ys) := by
  intro d out
  have hp := (C01.nextxy_decode nrow ncol xs ys).2.1
  have hpv : ∀ i, i < nrow * ncol → (isPvAt .nextxy (.xy nrow ncol xs ys) i = true ↔ readXY xs ys i = .pit) := by
    intro i _
    simp only [isPvAt, xyPv0, xyPv1, readXY, xyNodata, xyPits, Bool.or_eq_true, beq_iff_eq, List.mem_cons,
      List.mem_nil_iff, or_false]
    by_cases h1 : xs[i]! = -9999
    · simp [h1]
    · by_cases h2 : xs[i]! = -9 ∨ xs[i]! = -10
      · simp [h1, h2]
      · simp [h1, h2]
  have hout : out = specOutlets nrow ncol (readXY xs ys) := by
    show d.pits.toList.filter _ = _
    rw [hp]; exact outlets_generic nrow ncol _ _ hpv
  refine ⟨hout, fun i hi => (List.mem_filter.mp hi).1, ?_⟩
  rw [hp, ← edge_generic nrow ncol _ _ hpv]
  apply List.filter_congr
  intro i hi
  have hi' : i ∈ d.pits.toList := by rw [hp]; exact hi
  show (!out.contains i) = _
  congr 1
  rw [Bool.eq_iff_iff, List.contains_iff_mem]
  show i ∈ d.pits.toList.filter _ ↔ _
  simp [List.mem_filter, hi']

/-- **outlets under a user mask** (`data = np.where(mask != 0, data, _mv)` before decoding): the outlets are
exactly the *visible* cells carrying a pit code - a masked-out outlet disappears, and a cell that drained into
a masked-out cell becomes a pit but not an outlet. D8 / LDD / NEXTXY. -/
theorem d8_outlets_masked (nrow ncol : Nat) (codes : Array Nat) (mask : Array Bool)
    (hsize : codes.size = nrow * ncol) (hlegal : ∀ i, i < nrow * ncol → codes[i]! ∈ d8Alphabet) :
    let codes' := applyMask d8Mv mask codes
    outletsOf .d8 (.u8 nrow ncol codes') (fromArrayD8 nrow ncol codes').pits =
      specOutlets nrow ncol (maskRead (fun i => mask[i]!) (readD8 ncol codes)) := by
  intro codes'
  have hl : ∀ i, i < nrow * ncol → codes'[i]! ∈ d8Alphabet := by
    intro i hi
    show (applyMask d8Mv mask codes)[i]! ∈ d8Alphabet
    rw [applyMask_get _ _ _ _ (by omega)]
    by_cases hm : mask[i]! = true
    · simp only [hm, if_true]; exact hlegal i hi
    · have hm' : mask[i]! = false := by simpa using hm
      simp only [hm', Bool.false_eq_true, if_false]; decide
  rw [(d8_outlets nrow ncol codes' hl).1]
  exact specOutlets_congr fun j hj => readTab_mask d8Dirs d8Pits d8Nodata ncol codes mask j (by omega)

theorem ldd_outlets_masked (nrow ncol : Nat) (codes : Array Nat) (mask : Array Bool)
    (hsize : codes.size = nrow * ncol) (hlegal : ∀ i, i < nrow * ncol → codes[i]! ∈ lddAlphabet) :
    let codes' := applyMask lddMv mask codes
    outletsOf .ldd (.u8 nrow ncol codes') (fromArrayLdd nrow ncol codes').pits =
      specOutlets nrow ncol (maskRead (fun i => mask[i]!) (readLdd ncol codes)) := by
  intro codes'
  have hl : ∀ i, i < nrow * ncol → codes'[i]! ∈ lddAlphabet := by
    intro i hi
    show (applyMask lddMv mask codes)[i]! ∈ lddAlphabet
    rw [applyMask_get _ _ _ _ (by omega)]
    by_cases hm : mask[i]! = true
    · simp only [hm, if_true]; exact hlegal i hi
    · have hm' : mask[i]! = false := by simpa using hm
      simp only [hm', Bool.false_eq_true, if_false]; decide
  rw [(ldd_outlets nrow ncol codes' hl).1]
  exact specOutlets_congr fun j hj => readTab_mask lddDirs lddPits lddNodata ncol codes mask j (by omega)

theorem nextxy_outlets_masked (nrow ncol : Nat) (xs ys : Array Int) (mask : Array Bool)
    (hx : xs.size = nrow * ncol) (hy : ys.size = nrow * ncol) :
    let xs' := applyMask xyMv mask xs
    let ys' := applyMask xyMv mask ys
    outletsOf .nextxy (.xy nrow ncol xs' ys') (fromArrayXY nrow ncol xs' ys').pits =
      specOutlets nrow ncol (maskRead (fun i => mask[i]!) (readXY xs ys)) := by
  intro xs' ys'
  rw [(nextxy_outlets nrow ncol xs' ys').1]
  exact specOutlets_congr fun j hj => readXY_mask xs ys mask j (by omega) (by omega)

-- the outlet at cell 2 is masked out: only the outlet at cell 3 is left; cell 1, which drained into cell 2, is now an edge pit
example : (fromArray (some .d8) true (.u8 2 3 #[1, 1, 0, 0, 16, 16]) (some ([2, 3], #[true, true, false, true, true, true]))
    #[1, 0, 0, 0, -1, 0] false).toOption.map (fun o => (o.ds, o.idxsPit, o.outlet)) =
    some (#[1, 1, 6, 3, 3, 4], [1, 3], some [3]) := by decide +kernel

/-- **the object returned by `from_array`**: whatever the format, mask and arguments, on success the
stored outlets are the stored pits filtered by "the (masked) raster carries a pit code there" - in particular
`idxs_outlet ⊆ idxs_pit` -, the index dtype is the one selected from the data size, no order and no node
count are stored yet, and the object invariant holds. -/
theorem fromArray_outlet {ft : Option Ftype} {check : Bool} {data : Data} {mask : Option (List Nat × Array Bool)}
    {transform : Array Int} {latlon : Bool} {o : Obj} (h : fromArray ft check data mask transform latlon = .ok o) :
    ∃ ftype data' d, maskData ftype data mask = .ok data' ∧ decodeData ftype data' = .ok d ∧
      o.ds = d.ds ∧ o.idxsPit = d.pits.toList ∧ o.outlet = some (outletsOf ftype data' d.pits) ∧
      (∀ i, i ∈ outletsOf ftype data' d.pits → i ∈ o.idxsPit) ∧
      o.dtype = selectDtype (dataSize data') ∧ o.seq = none ∧ o.nnodes = none ∧ o.Inv := by
  unfold fromArray at h
  cases h1 : selectFtype ft check data with
  | error e => simp [h1] at h
  | ok p =>
    obtain ⟨ftype, chk⟩ := p
    simp only [h1] at h
    by_cases hc : (chk && !isvalid ftype data) = true
    · rw [if_pos hc] at h; cases h
    · rw [if_neg hc] at h
      cases h2 : maskData ftype data mask with
      | error e => simp [h2] at h
      | ok data' =>
        simp only [h2] at h
        cases h3 : decodeData ftype data' with
        | error e => simp [h3] at h
        | ok d =>
          simp only [h3] at h
          obtain ⟨f1, f2, f3, f4, f5, _, _, f8, _, f10⟩ := ctorRaster_fields h
          have f8' : o.idxsPit = d.pits.toList := by simpa using f8
          refine ⟨ftype, data', d, h2, h3, f2, f8', f3, ?_, f1, f4, f5, f10⟩
          intro i hi
          rw [f8']
          exact (List.mem_filter.mp hi).1

-- 2x3 D8 raster `E E E / pit W W`: cell 2 leaves the raster (edge pit, not an outlet), cell 3 is an outlet
example : (fromArray (some .d8) true (.u8 2 3 #[1, 1, 1, 0, 16, 16]) none #[1, 0, 0, 0, -1, 0] false).toOption.map
    (fun o => (o.ds, o.idxsPit, o.outlet, o.dtype)) = some (#[1, 2, 2, 3, 3, 4], [2, 3], some [3], .i32) := by
  decide +kernel
example : specOutlets 2 3 (readD8 3 #[1, 1, 1, 0, 16, 16]) = [3] ∧ specEdgePits 2 3 (readD8 3 #[1, 1, 1, 0, 16, 16]) = [2] := by
  decide +kernel
-- NEXTXY 1x4: cell 0 -> cell 1 (outlet -9), cell 2 designates itself, cell 3 has a pit code in y only
example : (fromArray (some .nextxy) true (.xy 1 4 #[2, -9, 3, 4] #[1, -9, 1, -10]) none #[1, 0, 0, 0, -1, 0] false).toOption.map
    (fun o => (o.ds, o.idxsPit, o.outlet)) = some (#[1, 1, 2, 3], [1, 2, 3], some [1]) := by
  decide +kernel

/-! ## 5. `dump` / `load` -/

/-- on a well-formed network the node count can always be evaluated (`core.rank` terminates, C03) -/
theorem nnodesP_total (o : Obj) (hwf : WF o.ds) : ∃ k, o.nnodesP = some k := by
  unfold Obj.nnodesP
  cases o.nnodes with
  | some k => exact ⟨k, rfl⟩
  | none =>
    obtain ⟨r, c, h1, _⟩ := rank_cert' o.ds hwf
    simp only [nnodesRank, h1, Option.map_some]
    exact ⟨_, rfl⟩

/-- **the pickled dictionary**: `_dict` holds the network, the stored order and pits as they are, the raster
attributes, and the node count of the object; evaluating it changes nothing the object shows (it only
memoises the node count). -/
theorem dictOf_spec (o : Obj) (k : Nat) (hk : o.nnodesP = some k) :
    ∃ d o1, dictOf o = some (d, o1) ∧
      d = { dtype := o.dtype, nnodes := k, ds := o.ds, seq := o.seq, pit := o.pit, rast := o.rast } ∧
      o1.view = o.view ∧ o1.nnodes = some k := by
  unfold dictOf
  rw [hk]
  refine ⟨_, _, rfl, rfl, ?_, rfl⟩
  show Obj.view { o with nnodes := some k } = o.view
  unfold Obj.view
  rw [hk]
  rfl

/-- **round trip**: for every object the constructors can produce (`Inv`) on a well-formed network,
`dump` followed by `load` succeeds and the loaded object shows the same index dtype, network `idxs_ds`,
stored order, pits, node count, shape, type, transform and `latlon`. What is **not** carried: `idxs_outlet`
(always `None` after `load`), the `cache` flag (always `True`) and cached arrays. -/
theorem dump_load_roundtrip (o : Obj) (hinv : o.Inv) (hwf : WF o.ds) :
    ∃ d o1 o2, dictOf o = some (d, o1) ∧ load d = .ok o2 ∧
      o1.view = o.view ∧ o2.view = o.view ∧ o2.outlet = none ∧ o2.cache = true ∧ o2.Inv := by
  obtain ⟨k, hk⟩ := nnodesP_total o hwf
  obtain ⟨d, o1, hd, hdd, hv1, _⟩ := dictOf_spec o k hk
  obtain ⟨p, hp, hpne⟩ := hinv.pit
  have hsz : ¬ o.ds.size ≤ 1 := by have := hinv.size; omega
  have hvec : ctorVec o.dtype o.ds o.pit none o.seq (some k) true =
      .ok { dtype := o.dtype, ds := o.ds, pit := some p, outlet := none, seq := o.seq, nnodes := some k,
            cache := true, rast := none } := by
    unfold ctorVec
    have hl : ¬ p.length = 0 := by
      intro h0; exact hpne (List.length_eq_zero_iff.mp h0)
    simp [hsz, hp, hl]
  have hview : ∀ r : Option RasterAttrs, r = o.rast →
      (Obj.view { dtype := o.dtype, ds := o.ds, pit := some p, outlet := none, seq := o.seq, nnodes := some k,
                  cache := true, rast := r }) = o.view := by
    intro r hr
    unfold Obj.view
    rw [hk]
    simp only [Obj.idxsPit, Obj.nnodesP, hp, hr]
  subst hdd
  cases hr : o.rast with
  | none =>
    refine ⟨_, o1, _, hd, ?_, hv1, hview none hr.symm, rfl, rfl, ?_⟩
    · simp only [load, hr]; exact hvec
    · exact ⟨hinv.size, ⟨p, rfl, hpne⟩, fun r h => (by cases h), fun r h => (by cases h)⟩
  | some r =>
    have hs := hinv.shape r hr
    have ht := hinv.transform r hr
    refine ⟨_, o1, Obj.mk o.dtype o.ds (some p) none o.seq (some k) true (some r), hd, ?_, hv1,
      hview (some r) hr.symm, rfl, rfl, ?_⟩
    · simp only [load, hr, ctorRaster, hvec, hs, ne_eq, not_true_eq_false, if_false, transformCheck, ht, if_true]
    · refine ⟨hinv.size, ⟨p, rfl, hpne⟩, fun r' h => ?_, fun r' h => ?_⟩
      · simp only [Option.some.injEq] at h; subst h; exact hs
      · simp only [Option.some.injEq] at h; subst h; exact ht

/-- dumping the loaded object again gives the same dictionary: `dump ∘ load` is idempotent -/
theorem dump_load_dump (o : Obj) (hinv : o.Inv) (hwf : WF o.ds) :
    ∃ d o1 o2 o3, dictOf o = some (d, o1) ∧ load d = .ok o2 ∧ dictOf o2 = some (d, o3) := by
  obtain ⟨d, o1, o2, h1, h2, _, hv2, _, _, _⟩ := dump_load_roundtrip o hinv hwf
  obtain ⟨k, hk⟩ := nnodesP_total o hwf
  obtain ⟨d', o1', hd', hdd, _, _⟩ := dictOf_spec o k hk
  rw [h1] at hd'
  obtain ⟨rfl, rfl⟩ : d = d' ∧ o1 = o1' := by simpa using hd'
  have hk2 : o2.nnodesP = some k := by
    have := congrArg View.nnodes hv2
    simpa [Obj.view, hk] using this
  obtain ⟨d2, o3, hd2, hdd2, _, _⟩ := dictOf_spec o2 k hk2
  refine ⟨d, o1, o2, o3, h1, h2, ?_⟩
  rw [hd2, hdd2, hdd]
  have e1 : o2.dtype = o.dtype := congrArg View.dtype hv2
  have e2 : o2.ds = o.ds := congrArg View.ds hv2
  have e3 : o2.seq = o.seq := congrArg View.seq hv2
  have e4 : o2.rast = o.rast := congrArg View.rast hv2
  have e5 : o2.idxsPit = o.idxsPit := congrArg View.pits hv2
  obtain ⟨p, hp, _⟩ := hinv.pit
  have e6 : o2.pit = o.pit := by
    -- `load` always stores a pit array: the one of the dictionary
    unfold load at h2
    subst hdd
    cases hr : o.rast with
    | none =>
      simp only [hr] at h2
      have := (ctorVec_fields h2).2.2.2.2.2.2.2.1
      rw [this, hp]; rfl
    | some r =>
      simp only [hr] at h2
      have := (ctorRaster_fields h2).2.2.2.2.2.2.1
      rw [this, hp]; rfl
  rw [e1, e2, e3, e4, e6]

-- a raster object with a stored order: dump/load returns it, without `idxs_outlet`
example : ((ctorRaster .u32 #[1, 5, 6, 1, 4, 5] [2, 3] (some .ldd) none (some [4]) (some [4, 5, 1, 0, 3]) none
      #[1, 0, 0, 0, -1, 0] true false).toOption.bind fun o => (roundTrip o).map fun r => r.toOption.map fun o2 =>
        (decide (o2.view = o.view), o2.outlet, o2.cache, o2.nnodes)) =
    some (some (true, none, true, some 5)) := by decide +kernel

end Pf.C03x
