import PfVerif.Proofs.C11_fn
import PfVerif.Props.C11
/-! # C11_fn — translator tie for the `while` loop of `core._trace`

`Pf.Generated.Tr._trace` / `_trace_loop` are produced by `harness/extract_while.py` from the source text of
`core._trace` on every run (structural recursion on an explicit fuel over the loop-carried variables
`idx0, idxs, dist, d`; `gis_utils.distance` is an explicit function parameter, `1.0` the scale parameter `one`).
The obligations below are re-checked against what the code says now: for ALL inputs and ALL fuel the generated
recursion equals the hand-written model `Pf.traceFrom` (on which every theorem of `Props/C11.lean` is stated), and
the theorems of C11 are transported to the translated code. The model's missing value is `nxt.size` (the harness'
`canon_idx`), so the generated def is instantiated with `mv := nxt.size`. -/
namespace Pf.C11fn
open Pf Pf.C11 Pf.Generated

/-- **the generated loop = the model's loop**, from every loop state (all inputs, all fuel): the list built with
`++ [x]` is the reversed accumulator, and `d` is either re-computed in every iteration or still `one`. -/
theorem gen__trace_loop_eq_model {Opaque : Type} (nxt : Array Nat) (ncol : Option Nat) (mask : Option (Array Bool))
    (maxLen : Option Int) (real latlon : Bool) (transform : Opaque) (one : Int)
    (distance : Nat → Nat → Nat → Bool → Opaque → Int) (fuel idx0 : Nat) (acc : List Nat) (dist d : Int)
    (hd : (real && ncol.isSome) = false → d = one) :
    (Tr._trace_loop nxt ncol mask maxLen real latlon transform nxt.size one distance fuel idx0 acc.reverse dist d).map
        (fun st => (st.2.1, st.2.2.1))
      = trace nxt mask maxLen (genStep ncol real latlon transform one distance) fuel idx0 acc dist :=
  gen_loop_eq nxt ncol mask maxLen real latlon transform one distance fuel idx0 acc dist d hd

/-- **`gen__trace_eq_model`**: for all inputs and all fuel the generated `_trace` equals the model `traceFrom` with the
step-length function the code's flags select (`genStep`); in particular it runs out of fuel exactly when the model does. -/
theorem gen__trace_eq_model {Opaque : Type} (idx0 : Nat) (nxt : Array Nat) (ncol : Option Nat)
    (mask : Option (Array Bool)) (maxLen : Option Int) (real latlon : Bool) (transform : Opaque) (one : Int)
    (distance : Nat → Nat → Nat → Bool → Opaque → Int) (fuel : Nat) :
    Tr._trace idx0 nxt ncol mask maxLen real latlon transform nxt.size one distance fuel
      = traceFrom nxt mask maxLen (genStep ncol real latlon transform one distance) fuel idx0 := by
  have h := gen_loop_eq nxt ncol mask maxLen real latlon transform one distance fuel idx0 [idx0] 0 one (fun _ => rfl)
  simpa [Tr._trace, traceFrom] using h

/-- cell units (`real_length=False`, every `Flwdir.path(unit='cell')`): the step length is the constant `one` -/
theorem gen__trace_cells {Opaque : Type} (idx0 : Nat) (nxt : Array Nat) (ncol : Option Nat)
    (mask : Option (Array Bool)) (maxLen : Option Int) (latlon : Bool) (transform : Opaque) (one : Int)
    (distance : Nat → Nat → Nat → Bool → Opaque → Int) (fuel : Nat) :
    Tr._trace idx0 nxt ncol mask maxLen false latlon transform nxt.size one distance fuel
      = traceFrom nxt mask maxLen (stepConst one) fuel idx0 := by
  rw [gen__trace_eq_model]; simp [genStep]

/-- `ncol=None` (vector networks): cell units whatever `real_length` says -/
theorem gen__trace_no_ncol {Opaque : Type} (idx0 : Nat) (nxt : Array Nat) (mask : Option (Array Bool))
    (maxLen : Option Int) (real latlon : Bool) (transform : Opaque) (one : Int)
    (distance : Nat → Nat → Nat → Bool → Opaque → Int) (fuel : Nat) :
    Tr._trace idx0 nxt none mask maxLen real latlon transform nxt.size one distance fuel
      = traceFrom nxt mask maxLen (stepConst one) fuel idx0 := by
  rw [gen__trace_eq_model]; simp [genStep]

/-- metric lengths (`real_length=True` on a raster): every step is `gis_utils.distance(idx0, idx1, ncol, latlon,
transform)`; with the projected branch of `distance` (`Pf.distProj`, C11 `distProj_exact`) this is the model the
C11 harness drives with `stepmode = 1` -/
theorem gen__trace_metric {Opaque : Type} (idx0 : Nat) (nxt : Array Nat) (c : Nat) (mask : Option (Array Bool))
    (maxLen : Option Int) (latlon : Bool) (transform : Opaque) (one : Int)
    (distance : Nat → Nat → Nat → Bool → Opaque → Int) (fuel : Nat) :
    Tr._trace idx0 nxt (some c) mask maxLen true latlon transform nxt.size one distance fuel
      = traceFrom nxt mask maxLen (fun i j => distance i j c latlon transform) fuel idx0 := by
  rw [gen__trace_eq_model]; simp [genStep]

theorem gen__trace_projected (idx0 : Nat) (nxt : Array Nat) (c : Nat) (xres yres : Int) (mask : Option (Array Bool))
    (maxLen : Option Int) (one : Int) (fuel : Nat) :
    Tr._trace idx0 nxt (some c) mask maxLen true false (xres, yres) nxt.size one
        (fun i j c _ (t : Int × Int) => distProj c t.1 t.2 i j) fuel
      = traceFrom nxt mask maxLen (distProj c xres yres) fuel idx0 := by
  rw [gen__trace_metric]

/-! ## the theorems of C11 transported to the translated code -/

/-- **characterisation** (C11 `trace_char`): the translated code returns `(p, d)` iff for the least stopping index
`m` (then `< fuel`) `p = [iter 0 s, …, iter m s]` and `d` is the sum of the first `m` step lengths. -/
theorem gen__trace_char {Opaque : Type} (s : Nat) (nxt : Array Nat) (ncol : Option Nat)
    (mask : Option (Array Bool)) (maxLen : Option Int) (real latlon : Bool) (transform : Opaque) (one : Int)
    (distance : Nat → Nat → Nat → Bool → Opaque → Int) (fuel : Nat) (p : List Nat) (d : Int) :
    let step := genStep ncol real latlon transform one distance
    Tr._trace s nxt ncol mask maxLen real latlon transform nxt.size one distance fuel = some (p, d) ↔
      ∃ m, m < fuel ∧ stopAt nxt mask maxLen step s m = true ∧
        (∀ k, k < m → stopAt nxt mask maxLen step s k = false) ∧
        p = pathTo nxt s m ∧ d = cumLen nxt step s m := by
  intro step
  rw [gen__trace_eq_model]
  exact trace_char nxt mask maxLen step fuel s p d

/-- **out of fuel exactly when no stop exists below `fuel`** (C11 `trace_total_iff`): `none` is never a guess -/
theorem gen__trace_none_iff {Opaque : Type} (s : Nat) (nxt : Array Nat) (ncol : Option Nat)
    (mask : Option (Array Bool)) (maxLen : Option Int) (real latlon : Bool) (transform : Opaque) (one : Int)
    (distance : Nat → Nat → Nat → Bool → Opaque → Int) (fuel : Nat) :
    Tr._trace s nxt ncol mask maxLen real latlon transform nxt.size one distance fuel = none ↔
      ∀ k, k < fuel → stopAt nxt mask maxLen (genStep ncol real latlon transform one distance) s k = false := by
  rw [gen__trace_eq_model]
  have h := trace_total_iff nxt mask maxLen (genStep ncol real latlon transform one distance) fuel s
  constructor
  · intro hn k hk
    cases hs : stopAt nxt mask maxLen (genStep ncol real latlon transform one distance) s k with
    | false => rfl
    | true => have := h.2 ⟨k, hk, hs⟩; rw [hn] at this; cases this
  · intro hall
    cases ht : traceFrom nxt mask maxLen (genStep ncol real latlon transform one distance) fuel s with
    | none => rfl
    | some r =>
      obtain ⟨k, hk, hs⟩ := h.1 (by rw [ht]; rfl)
      rw [hall k hk] at hs; cases hs

/-- **loop-free networks** (C11 `trace_total_topo` + `trace_char`): from a cell of a downstream-first order `seq` of
the network, with `fuel ≥ seq.length`, the translated code does not run out of fuel and returns the prefix of the
iterates up to the LEAST stopping index, with the summed step lengths - whatever mask, `max_length`, flags. -/
theorem gen__trace_topo {Opaque : Type} (ds : Array Nat) (seq : List Nat) (htopo : Topo ds seq) (s : Nat)
    (hs : s ∈ seq) (ncol : Option Nat) (mask : Option (Array Bool)) (maxLen : Option Int) (real latlon : Bool)
    (transform : Opaque) (one : Int) (distance : Nat → Nat → Nat → Bool → Opaque → Int) (fuel : Nat)
    (hfuel : seq.length ≤ fuel) :
    let step := genStep ncol real latlon transform one distance
    ∃ m, m < fuel ∧ stopAt ds mask maxLen step s m = true ∧ (∀ k, k < m → stopAt ds mask maxLen step s k = false) ∧
      Tr._trace s ds ncol mask maxLen real latlon transform ds.size one distance fuel
        = some (pathTo ds s m, cumLen ds step s m) := by
  intro step
  have htot := trace_total_topo ds seq htopo mask maxLen step fuel s hs hfuel
  cases ht : traceFrom ds mask maxLen step fuel s with
  | none => rw [ht] at htot; cases htot
  | some r =>
    obtain ⟨p, d⟩ := r
    obtain ⟨m, hm, hstop, hleast, rfl, rfl⟩ := (trace_char ds mask maxLen step fuel s p d).1 ht
    exact ⟨m, hm, hstop, hleast, by rw [gen__trace_eq_model]; exact ht⟩

/-- the same with the fuel the task names: `fuel ≥ n` (cells of `seq` in range) -/
theorem gen__trace_topo_size {Opaque : Type} (ds : Array Nat) (seq : List Nat) (htopo : Topo ds seq)
    (hb : ∀ i ∈ seq, i < ds.size) (s : Nat)
    (hs : s ∈ seq) (ncol : Option Nat) (mask : Option (Array Bool)) (maxLen : Option Int) (real latlon : Bool)
    (transform : Opaque) (one : Int) (distance : Nat → Nat → Nat → Bool → Opaque → Int) (fuel : Nat)
    (hfuel : ds.size ≤ fuel) :
    let step := genStep ncol real latlon transform one distance
    ∃ m, m < fuel ∧ stopAt ds mask maxLen step s m = true ∧ (∀ k, k < m → stopAt ds mask maxLen step s k = false) ∧
      Tr._trace s ds ncol mask maxLen real latlon transform ds.size one distance fuel
        = some (pathTo ds s m, cumLen ds step s m) := by
  have hlen : seq.length ≤ ds.size := by
    have := List.Nodup.length_le_of_subset htopo.nodup (l₂ := List.range ds.size)
      (fun i hi => List.mem_range.2 (hb i hi))
    rwa [List.length_range] at this
  exact gen__trace_topo ds seq htopo s hs ncol mask maxLen real latlon transform one distance fuel (by omega)

/-- **stop conditions** (C11 `trace_stop`) for the translated code: the last returned cell is flagged / a pit / has no
next cell / the next step would exceed `max_length`, and no earlier cell satisfies any of these. -/
theorem gen__trace_stop {Opaque : Type} (s : Nat) (nxt : Array Nat) (ncol : Option Nat)
    (mask : Option (Array Bool)) (maxLen : Option Int) (real latlon : Bool) (transform : Opaque) (one : Int)
    (distance : Nat → Nat → Nat → Bool → Opaque → Int) (fuel : Nat) (p : List Nat) (d : Int)
    (h : Tr._trace s nxt ncol mask maxLen real latlon transform nxt.size one distance fuel = some (p, d)) :
    let step := genStep ncol real latlon transform one distance
    let m := p.length - 1
    let c := iterA nxt m s
    (maskHit mask c = true ∨ nxt[c]! = c ∨ nxt[c]! = nxt.size ∨
      (∃ ml, maxLen = some ml ∧ cumLen nxt step s m + step c nxt[c]! > ml)) ∧
    ∀ k, k < m →
      maskHit mask (iterA nxt k s) = false ∧ nxt[iterA nxt k s]! ≠ iterA nxt k s ∧
      nxt[iterA nxt k s]! ≠ nxt.size ∧ (∀ ml, maxLen = some ml → cumLen nxt step s (k+1) ≤ ml) := by
  rw [gen__trace_eq_model] at h
  exact trace_stop nxt mask maxLen _ fuel s p d h

/-- **never beyond `max_length`** (C11 `dist_le_max`) for the translated code -/
theorem gen__trace_dist_le_max {Opaque : Type} (s : Nat) (nxt : Array Nat) (ncol : Option Nat)
    (mask : Option (Array Bool)) (ml : Int) (real latlon : Bool) (transform : Opaque) (one : Int)
    (distance : Nat → Nat → Nat → Bool → Opaque → Int) (fuel : Nat) (p : List Nat) (d : Int) (hml : 0 ≤ ml)
    (h : Tr._trace s nxt ncol mask (some ml) real latlon transform nxt.size one distance fuel = some (p, d)) :
    d ≤ ml := by
  rw [gen__trace_eq_model] at h
  exact dist_le_max nxt mask ml _ fuel s p d hml h

/-! ## non-vacuity: the generated def evaluated on concrete inputs (kernel evaluation of the translated text) -/

-- chain 4 → 3 → 2 → 1 → 0 (pit), cell units scaled by 4, max_length 2.5 cells: two steps (cf. `Props/C11`)
example : Tr._trace 4 #[0,0,1,2,3] none none (some 10) false false () 5 4 (fun _ _ _ _ _ => 7) 6
    = some ([4,3,2], 8) := by decide
-- the external is used iff `real_length and ncol is not None`: lengths 7 per step, max_length 15 -> two steps, 14
example : Tr._trace 4 #[0,0,1,2,3] (some 3) none (some 15) true false () 5 4 (fun _ _ _ _ _ => 7) 6
    = some ([4,3,2], 14) := by decide
example : Tr._trace 4 #[0,0,1,2,3] none none (some 15) true false () 5 4 (fun _ _ _ _ _ => 7) 6
    = some ([4,3,2,1], 12) := by decide
-- mask: the first flagged cell ends the walk, a flagged start cell returns immediately; missing next cell (mv = 5)
example : Tr._trace 4 #[0,0,1,2,3] none (some #[false,true,false,false,false]) none false false () 5 4
    (fun _ _ _ _ _ => 7) 6 = some ([4,3,2,1], 12) := by decide
example : Tr._trace 4 #[0,0,1,2,3] none (some #[false,false,false,false,true]) none false false () 5 4
    (fun _ _ _ _ _ => 7) 6 = some ([4], 0) := by decide
example : Tr._trace 4 #[0,0,5,2,3] none none none false false () 5 4 (fun _ _ _ _ _ => 7) 6
    = some ([4,3,2], 8) := by decide
-- the fuel: the loop 0 → 1 → 2 → 0 never ends without `max_length` (`none`, not a wrong answer), and the bound of
-- `seq.length` iterations of `gen__trace_topo` is attained on the chain (5 cells: fuel 5 suffices, 4 does not)
example : Tr._trace 0 #[1,2,0] none none none false false () 3 4 (fun _ _ _ _ _ => 7) 50 = none := by decide
example : Tr._trace 4 #[0,0,1,2,3] none none none false false () 5 4 (fun _ _ _ _ _ => 7) 5
    = some ([4,3,2,1,0], 16) ∧
    Tr._trace 4 #[0,0,1,2,3] none none none false false () 5 4 (fun _ _ _ _ _ => 7) 4 = none := by decide
-- projected metric lengths on 12 x 16 cells (3-4-5): C11's example, through the translated code
example : Tr._trace 8 #[0,0,1,2,0,4,7,4,7] (some 3) none (some 48) true false ((12 : Int), (-16 : Int)) 9 1
    (fun i j c _ t => distProj c t.1 t.2 i j) 9 =
    some ([8,7,4,0], 48) := by decide +kernel

end Pf.C11fn
