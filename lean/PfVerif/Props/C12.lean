import PfVerif.Model.C12
import PfVerif.Proofs.C12_alias
import PfVerif.Generated.CacheProtocol
/-! # C12 — results never depend on the history of earlier calls on the same object

`history_independent` is proved for *every* protocol table satisfying the decidable condition
`Coherent`, every abstract semantics (`Sem`: arbitrary recomputation functions and mutations that
respect the dependency frame), every finite history of calls with arbitrary arguments and every
resolution of the table's may-nondeterminism (which possible writes happen, cache on or off).
`coherent_table` discharges `Coherent` for the table REGENERATED FROM /repo's SOURCE on this run.

**Stored values are mutable objects.** The machine (`Model/C12.lean`) separates the dictionary
protocol (`stepCore`) from in-place writes into the stored objects (`clobbered`): a method whose
table entry lists an in-place write through a name that may alias the value stored under `k`
(found by the alias analysis of `harness/extract_cache.py`: subscript / augmented assignment,
`out=`, `np.copyto`, `.fill`, `.sort`, a kernel that assigns into its parameter, ...) may replace
that value by an *arbitrary* one. Clause (6) `noInPlace` of `Entry.coherent` excludes this;
`history_independent` is proved for the extended machine, `inplace_breaks_history_independence`
shows that the clause is necessary (for every semantics, every entry with an in-place write on a
key it stores, every wrong value), and `history_dependent_with_inplace` is a closed instance:
one table, two histories ending in the same abstract state, different answers. -/
namespace Pf.C12
variable {S V A : Type}

theorem any_key_mem {ws : List Write} {k : Key} (h : ws.any (·.key == k) = true) :
    ∃ w ∈ ws, w.key = k := by
  simp only [List.any_eq_true, beq_iff_eq] at h
  exact h

/-- a key that a coherent entry neither drops nor re-synchronises does not depend on what it mutates -/
theorem stable (sem : Sem S V A) (e : Entry) (a : A) (s : S) (k : Key)
    (hc : e.coherent = true) (hk : allKeys.contains k = true)
    (h1 : e.syncs k = false) (h2 : e.drops k = false) :
    sem.recompute k (sem.mutate e a s) = sem.recompute k s := by
  apply sem.frame
  simp only [Entry.coherent, Bool.and_eq_true, List.all_eq_true] at hc
  obtain ⟨⟨⟨⟨⟨⟨_, _⟩, _⟩, h4⟩, _⟩, _⟩, _⟩ := hc
  have hk' : k ∈ allKeys := by simpa using hk
  have := h4 k hk'
  simp only [h1, h2, Bool.or_false, Bool.not_eq_eq_eq_not, Bool.not_true] at this
  exact this

/-- the protocol part of one call of a coherent method preserves the invariant -/
theorem stepCore_inv (sem : Sem S V A) (e : Entry) (a : A) (ch : Choice V) (o : Obj S V)
    (hc : e.coherent = true) (hinv : Inv sem o) : Inv sem (stepCore sem e a ch o) := by
  intro k v h
  have hc' := hc
  simp only [Entry.coherent, Bool.and_eq_true, List.all_eq_true] at hc'
  obtain ⟨⟨⟨⟨⟨⟨c1, _⟩, c3⟩, _⟩, c5⟩, c6⟩, _⟩ := hc'
  simp only [stepCore] at h
  by_cases hs : e.syncs k = true
  · -- re-synchronised by a mutator
    simp only [hs, if_true, Option.some.injEq] at h
    refine ⟨?_, h.symm⟩
    simp only [Entry.syncs, Bool.and_eq_true] at hs
    obtain ⟨w, hw, hwk⟩ := any_key_mem hs.2
    have := c6 w hw
    rwa [hwk] at this
  · have hs' : e.syncs k = false := by simpa using hs
    simp only [hs', Bool.false_eq_true, if_false] at h
    by_cases hd : e.drops k = true
    · simp [hd] at h
    · have hd' : e.drops k = false := by simpa using hd
      simp only [hd', Bool.false_eq_true, if_false] at h
      by_cases hw : (e.writes.any (·.key == k) && ch.doWrite k) = true
      · -- a cache write
        simp only [hw, if_true, Option.some.injEq] at h
        simp only [Bool.and_eq_true] at hw
        obtain ⟨w, hwm, hwk⟩ := any_key_mem hw.1
        have hk : allKeys.contains k = true := by have := c5 w hwm; rwa [hwk] at this
        have hall : ((e.writes.filter (·.key == k)).all (·.taint.isEmpty)) = true := by
          simp only [List.all_eq_true, List.mem_filter]
          exact fun x hx => c1 x hx.1
        simp only [writeVal, hall, if_true] at h
        refine ⟨hk, ?_⟩
        rw [← h]
        split
        · rfl
        · exact (stable sem e a o.s k hc hk hs' hd').symm
      · have hw' : (e.writes.any (·.key == k) && ch.doWrite k) = false := by simpa using hw
        simp only [hw', Bool.false_eq_true, if_false] at h
        by_cases hm : (e.memoSet.any (·.key == k) && ch.doWrite k) = true
        · -- a memo attribute assignment
          simp only [hm, if_true, Option.some.injEq] at h
          simp only [Bool.and_eq_true] at hm
          obtain ⟨w, hwm, hwk⟩ := any_key_mem hm.1
          have hk : allKeys.contains k = true := by have := c6 w hwm; rwa [hwk] at this
          have hall : ((e.memoSet.filter (·.key == k)).all (·.taint.isEmpty)) = true := by
            simp only [List.all_eq_true, List.mem_filter, beq_iff_eq]
            intro x hx
            have := c3 x hx.1
            simp only [Bool.or_eq_true] at this
            rcases this with h0 | h0
            · exact h0
            · rw [hx.2, hs'] at h0; exact absurd h0 (by simp)
          simp only [writeVal, hall, if_true] at h
          refine ⟨hk, ?_⟩
          rw [← h]
          split
          · rfl
          · exact (stable sem e a o.s k hc hk hs' hd').symm
        · -- untouched
          have hm' : (e.memoSet.any (·.key == k) && ch.doWrite k) = false := by simpa using hm
          simp only [hm', Bool.false_eq_true, if_false] at h
          obtain ⟨hk, hv⟩ := hinv k v h
          exact ⟨hk, by rw [hv]; exact (stable sem e a o.s k hc hk hs' hd').symm⟩

/-- one call of a coherent method preserves the invariant (clause (6): a coherent method has no
in-place write, so the call is its protocol part) -/
theorem step_inv (sem : Sem S V A) (e : Entry) (a : A) (ch : Choice V) (o : Obj S V)
    (hc : e.coherent = true) (hinv : Inv sem o) : Inv sem (step sem e a ch o) := by
  rw [step_eq_stepCore sem (coherent_noInPlace hc)]
  exact stepCore_inv sem e a ch o hc hinv

theorem fresh_inv (sem : Sem S V A) (s : S) : Inv sem (fresh s : Obj S V) := by
  intro k v h; simp [fresh] at h

/-- the invariant holds after every history of calls to coherent methods -/
theorem run_inv (sem : Sem S V A) (t : List Entry) (hcoh : Coherent t = true) :
    ∀ (calls : List (Call V A)) (o : Obj S V), (∀ c ∈ calls, c.1 ∈ t) → Inv sem o →
      Inv sem (run sem o calls) := by
  intro calls
  induction calls with
  | nil => intro o _ h; exact h
  | cons c rest ih =>
    intro o hmem hinv
    obtain ⟨e, a, ch⟩ := c
    simp only [run]
    refine ih _ (fun c hc => hmem c (by simp [hc])) ?_
    have he : e ∈ t := hmem (e, a, ch) (by simp)
    have hce : e.coherent = true := by
      simp only [Coherent, List.all_eq_true] at hcoh
      exact hcoh e he
    exact step_inv sem e a ch o hce hinv

/-- a query on an object satisfying the invariant returns what a fresh object holding the same
abstract state returns -/
theorem query_eq_fresh (sem : Sem S V A) (o : Obj S V) (hinv : Inv sem o) (k : Key) :
    query sem o k = query sem (fresh o.s : Obj S V) k := by
  simp only [query, fresh]
  cases h : o.cache k with
  | none => rfl
  | some v => exact (hinv k v h).2

/-- **History independence.** After any finite sequence of calls (queries and mutators, any
arguments, caching on or off, any subset of the possible cache writes), every query returns the
value the same query returns on a freshly constructed object holding the same abstract state. -/
theorem history_independent (sem : Sem S V A) (t : List Entry) (hcoh : Coherent t = true)
    (s0 : S) (calls : List (Call V A)) (hmem : ∀ c ∈ calls, c.1 ∈ t) (k : Key) :
    query sem (run sem (fresh s0) calls) k =
      query sem (fresh (run sem (fresh s0) calls).s : Obj S V) k :=
  query_eq_fresh sem _ (run_inv sem t hcoh calls _ hmem (fresh_inv sem s0)) k

/-- the abstract state after a history is the fold of the mutations: caching never influences it
(so "after a mutating call every returned quantity reflects the new state") -/
theorem run_state (sem : Sem S V A) :
    ∀ (calls : List (Call V A)) (o : Obj S V),
      (run sem o calls).s = calls.foldl (fun s c => sem.mutate c.1 c.2.1 s) o.s := by
  intro calls
  induction calls with
  | nil => intro o; rfl
  | cons c rest ih => intro o; obtain ⟨e, a, ch⟩ := c; simp only [run, List.foldl_cons]; rw [ih]; rfl

/-! ## in-place writes: clause (6) is necessary -/

/-- every possible write happens, and the in-place write leaves `v` -/
def wrongChoice (v : V) : Choice V :=
  { doWrite := fun _ => true, late := fun _ => true, junk := fun _ => v, clobber := fun _ => some v }

/-- **Without clause (6) history independence fails**, for *every* semantics: let `e` be an entry
that may write in place into the value stored under `k` and that also stores `k` (and does not drop
or re-synchronise it) - every other clause of coherence may hold. Then for every argument, every
state and every value `v` other than the correct one there is a resolution of the entry's
nondeterminism after which the query of `k` returns `v`, while a fresh object holding the same
abstract state returns the correct value. -/
theorem inplace_breaks_history_independence (sem : Sem S V A) (e : Entry) (a : A) (s : S) (k : Key)
    (v : V) (hip : e.writesInPlace k = true) (hw : e.writes.any (·.key == k) = true)
    (hs : e.syncs k = false) (hd : e.drops k = false)
    (hv : v ≠ sem.recompute k (sem.mutate e a s)) :
    ∃ ch : Choice V,
      query sem (run sem (fresh s) [(e, a, ch)]) k = v ∧
      query sem (fresh (run sem (fresh s) [(e, a, ch)]).s : Obj S V) k ≠ v := by
  refine ⟨wrongChoice v, ?_, ?_⟩
  · have hc : (stepCore sem e a (wrongChoice v) (fresh s)).cache k
        = some (writeVal sem e a (wrongChoice v) s e.writes k) := by
      simp only [stepCore, hs, hd, hw, wrongChoice, fresh, Bool.false_eq_true, if_false, Bool.and_self, if_true]
    have h2 := step_cache_clobbered sem e a (wrongChoice v) (fresh s) k _ v hip hc rfl
    simp only [run, query, h2]
  · show sem.recompute k (sem.mutate e a s) ≠ v
    exact fun h => hv h.symm

/-- the same for a value that an EARLIER call stored: a method that only reads `k` from the cache
and writes into the object it got (`strord = self._check_data(None, "strord"); strord[~mask] = 0`) -/
theorem inplace_breaks_later_reads (sem : Sem S V A) (e : Entry) (a : A) (ch : Choice V) (o : Obj S V)
    (k : Key) (w v : V) (hip : e.writesInPlace k = true)
    (hc : (stepCore sem e a ch o).cache k = some w) (hcl : ch.clobber k = some v)
    (hv : v ≠ sem.recompute k (sem.mutate e a o.s)) :
    query sem (step sem e a ch o) k ≠ query sem (fresh (step sem e a ch o).s : Obj S V) k := by
  have h2 := step_cache_clobbered sem e a ch o k w v hip hc hcl
  have hq : query sem (step sem e a ch o) k = v := by simp only [query, h2]
  rw [hq]
  show v ≠ sem.recompute k (sem.mutate e a o.s)
  exact hv

/-! ### a closed instance: one table, two histories, same abstract state, different answers -/

/-- a one-point semantics: every quantity of the (single) abstract state is `0` -/
def demoSem : Sem Unit Nat Unit :=
  { recompute := fun _ _ => 0, mutate := fun _ _ s => s, frame := fun _ _ _ _ _ => rfl }

/-- `stream_order()` as extracted from /repo: reads / stores `strord`, no in-place write -/
def demoStreamOrder : Entry :=
  { cls := "FlwdirRaster", name := "stream_order", reads := [{ key := "strord", unguarded := [] }],
    writes := [{ key := "strord", taint := [], flagGuarded := true }], pops := [], memoSet := [],
    memoReset := [], mutates := [] }

/-- `subbasins_streamorder` of the seeded change C08-11: as before plus `strord[mask == False] = 0`
on the array `_check_data(None, "strord")` returned (the cached one) -/
def demoSubbasins : Entry :=
  { demoStreamOrder with name := "subbasins_streamorder",
                         inplace := [{ target := "strord", via := "strord[mask == False] = 0" }] }

def demoTable : List Entry := [demoStreamOrder, demoSubbasins]

/-- a call that stores what it computes / a later call that finds the key and only reads it -/
def chStore : Choice Nat := { doWrite := fun _ => true, late := fun _ => false, junk := fun _ => 0 }
def chRead : Choice Nat := { doWrite := fun _ => false, late := fun _ => false, junk := fun _ => 0 }
/-- the in-place write happens and leaves `7` in the stored array -/
def chClobber : Choice Nat := { chStore with clobber := fun _ => some 7 }

def demoHistory1 : List (Call Nat Unit) := [(demoStreamOrder, (), chStore)]
def demoHistory2 : List (Call Nat Unit) := [(demoSubbasins, (), chClobber), (demoStreamOrder, (), chRead)]

/-- **History independence fails for a table with one in-place entry**: both histories use only
methods of the table and end in the same abstract state, the table satisfies every clause of
coherence except (6) - and for exactly one entry - yet the same query answers `0` after the first
history and `7` after the second. -/
theorem history_dependent_with_inplace :
    (demoTable.filter fun e => !e.noInPlace).length = 1 ∧
    Coherent (demoTable.map fun e => { e with inplace := [] }) = true ∧
    Coherent demoTable = false ∧
    (∀ c ∈ demoHistory1, c.1 ∈ demoTable) ∧ (∀ c ∈ demoHistory2, c.1 ∈ demoTable) ∧
    (run demoSem (fresh ()) demoHistory1).s = (run demoSem (fresh ()) demoHistory2).s ∧
    query demoSem (run demoSem (fresh ()) demoHistory1) "strord" = 0 ∧
    query demoSem (run demoSem (fresh ()) demoHistory2) "strord" = 7 := by
  refine ⟨by decide, by decide, by decide, ?_, ?_, rfl, by decide, by decide⟩
  · intro c hc
    simp only [demoHistory1, List.mem_singleton] at hc
    subst hc; simp [demoTable]
  · intro c hc
    simp only [demoHistory2, List.mem_cons, List.not_mem_nil, or_false] at hc
    rcases hc with hc | hc <;> subst hc <;> simp [demoTable]

/-- kernel-checked: the two histories give different answers to the same query ... -/
example : query demoSem (run demoSem (fresh ()) demoHistory1) "strord" ≠
    query demoSem (run demoSem (fresh ()) demoHistory2) "strord" := by decide
/-- ... the second one differs from a fresh object holding the same state (the conclusion of
`history_independent` is false for it) ... -/
example : query demoSem (run demoSem (fresh ()) demoHistory2) "strord" ≠
    query demoSem (fresh (run demoSem (fresh ()) demoHistory2).s : Obj Unit Nat) "strord" := by decide
/-- ... and without the in-place write (the unchanged method) the same history is fine -/
example : query demoSem (run demoSem (fresh ())
      [({ demoSubbasins with inplace := [] }, (), chClobber), (demoStreamOrder, (), chRead)]) "strord" = 0 := by
  decide

/-- dropping cached entries (a save/load round trip keeps only `_seq`, `_pit`, `_nnodes`; switching
the cache off keeps nothing) preserves the invariant, so the history can continue from there -/
theorem restrict_inv (sem : Sem S V A) (o : Obj S V) (keep : Key → Bool) (hinv : Inv sem o) :
    Inv sem ({ o with cache := fun k => if keep k then o.cache k else none } : Obj S V) := by
  intro k v h
  simp only at h
  split at h
  · exact hinv k v h
  · cases h

/-! ## the table regenerated from /repo -/

def conv (e : Generated.MethodEntry) : Entry :=
  { cls := e.cls, name := e.name,
    reads := e.reads.map fun r => { key := r.key, unguarded := r.unguarded },
    writes := e.writes.map fun w => { key := w.key, taint := w.taint, flagGuarded := w.flagGuarded },
    pops := e.pops,
    memoSet := e.memoSet.map fun w => { key := w.attr, taint := w.taint, flagGuarded := true },
    memoReset := e.memoReset, mutates := e.mutates,
    inplace := e.inplace.map fun w => { target := w.target, via := w.via } }

/-- every method of both classes except the constructors (which define the initial state; memo
values handed to a constructor are assumed consistent with the network - see the level note) -/
def genTable : List Entry :=
  (Generated.cacheTable.filter fun e => e.name != "__init__").map conv

/-- **Obligation re-checked against the current source on every run.** -/
theorem coherent_table : Coherent genTable = true := by decide +kernel

/-- **Obligation re-checked against the current source on every run** (part of `coherent_table`,
stated on its own so that a failure names the cause): no method of either class writes in place
through a name that may alias a value stored in `_cached` / a memo attribute. -/
theorem no_inplace_table : (genTable.all Entry.noInPlace) = true := by decide +kernel

theorem flag_guarded_table : FlagGuarded genTable = true := by decide +kernel

/-- the four cache defects of the pinned snapshot (fixed in /repo) are exactly what `coherent` rejects -/
example : Entry.coherent { cls := "Flwdir", name := "stream_order", reads := [{ key := "strord", unguarded := ["mask"] }], writes := [{ key := "strord", taint := ["mask"], flagGuarded := true }], pops := [], memoSet := [], memoReset := [], mutates := [] } = false := by decide
example : Entry.coherent { cls := "Flwdir", name := "main_upstream", reads := [], writes := [{ key := "idxs_us_main", taint := ["uparea"], flagGuarded := true }], pops := [], memoSet := [], memoReset := [], mutates := [] } = false := by decide
example : Entry.coherent { cls := "Flwdir", name := "add_pits", reads := [], writes := [], pops := [], memoSet := [{ key := "_pit", taint := ["idxs"], flagGuarded := true }], memoReset := ["_nnodes", "_seq"], mutates := ["ds"] } = false := by decide
example : Entry.coherent { cls := "FlwdirRaster", name := "set_transform", reads := [], writes := [], pops := [], memoSet := [], memoReset := [], mutates := ["latlon", "transform"] } = false := by decide
/-- the in-place writes of the seeded changes C08-11 / C19-11 (`strord[...] = 0` on the array `_check_data(None, "strord")`
returned) and C10-11 (a kernel assigning into the cached main-upstream array) are what clause (6) rejects -/
example : Entry.coherent { cls := "FlwdirRaster", name := "subbasins_streamorder", reads := [{ key := "strord", unguarded := [] }], writes := [{ key := "strord", taint := [], flagGuarded := true }], pops := [], memoSet := [], memoReset := [], mutates := [], inplace := [{ target := "strord", via := "subscript assignment `strord[mask == False] = ...`" }] } = false := by decide
example : Entry.coherent { cls := "FlwdirRaster", name := "_subgrid_idxs_nxt", reads := [{ key := "idxs_us_main", unguarded := [] }], writes := [{ key := "idxs_us_main", taint := [], flagGuarded := true }], pops := [], memoSet := [], memoReset := [], mutates := [], inplace := [{ target := "idxs_us_main", via := "passed as `idxs_nxt` to subgrid.mask_idxs_nxt, which writes into it" }] } = false := by decide
example : Entry.coherent { cls := "FlwdirRaster", name := "subbasins_streamorder", reads := [{ key := "strord", unguarded := [] }], writes := [{ key := "strord", taint := [], flagGuarded := true }], pops := [], memoSet := [], memoReset := [], mutates := [], inplace := [] } = true := by decide
/-- and the repaired `add_pits` / `set_transform` entries are accepted -/
example : Entry.coherent { cls := "Flwdir", name := "add_pits", reads := [], writes := [], pops := ["distnc", "idxs_us_main", "rank", "strord"], memoSet := [{ key := "_pit", taint := ["idxs"], flagGuarded := true }], memoReset := ["_nnodes", "_seq"], mutates := ["ds"] } = true := by decide
/-- non-vacuity of the theorem's hypotheses: the generated table is non-empty and has mutators -/
example : (genTable.filter (·.isMutator)).length ≥ 3 := by decide +kernel

end Pf.C12
