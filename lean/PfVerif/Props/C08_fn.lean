import PfVerif.Proofs.C08_fn
import PfVerif.Model.C18
import PfVerif.Props.C08
import PfVerif.Props.C04_fn
/-! Translator tie for more kernels (extension `C08_fn`, hooked under C08; serves C03 / C14 / C18 too).
`harness/extract_fn.py` (fragment 2b: tuple assignment, an initialisation that calls another translated kernel,
list-append scans) translates `streams.strahler_order`, `streams.stream_order`, `core.pit_indices` and
`basins._tributaries` from the Python AST of /repo into `Generated/Sweeps2.lean` on every run. The obligations below
state that the generated defs ARE the hand-written models the theorems of C08 / C18 / C03 are about, for all arrays,
sequences and masks, and transport C08's main theorems (Strahler recursion, classic recurrence) to the generated defs.

**Value arrays are unbounded `Int`** in the generated defs (`toI` embeds the models' `Array Nat` orders): the `uint8`
storage of `strord` / `strmax` (wrap-around of `strord[idx_ds] + 1` at 256 in the classic order) is NOT covered here -
it is the subject of `C16_val` and of the open finding F08; see also `Pf.C08.strahler_no_u8_overflow`,
`Pf.C08.classic_u8_exact`. Each obligation is split into a per-iteration `…_step_eq` and the fold. -/
set_option linter.unusedSimpArgs false
namespace Pf.C08fn
open Pf Pf.SwBridge Pf.Sw2Bridge

/-- rewrite the reads / writes / comparisons of the generated `Int` code on `toI`-embedded arrays into the `Nat` level -/
macro "sw2_norm" : tactic =>
  `(tactic| simp only [toI_get, ← toI_set, toI_set_one, toI_set_add_one, toI_set_one_add, Int.ofNat_lt, Int.ofNat_le, Int.natCast_inj,
      Int.natCast_eq_zero, mask_invalid, mask_valid])
/-- split every `if` of both sides and close the leaves -/
macro "sw2_split" : tactic =>
  `(tactic| ((repeat' split) <;> first | rfl | grind [setIfInBounds_self] | grind [setIfInBounds_self, toI_set]))

/-! ### `streams.strahler_order` -/
/-- one generated loop iteration on embedded `Nat` work arrays is the model's `strahlerStep` -/
theorem gen_strahler_order_step_eq (ds : Array Nat) (seq : List Nat) (mask : Option (Array Bool))
    (st : Array Nat × Array Nat) (idx0 : Nat) :
    Generated.Sw.strahler_order_step ds seq mask (toI st.1, toI st.2) idx0 =
      (toI (strahlerStep ds mask idx0 st).1, toI (strahlerStep ds mask idx0 st).2) := by
  obtain ⟨so, sm⟩ := st
  simp only [Generated.Sw.strahler_order_step, strahlerStep]
  sw2_norm
  all_goals sw2_split

/-- the generated `strahler_order` (orders as unbounded `Int`; uint8 storage: C16_val / F08) is the model of
`Props/C08.lean` -/
theorem gen_strahler_order_eq_model (ds : Array Nat) (seq : List Nat) (mask : Option (Array Bool)) :
    Generated.Sw.strahler_order ds seq mask = toI (strahlerOrder ds seq mask) := by
  simp only [Generated.Sw.strahler_order, strahlerOrder, strahlerState, toI_replicate]
  have := foldl_reverse_sim (fun (s : Array Int × Array Int) (t : Array Nat × Array Nat) => s = (toI t.1, toI t.2))
    (Generated.Sw.strahler_order_step ds seq mask) (strahlerStep ds mask)
    (fun s t a h => by rw [h]; exact gen_strahler_order_step_eq ds seq mask t a) seq
    (toI (Array.replicate ds.size 0), toI (Array.replicate ds.size 0))
    (Array.replicate ds.size 0, Array.replicate ds.size 0) rfl
  rw [this]

/-! ### `streams.stream_order` (classic) -/
theorem gen_stream_order_step_eq (ds : Array Nat) (seq : List Nat) (usMain : Array Nat) (mask : Option (Array Bool))
    (mv : Nat) (nup : Array Int) (so : Array Nat) (idx0 : Nat) :
    Generated.Sw.stream_order_step ds seq usMain mask mv nup (toI so) idx0 =
      toI (stepDown ds (gClassic ds nup usMain mask) so idx0) := by
  simp only [Generated.Sw.stream_order_step, stepDown, gClassic]
  sw2_norm
  all_goals sw2_split

/-- the generated `stream_order` - INCLUDING its initialisation `nup = core.upstream_count(…)`, which is the generated
`upstream_count` of `Sweeps.lean` - is the model of `Props/C08.lean` (`mv` = `ds.size`; orders unbounded, the uint8
wrap of `strord[idx_ds] + 1` is C16_val / F08) -/
theorem gen_stream_order_eq_model (ds : Array Nat) (seq : List Nat) (usMain : Array Nat) (mask : Option (Array Bool)) :
    Generated.Sw.stream_order ds seq usMain mask ds.size = toI (classicOrder ds seq usMain mask) := by
  simp only [Generated.Sw.stream_order, classicOrder, classicOrderWith, sweepDown, toI_replicate,
    Pf.C04fn.gen_upstream_count_eq_model]
  exact foldl_sim (fun (s : Array Int) (t : Array Nat) => s = toI t) _ _
    (fun s t a h => by rw [h]; exact gen_stream_order_step_eq ds seq usMain mask ds.size _ t a) seq _ _ rfl

/-- … and it is the second hand-written model of the same kernel, the one `subbasins_pfafstetter` (C18) is built on -/
theorem gen_stream_order_eq_c18_model (ds : Array Nat) (seq : List Nat) (usMain : Array Nat)
    (mask : Option (Array Bool)) :
    Generated.Sw.stream_order ds seq usMain mask ds.size = streamOrderClassic ds seq usMain mask := by
  simp only [Generated.Sw.stream_order, streamOrderClassic, Pf.C04fn.gen_upstream_count_eq_model]
  apply foldl_congr_step
  intro so idx0
  simp only [Generated.Sw.stream_order_step, mask_invalid]
  all_goals sw2_split

/-! ### list-append scans: `core.pit_indices` (C03), `basins._tributaries` (C18) -/
theorem gen_pit_indices_step_eq (ds : Array Nat) (acc : List Nat) (idx0 : Nat) :
    Generated.Sw.pit_indices_step ds acc idx0 = if (ds[idx0]! == idx0) then acc ++ [idx0] else acc := by
  simp only [Generated.Sw.pit_indices_step]
  all_goals sw2_split

theorem gen_pit_indices_eq_model (ds : Array Nat) : Generated.Sw.pit_indices ds = pitIndices ds := by
  simp only [Generated.Sw.pit_indices, pitIndices]
  rw [foldl_congr_step _ _ (gen_pit_indices_step_eq ds), foldl_snoc_filter]; simp

theorem gen_tributaries_step_eq (ds : Array Nat) (seq : List Nat) (strord : Array Int) (acc : List Nat) (idx0 : Nat) :
    Generated.Sw.tributaries_step ds seq strord acc idx0 =
      if (decide (strord[idx0]! > 0) && decide (strord[idx0]! > strord[ds[idx0]!]!)) then acc ++ [idx0] else acc := by
  simp only [Generated.Sw.tributaries_step]
  all_goals sw2_split

theorem gen_tributaries_eq_model (ds : Array Nat) (seq : List Nat) (strord : Array Int) :
    Generated.Sw.tributaries ds seq strord = tributaries ds seq strord := by
  simp only [Generated.Sw.tributaries, tributaries]
  rw [foldl_congr_step _ _ (gen_tributaries_step_eq ds seq strord), foldl_snoc_filter]; simp

/-! ### C08's main theorems, transported to the translated code -/

/-- **Strahler recursion for the code as translated** (`Pf.C08.strahler_rec`): on a downstream-first order every entry
of the GENERATED `strahler_order` is the Strahler rule applied to the generated orders of the masked cells draining
into the cell (1 at a headwater of the network, 0 outside). Orders are unbounded here (uint8: C16_val / F08). -/
theorem gen_strahler_rec (ds : Array Nat) (seq : List Nat) (mask : Option (Array Bool))
    (htopo : Topo ds seq) (hb : ∀ i ∈ seq, i < ds.size) (j : Nat) :
    (Generated.Sw.strahler_order ds seq mask)[j]! =
      ((strahlerRule (decide (j ∈ seq) && maskAt mask j)
        ((kidsM ds seq mask j).map fun k => ((Generated.Sw.strahler_order ds seq mask)[k]!).toNat) : Nat) : Int) := by
  rw [gen_strahler_order_eq_model]
  simp only [toI_get, Int.toNat_natCast]
  exact congrArg _ (Pf.C08.strahler_rec ds seq mask htopo hb j)

/-- the generated Strahler orders are the order-free declarative recursion over the upstream tree (the `spec` output
of the driver) when `seq` lists exactly the valid cells -/
theorem gen_strahler_eq_spec (ds : Array Nat) (mask : Option (Array Bool)) (seq : List Nat)
    (htopo : Topo ds seq) (hb : ∀ i ∈ seq, i < ds.size) (hc : Complete ds seq) (j : Nat) :
    (Generated.Sw.strahler_order ds seq mask)[j]! = (strahlerSpec ds mask j : Int) := by
  rw [gen_strahler_order_eq_model, toI_get, Pf.C08.strahler_eq_spec ds mask seq htopo hb hc j]

/-- **classic recurrence for the code as translated** (`Pf.C08.classic_rec`), with the GENERATED `upstream_count` as
`nup`: 1 at every masked pit; otherwise the order of the downstream cell plus one iff that cell is a confluence and
this cell is not its main upstream cell; 0 outside the mask or the order. (uint8 wrap: C16_val / F08.) -/
theorem gen_classic_rec (ds : Array Nat) (seq : List Nat) (usMain : Array Nat) (mask : Option (Array Bool))
    (htopo : Topo ds seq) (hb : ∀ i ∈ seq, i < ds.size) :
    let ord := Generated.Sw.stream_order ds seq usMain mask ds.size
    let nup := Generated.Sw.upstream_count ds ds.size mask
    (∀ i ∈ seq, maskAt mask i = true → ds[i]! = i → ord[i]! = 1) ∧
    (∀ i ∈ seq, maskAt mask i = true → ds[i]! ≠ i →
      ord[i]! = ord[ds[i]!]! + (if nup[ds[i]!]! > 1 ∧ usMain[ds[i]!]! ≠ i then 1 else 0)) ∧
    (∀ i, i ∉ seq ∨ maskAt mask i = false → ord[i]! = 0) := by
  intro ord nup
  have hord : ord = toI (classicOrder ds seq usMain mask) := gen_stream_order_eq_model ds seq usMain mask
  have hnup : nup = upstreamCount ds mask := Pf.C04fn.gen_upstream_count_eq_model ds mask
  obtain ⟨h1, h2, h3⟩ := Pf.C08.classic_rec ds seq usMain mask htopo hb
  rw [hord, hnup]
  refine ⟨fun i hi hm hp => ?_, fun i hi hm hp => ?_, fun i hi => ?_⟩
  · rw [toI_get, h1 i hi hm hp]; rfl
  · rw [toI_get, toI_get, h2 i hi hm hp]; split <;> simp
  · rw [toI_get, h3 i hi]; rfl

/-- the tributaries found by the generated `_tributaries` on the generated classic order: the generated pipeline is the
models' pipeline (first two lines of `subbasins_pfafstetter`, without the `depth` cut) -/
theorem gen_tributaries_of_gen_order (ds : Array Nat) (seq : List Nat) (usMain : Array Nat) (mask : Option (Array Bool)) :
    Generated.Sw.tributaries ds seq (Generated.Sw.stream_order ds seq usMain mask ds.size) =
      tributaries ds seq (streamOrderClassic ds seq usMain mask) := by
  rw [gen_tributaries_eq_model, gen_stream_order_eq_c18_model]

/-- membership in the generated pit list -/
theorem gen_pit_indices_mem (ds : Array Nat) (i : Nat) :
    i ∈ Generated.Sw.pit_indices ds ↔ i < ds.size ∧ ds[i]! = i := by
  rw [gen_pit_indices_eq_model]; simp [pitIndices]

/-! ### non-vacuity: the generated defs compute on concrete networks
`#[0,0,0,0,1,1]`: pit 0 with inflows 1, 2, 3; cell 1 with inflows 4, 5 (the example network of `Props/C08`). -/
example : Generated.Sw.strahler_order #[0, 0, 0, 0, 1, 1] [0, 1, 2, 3, 4, 5] none = #[2, 2, 1, 1, 1, 1] := by decide
example : Generated.Sw.strahler_order #[0, 0, 0, 0, 1, 1] [0, 3, 1, 5, 2, 4] none = #[2, 2, 1, 1, 1, 1] := by decide
/-- two order-2 streams meeting: order 3 at cell 0 (`6 → … `: cells 1, 2 of order 2 each fed by two headwaters) -/
example : Generated.Sw.strahler_order #[0, 0, 0, 1, 1, 2, 2] [0, 1, 2, 3, 4, 5, 6] none = #[3, 2, 2, 1, 1, 1, 1] := by
  decide
/-- with a mask (cell 5 outside): cell 1 has one masked inflow only and keeps order 1 -/
example : Generated.Sw.strahler_order #[0, 0, 0, 0, 1, 1] [0, 1, 2, 3, 4, 5]
    (some #[true, true, true, true, true, false]) = #[2, 1, 1, 1, 1, 0] := by decide
/-- classic order: main stem 0 ← 1 ← 4 (order 1), tributaries 2, 3 of the pit and 5 of cell 1 (order 2) -/
example : Generated.Sw.stream_order #[0, 0, 0, 0, 1, 1] [0, 1, 2, 3, 4, 5] #[1, 4, 6, 6, 6, 6] none 6 =
    #[1, 1, 2, 2, 1, 2] := by decide
example : Generated.Sw.pit_indices #[0, 0, 2, 4, 4, 6] = [0, 2, 4] := by decide
example : Generated.Sw.tributaries #[0, 0, 0, 0, 1, 1] [0, 1, 2, 3, 4, 5] #[1, 1, 2, 2, 1, 2] = [2, 3, 5] := by decide
/-- the hypotheses of `gen_strahler_rec` / `gen_classic_rec` are satisfiable on that network -/
example : Topo #[0, 0, 0, 0, 1, 1] [0, 1, 2, 3, 4, 5] ∧ ∀ i ∈ [0, 1, 2, 3, 4, 5], i < (#[0, 0, 0, 0, 1, 1] : Array Nat).size :=
  ⟨Pf.C08.topo_example, by decide⟩

end Pf.C08fn
