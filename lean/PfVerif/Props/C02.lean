import PfVerif.Proofs.C02
import PfVerif.Props.C01
import PfVerif.Generated.Tables
/-! # C02 — re-encoding and cross-format conversion preserve the drainage graph

A *raster network* (`Spec.RasterNet nrow ncol ds`) is any `idxs_ds` array with one entry per cell whose
entries are cells or the sentinel and in which the downstream cell of a valid cell is valid — in particular
every network C01 decodes (`graph_rasternet`), with or without loops. All theorems hold for every shape and
every such network; index dtypes do not appear because the model works on `Nat` (the sentinel is `n`). -/
namespace Pf.C02
open Pf Pf.Fd Pf.Fd.Spec

/-! ## 1. regenerated tables (tie 1) -/

/-- the `_ds` tables of /repo are the ones the model reads -/
theorem ds_tables_ok :
    Generated.d8Ds = d8DsTab.toList ∧ Generated.lddDs = lddDsTab.toList := by decide

/-- the `_ds` tables invert the compass tables of the specification: the entry at delta `(dr, dc)` is the
legal code of that direction, the primary pit code at `(0, 0)` -/
theorem d8_enc_ok : encOK d8DsTab d8Dirs d8Pits d8Nodata = true := by decide +kernel
theorem ldd_enc_ok : encOK lddDsTab lddDirs lddPits lddNodata = true := by decide +kernel

/-- on the legal alphabets the remap dictionaries of /repo are the model's -/
theorem remap_tables_ok :
    (∀ v ∈ d8Alphabet, Generated.d8ToLdd[v]! = d8ToLdd v) ∧
    (∀ v ∈ lddAlphabet, Generated.lddToD8[v]! = lddToD8 v) := by decide +kernel

/-- **remap_agrees**: `d8_to_ldd` / `ldd_to_d8` as extracted from /repo preserve the meaning of every legal
code: nodata ↦ nodata, pit codes (both D8 variants) ↦ pit, a direction ↦ the same compass delta -/
theorem remap_agrees :
    (∀ v ∈ d8Alphabet, meaningLdd (Generated.d8ToLdd[v]!) = meaningD8 v) ∧
    (∀ v ∈ lddAlphabet, meaningD8 (Generated.lddToD8[v]!) = meaningLdd v) := by decide +kernel

/-! ## 2. round trip -/

/-- every graph decoded by C01 is a raster network -/
theorem graph_rasternet (nrow ncol : Nat) (read : Nat → Code) : RasterNet nrow ncol (graph nrow ncol read) := by
  obtain ⟨h1, h2⟩ := C01.decode_wf nrow ncol read
  exact ⟨h1, fun i hi => ⟨(h2 i hi).1, (h2 i hi).2.2⟩⟩

/-- **roundtrip (D8)**: exporting a raster network whose links join 8-neighbours to D8 succeeds, and parsing
the export gives the identical network: same downstream cell for every cell (hence the same nodata cells)
and the self-draining cells as pits -/
theorem roundtrip_d8 (nrow ncol : Nat) (ds : Array Nat) (hnet : RasterNet nrow ncol ds) (hl : D8links ncol ds) :
    ∃ codes, toArrayD8 ncol ds = .ok codes ∧
      (fromArrayD8 nrow ncol codes).ds = ds ∧ (fromArrayD8 nrow ncol codes).pits.toList = pitsOf ds := by
  obtain ⟨codes, e1, _, hlegal, hg⟩ := tab_roundtrip d8_enc_ok nrow ncol ds hnet hl
  obtain ⟨h1, h2, _⟩ := C01.d8_decode nrow ncol codes hlegal
  have hg' : graph nrow ncol (readD8 ncol codes) = ds := hg
  exact ⟨codes, e1, by rw [h1, hg'], by rw [h2, hg']⟩

/-- **roundtrip (LDD)** -/
theorem roundtrip_ldd (nrow ncol : Nat) (ds : Array Nat) (hnet : RasterNet nrow ncol ds) (hl : D8links ncol ds) :
    ∃ codes, toArrayLdd ncol ds = .ok codes ∧
      (fromArrayLdd nrow ncol codes).ds = ds ∧ (fromArrayLdd nrow ncol codes).pits.toList = pitsOf ds := by
  obtain ⟨codes, e1, _, hlegal, hg⟩ := tab_roundtrip ldd_enc_ok nrow ncol ds hnet hl
  obtain ⟨h1, h2, _⟩ := C01.ldd_decode nrow ncol codes hlegal
  have hg' : graph nrow ncol (readLdd ncol codes) = ds := hg
  exact ⟨codes, e1, by rw [h1, hg'], by rw [h2, hg']⟩

/-- **roundtrip (NEXTXY)**: for every raster network, 8-neighbour links or not (`to_array` never raises) -/
theorem roundtrip_nextxy (nrow ncol : Nat) (ds : Array Nat) (hnet : RasterNet nrow ncol ds) :
    (fromArrayXY nrow ncol (toArrayXY ncol ds).1 (toArrayXY ncol ds).2).ds = ds ∧
    (fromArrayXY nrow ncol (toArrayXY ncol ds).1 (toArrayXY ncol ds).2).pits.toList = pitsOf ds := by
  obtain ⟨h1, h2, _⟩ := C01.nextxy_decode nrow ncol (toArrayXY ncol ds).1 (toArrayXY ncol ds).2
  have hg := xy_roundtrip nrow ncol ds hnet
  exact ⟨by rw [h1, hg], by rw [h2, hg]⟩

/-- **encode_rejects**: a network with a link that does not join 8-neighbours cannot be written as D8 or
LDD; `to_array` raises the documented `ValueError` (for either table) instead of returning a raster -/
theorem encode_rejects (tab : Array Nat) (mv ncol : Nat) (ds : Array Nat) (h : ¬ D8links ncol ds) :
    toArrayTab tab mv ncol ds = .error "ValueError" := by
  have hex : ∃ i, i < ds.size ∧ ds[i]! < ds.size ∧ in8 (drOf ncol i ds[i]!) (dcOf ncol i ds[i]!) = false := by
    apply Classical.byContradiction
    intro hne
    apply h
    intro i hi hlt
    cases hin : in8 (drOf ncol i ds[i]!) (dcOf ncol i ds[i]!) with
    | true =>
      simp only [in8, Bool.and_eq_true, decide_eq_true_eq] at hin
      omega
    | false => exact absurd ⟨i, hi, hlt, hin⟩ hne
  obtain ⟨i, hi, hlt, hin⟩ := hex
  exact toArrayLoop_err tab ncol ds _ _ ⟨i, by simpa using hi, by omega, hin⟩

/-- the executable link test the driver reports (`spec.d8links`) is `D8links` -/
theorem d8links_iff (ncol : Nat) (ds : Array Nat) : d8links ncol ds = true ↔ D8links ncol ds := by
  unfold d8links D8links
  simp only [List.all_eq_true, List.mem_range, Bool.or_eq_true, decide_eq_true_eq, in8, Bool.and_eq_true]
  constructor
  · intro h i hi hlt
    rcases h i hi with h | h
    · omega
    · omega
  · intro h i hi
    by_cases hlt : ds[i]! < ds.size
    · right; have := h i hi hlt; omega
    · left; omega

/-! ### non-vacuity -/
-- 2x2 network with a loop (0 -> 1 -> 0), a pit (3) and a nodata cell (2)
example : (toArrayD8 2 #[1, 0, 4, 3]).toOption = some #[1, 16, 247, 0] := by decide +kernel
example : (fromArrayD8 2 2 #[1, 16, 247, 0]).ds = #[1, 0, 4, 3] := by decide +kernel
example : (toArrayLdd 2 #[1, 0, 4, 3]).toOption = some #[6, 4, 255, 5] := by decide +kernel
example : toArrayXY 2 #[1, 0, 4, 3] = (#[2, 1, -9999, -9], #[1, 1, -9999, -9]) := by decide +kernel
-- 1x3 network with the long link 0 -> 2: no D8 raster, but a NEXTXY raster
example : (toArrayD8 3 #[2, 1, 2]).toOption = none := by decide +kernel
example : d8links 3 #[2, 1, 2] = false := by decide +kernel
example : (fromArrayXY 1 3 (toArrayXY 3 #[2, 1, 2]).1 (toArrayXY 3 #[2, 1, 2]).2).ds = #[2, 1, 2] := by decide +kernel

/-! ## 3. conversion between formats -/

/-- the compass tables and the `_ds` tables agree in the other direction too: every direction code has a
delta in the 8-neighbourhood other than (0,0), the `_ds` table holds the code at that delta, and its centre
is the primary pit code (0 for D8, 5 for LDD) -/
theorem d8_canon_ok : canonOK d8DsTab d8Dirs d8Pits d8Nodata 0 = true := by decide +kernel
theorem ldd_canon_ok : canonOK lddDsTab lddDirs lddPits lddNodata 5 = true := by decide +kernel

/-- every link of the graph decoded from a legal D8 or LDD raster joins 8-neighbours (so such a graph can be
exported to every format) -/
theorem decoded_d8links (nrow ncol : Nat) (codes : Array Nat) :
    ((∀ i, i < nrow * ncol → codes[i]! ∈ d8Alphabet) → D8links ncol (graph nrow ncol (readD8 ncol codes))) ∧
    ((∀ i, i < nrow * ncol → codes[i]! ∈ lddAlphabet) → D8links ncol (graph nrow ncol (readLdd ncol codes))) :=
  ⟨fun h => (tab_canon d8_canon_ok nrow ncol codes h).2, fun h => (tab_canon ldd_canon_ok nrow ncol codes h).2⟩

/-- **convert_lossless**: take the graph decoded from a raster of any format (any reading). Exporting it to
NEXTXY and parsing again gives the identical graph and pits; if its links join 8-neighbours — always the case
for D8 and LDD sources by `decoded_d8links` — the same holds for the D8 and the LDD export. Together with
`C01.*_decode` (parsed network = graph of the reading) this covers the nine source/target pairs. -/
theorem convert_lossless (nrow ncol : Nat) (read : Nat → Code) :
    let g := graph nrow ncol read
    (D8links ncol g →
      (∃ codes, toArrayD8 ncol g = .ok codes ∧
        (fromArrayD8 nrow ncol codes).ds = g ∧ (fromArrayD8 nrow ncol codes).pits.toList = pitsOf g) ∧
      (∃ codes, toArrayLdd ncol g = .ok codes ∧
        (fromArrayLdd nrow ncol codes).ds = g ∧ (fromArrayLdd nrow ncol codes).pits.toList = pitsOf g)) ∧
    ((fromArrayXY nrow ncol (toArrayXY ncol g).1 (toArrayXY ncol g).2).ds = g ∧
     (fromArrayXY nrow ncol (toArrayXY ncol g).1 (toArrayXY ncol g).2).pits.toList = pitsOf g) := by
  intro g
  have hnet := graph_rasternet nrow ncol read
  exact ⟨fun hl => ⟨roundtrip_d8 nrow ncol g hnet hl, roundtrip_ldd nrow ncol g hnet hl⟩,
    roundtrip_nextxy nrow ncol g hnet⟩

/-! ## 4. export to the source format = documented canonicalisation -/

/-- **canon (D8)**: parsing a legal D8 raster and exporting it to D8 returns the raster in which nodata stays
nodata, every cell that decodes to a pit (codes 0 and 255, off-grid pointers, pointers into nodata) carries
the primary pit code 0, and every other cell keeps its code -/
theorem d8_canon (nrow ncol : Nat) (codes : Array Nat) (hlegal : ∀ i, i < nrow * ncol → codes[i]! ∈ d8Alphabet) :
    toArrayD8 ncol (fromArrayD8 nrow ncol codes).ds =
      .ok (canonTab 0 d8Nodata nrow ncol (readD8 ncol codes) codes) := by
  rw [(C01.d8_decode nrow ncol codes hlegal).1]
  exact (tab_canon d8_canon_ok nrow ncol codes hlegal).1

/-- **canon (LDD)**, primary pit code 5 -/
theorem ldd_canon (nrow ncol : Nat) (codes : Array Nat) (hlegal : ∀ i, i < nrow * ncol → codes[i]! ∈ lddAlphabet) :
    toArrayLdd ncol (fromArrayLdd nrow ncol codes).ds =
      .ok (canonTab 5 lddNodata nrow ncol (readLdd ncol codes) codes) := by
  rw [(C01.ldd_decode nrow ncol codes hlegal).1]
  exact (tab_canon ldd_canon_ok nrow ncol codes hlegal).1

/-- **canon (NEXTXY)**: pits (codes -9, -10, off-grid, into nodata, self-pointers) become (-9, -9), every other
cell keeps its (x, y) -/
theorem nextxy_canon (nrow ncol : Nat) (xs ys : Array Int) :
    toArrayXY ncol (fromArrayXY nrow ncol xs ys).ds = canonXY nrow ncol xs ys := by
  rw [(C01.nextxy_decode nrow ncol xs ys).1]
  exact xy_canon nrow ncol xs ys

/-! ## 5. the direct D8 ↔ LDD remapping agrees with conversion through the graph -/

/-- the model's remap functions preserve the meaning of every legal code -/
theorem remap_meaning_ok :
    (∀ v ∈ d8Alphabet, meaningLdd (d8ToLdd v) = meaningD8 v ∧ d8ToLdd v ∈ lddAlphabet) ∧
    (∀ v ∈ lddAlphabet, meaningD8 (lddToD8 v) = meaningLdd v ∧ lddToD8 v ∈ d8Alphabet) := by decide +kernel

/-- **remap_via_graph (D8 → LDD)**: for every legal D8 raster, the value-remapped raster is a legal LDD raster
that decodes to the same graph and pits, and exporting the parsed D8 network to LDD gives exactly the
canonical form of the remapped raster -/
theorem remap_via_graph_d8_ldd (nrow ncol : Nat) (codes : Array Nat) (hsize : codes.size = nrow * ncol)
    (hlegal : ∀ i, i < nrow * ncol → codes[i]! ∈ d8Alphabet) :
    (fromArrayLdd nrow ncol (codes.map d8ToLdd)).ds = (fromArrayD8 nrow ncol codes).ds ∧
    (fromArrayLdd nrow ncol (codes.map d8ToLdd)).pits = (fromArrayD8 nrow ncol codes).pits ∧
    toArrayLdd ncol (fromArrayD8 nrow ncol codes).ds =
      .ok (canonTab 5 lddNodata nrow ncol (readLdd ncol (codes.map d8ToLdd)) (codes.map d8ToLdd)) := by
  have hget : ∀ i, i < nrow * ncol → (codes.map d8ToLdd)[i]! = d8ToLdd codes[i]! := by
    intro i hi; simp [show i < codes.size by omega]
  have hl2 : ∀ i, i < nrow * ncol → (codes.map d8ToLdd)[i]! ∈ lddAlphabet := by
    intro i hi; rw [hget i hi]; exact (remap_meaning_ok.1 _ (hlegal i hi)).2
  have hread : ∀ j, j < nrow * ncol → readLdd ncol (codes.map d8ToLdd) j = readD8 ncol codes j := by
    intro j hj
    show readTab lddDirs lddPits lddNodata ncol _ j = readTab d8Dirs d8Pits d8Nodata ncol codes j
    rw [readTab_eq_meaning, readTab_eq_meaning, hget j hj]
    have := (remap_meaning_ok.1 _ (hlegal j hj)).1
    unfold meaningLdd meaningD8 at this
    rw [this]
  have hg : graph nrow ncol (readLdd ncol (codes.map d8ToLdd)) = graph nrow ncol (readD8 ncol codes) :=
    graph_congr hread
  obtain ⟨a1, a2, _⟩ := C01.ldd_decode nrow ncol _ hl2
  obtain ⟨b1, b2, _⟩ := C01.d8_decode nrow ncol codes hlegal
  refine ⟨by rw [a1, b1, hg], ?_, ?_⟩
  · have : (fromArrayLdd nrow ncol (codes.map d8ToLdd)).pits.toList = (fromArrayD8 nrow ncol codes).pits.toList := by
      rw [a2, b2, hg]
    exact Array.toList_inj.1 this
  · rw [b1, ← hg]
    exact (tab_canon ldd_canon_ok nrow ncol _ hl2).1

/-- **remap_via_graph (LDD → D8)** -/
theorem remap_via_graph_ldd_d8 (nrow ncol : Nat) (codes : Array Nat) (hsize : codes.size = nrow * ncol)
    (hlegal : ∀ i, i < nrow * ncol → codes[i]! ∈ lddAlphabet) :
    (fromArrayD8 nrow ncol (codes.map lddToD8)).ds = (fromArrayLdd nrow ncol codes).ds ∧
    (fromArrayD8 nrow ncol (codes.map lddToD8)).pits = (fromArrayLdd nrow ncol codes).pits ∧
    toArrayD8 ncol (fromArrayLdd nrow ncol codes).ds =
      .ok (canonTab 0 d8Nodata nrow ncol (readD8 ncol (codes.map lddToD8)) (codes.map lddToD8)) := by
  have hget : ∀ i, i < nrow * ncol → (codes.map lddToD8)[i]! = lddToD8 codes[i]! := by
    intro i hi; simp [show i < codes.size by omega]
  have hl2 : ∀ i, i < nrow * ncol → (codes.map lddToD8)[i]! ∈ d8Alphabet := by
    intro i hi; rw [hget i hi]; exact (remap_meaning_ok.2 _ (hlegal i hi)).2
  have hread : ∀ j, j < nrow * ncol → readD8 ncol (codes.map lddToD8) j = readLdd ncol codes j := by
    intro j hj
    show readTab d8Dirs d8Pits d8Nodata ncol _ j = readTab lddDirs lddPits lddNodata ncol codes j
    rw [readTab_eq_meaning, readTab_eq_meaning, hget j hj]
    have := (remap_meaning_ok.2 _ (hlegal j hj)).1
    unfold meaningLdd meaningD8 at this
    rw [this]
  have hg : graph nrow ncol (readD8 ncol (codes.map lddToD8)) = graph nrow ncol (readLdd ncol codes) :=
    graph_congr hread
  obtain ⟨a1, a2, _⟩ := C01.d8_decode nrow ncol _ hl2
  obtain ⟨b1, b2, _⟩ := C01.ldd_decode nrow ncol codes hlegal
  refine ⟨by rw [a1, b1, hg], ?_, ?_⟩
  · have : (fromArrayD8 nrow ncol (codes.map lddToD8)).pits.toList = (fromArrayLdd nrow ncol codes).pits.toList := by
      rw [a2, b2, hg]
    exact Array.toList_inj.1 this
  · rw [b1, ← hg]
    exact (tab_canon d8_canon_ok nrow ncol _ hl2).1

/-! ### non-vacuity (canonical form, remapping) -/
-- 1x3 D8: E (into nodata -> pit), nodata, pit variant 255
example : canonTab 0 d8Nodata 1 3 (readD8 3 #[1, 247, 255]) #[1, 247, 255] = #[0, 247, 0] := by decide +kernel
example : (toArrayD8 3 (fromArrayD8 1 3 #[1, 247, 255]).ds).toOption = some #[0, 247, 0] := by decide +kernel
example : (#[1, 2, 0, 255, 247, 128] : Array Nat).map d8ToLdd = #[6, 3, 5, 5, 255, 9] := by decide +kernel
example : canonXY 1 3 #[2, 1, 7] #[1, 1, 1] = (#[2, 1, -9], #[1, 1, -9]) := by decide +kernel

end Pf.C02
