/-! # C16 — results do not depend on the integer type used for cell indices

The Lean models are dtype-free (indices are `Nat`, the missing value is `n`), so dtype independence
of the *models* is trivial; what can go wrong in the code is fixed-width arithmetic on index-typed
values. These are the site theorems for the arithmetic forms that occur in the code
(`abs(idx0 - idx_ds)` in `dem.dig_4connectivity`, `idx0 ± ncol ± 1` in `_local_d4`, `// ncol`, `% ncol`
in `subidx_2_idx` / `in_d8` / `_d8_idx` / `distance`, comparison with the sentinel). Core Lean only. -/
namespace Pf.C16

/-- **the F16 defect class**: on unsigned 32-bit indices `abs(a - b)` is NOT the distance of the
indices when `a < b` (witness: the link 4 → 5 on a 2×3 raster gives 2^32 - 1) -/
theorem u32_sub_wraps : ∃ a b : BitVec 32, a < b ∧ (a - b).toNat ≠ (b.toNat - a.toNat) :=
  ⟨4#32, 5#32, by decide, by decide⟩

theorem u64_sub_wraps : ∃ a b : BitVec 64, a < b ∧ (a - b).toNat ≠ (b.toNat - a.toNat) :=
  ⟨4#64, 5#64, by decide, by decide⟩

/-- the repaired form `abs(int(idx0) - int(idx_ds))`: unsigned 32-bit indices converted to (at least)
64-bit signed integers subtract without wrap-around, for every pair of indices -/
theorem u32_as_int_sub_exact (a b : BitVec 32) :
    ((a.toNat : Int) - (b.toNat : Int)).natAbs = (if a.toNat ≤ b.toNat then b.toNat - a.toNat else a.toNat - b.toNat) := by
  split <;> omega

/-- and the difference fits a signed 64-bit integer -/
theorem u32_as_int_sub_fits (a b : BitVec 32) :
    -(2:Int)^63 ≤ (a.toNat : Int) - (b.toNat : Int) ∧ (a.toNat : Int) - (b.toNat : Int) < (2:Int)^63 := by
  have ha := a.isLt
  have hb := b.isLt
  constructor <;> omega

/-- signed 32-bit index arithmetic `idx ± ncol ± 1` cannot overflow 64-bit signed integers (Numba
promotes int32 ± int to int64), and stays exact -/
theorem i32_neighbour_exact (idx ncol : Int) (h1 : 0 ≤ idx) (h2 : idx < 2^31) (h3 : 0 < ncol) (h4 : ncol < 2^31) :
    -(2:Int)^63 ≤ idx - ncol - 1 ∧ idx + ncol + 1 < (2:Int)^63 := by
  constructor <;> omega

/-- a valid cell index never equals the missing-value sentinel of its dtype (the library selects
int32 below 2^31-1 cells, uint32 below 2^32-2, uint64 above) -/
theorem valid_ne_sentinel_i32 (i n : Nat) (hi : i < n) (hn : n < 2147483647) : (i : Int) ≠ -1 := by omega
theorem valid_ne_sentinel_u32 (i n : Nat) (hi : i < n) (hn : n < 4294967294) : i ≠ 4294967295 := by omega
theorem valid_ne_sentinel_u64 (i n : Nat) (hi : i < n) (hn : n < 18446744073709551615) : i ≠ 18446744073709551615 := by omega

/-- the sentinel of an unsigned dtype is what `np.uint32(-1)` / `np.uint64(-1)` produce -/
theorem sentinel_u32 : (BitVec.ofInt 32 (-1)).toNat = 4294967295 := by decide
theorem sentinel_u64 : (BitVec.ofInt 64 (-1)).toNat = 18446744073709551615 := by decide

/-- row / column of a cell: `idx // ncol`, `idx % ncol` recover the cell for every index width
(`Nat` division; no sign issue arises because indices are non-negative) -/
theorem rowcol_recover (idx ncol : Nat) (h : 0 < ncol) : (idx / ncol) * ncol + idx % ncol = idx := by
  rw [Nat.mul_comm]; exact Nat.div_add_mod idx ncol

end Pf.C16
