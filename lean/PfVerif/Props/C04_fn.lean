import PfVerif.Proofs.C04_fn
import PfVerif.Model.C05
import PfVerif.Props.C04
/-! Translator tie for single-loop sweep kernels (extension `C04_fn`, hooked under C04; serves C05 / C14 too).
`harness/extract_fn.py` translates the kernels from the Python AST of /repo into `Generated/Sweeps.lean` on every
run; the obligations below state that the generated defs ARE the hand-written models the property theorems of
C04 / C05 / C14 / C08 are about - for all arrays, sequences and parameters (no domain hypothesis is needed: both
sides read with `[·]!` and write with `setIfInBounds`). Each obligation is split into a per-iteration `…_step_eq`
and the fold, so that a reordering of independent statements inside the loop body only touches the step proof. -/
namespace Pf.C04fn
open Pf Pf.SwBridge

macro "sw_step" : tactic =>
  `(tactic| first
    | grind
    | (simp only [setIfInBounds_self]; grind)
    | (split <;> simp_all [setIfInBounds_self] <;> grind))

/-! ### `streams.accuflux` -/
theorem gen_accuflux_step_eq (ds : Array Nat) (seq : List Nat) (data : Array Int) (nodata : Int)
    (accu : Array Int) (idx0 : Nat) :
    Generated.Sw.accuflux_step ds seq data nodata accu idx0 =
      stepUp ds (updAdd (linkOk ds data nodata)) idx0 accu := by
  simp only [Generated.Sw.accuflux_step, stepUp, updAdd, linkOk]
  sw_step

/-- the generated `accuflux` is the model of `Props/C04.lean` (`accuflux_spec` etc.) -/
theorem gen_accuflux_eq_model (ds : Array Nat) (seq : List Nat) (data : Array Int) (nodata : Int) :
    Generated.Sw.accuflux ds seq data nodata = Pf.accuflux ds seq data nodata := by
  simp only [Generated.Sw.accuflux, Pf.accuflux, sweepUp]
  exact foldl_reverse_eq_foldr _ _ (gen_accuflux_step_eq ds seq data nodata) seq data

/-! ### `streams.accuflux_ds` -/
theorem gen_accuflux_ds_step_eq (ds : Array Nat) (seq : List Nat) (data : Array Int) (nodata : Int)
    (accu : Array Int) (idx0 : Nat) :
    Generated.Sw.accuflux_ds_step ds seq data nodata accu idx0 =
      stepDown ds (gAddDown ds (linkOk ds data nodata)) accu idx0 := by
  simp only [Generated.Sw.accuflux_ds_step, stepDown, gAddDown, linkOk]
  sw_step

theorem gen_accuflux_ds_eq_model (ds : Array Nat) (seq : List Nat) (data : Array Int) (nodata : Int) :
    Generated.Sw.accuflux_ds ds seq data nodata = Pf.accufluxDs ds seq data nodata := by
  simp only [Generated.Sw.accuflux_ds, Pf.accufluxDs, sweepDown]
  exact foldl_congr_step _ _ (gen_accuflux_ds_step_eq ds seq data nodata) seq data

/-! ### `core.fillnodata_upstream` (C05: basins, C14) -/
theorem gen_fillnodata_upstream_step_eq (ds : Array Nat) (seq : List Nat) (data : Array Int) (nodata : Int)
    (out : Array Int) (idx0 : Nat) :
    Generated.Sw.fillnodata_upstream_step ds seq data nodata out idx0 = stepDown ds (gFillNd nodata) out idx0 := by
  simp only [Generated.Sw.fillnodata_upstream_step, stepDown, gFillNd]
  sw_step

/-- the generated `fillnodata_upstream` is the model `fill_first_valid` (Core/FirstOutlet) and C05 are about -/
theorem gen_fillnodata_upstream_eq_model (ds : Array Nat) (seq : List Nat) (data : Array Int) (nodata : Int) :
    Generated.Sw.fillnodata_upstream ds seq data nodata = Pf.fillnodataUpstream ds seq data nodata := by
  simp only [Generated.Sw.fillnodata_upstream, Pf.fillnodataUpstream, sweepDown]
  exact foldl_congr_step _ _ (gen_fillnodata_upstream_step_eq ds seq data nodata) seq data

/-- `basins.basins` = seeding + the generated kernel (the seeding `basins[idxs_pit] = ids` is outside the fragment) -/
theorem gen_fillnodata_upstream_basins (ds : Array Nat) (seq outlets : List Nat) (ids : List Int) :
    Generated.Sw.fillnodata_upstream ds seq (seedLabels ds.size outlets ids) 0 = basinsModel ds seq outlets ids := by
  rw [gen_fillnodata_upstream_eq_model]; rfl

/-! ### `core.upstream_count` (the missing value `mv` is `ds.size` under the harness' canonicalisation) -/
theorem gen_upstream_count_step_eq (ds : Array Nat) (mask : Option (Array Bool)) (nup : Array Int) (idx0 : Nat) :
    Generated.Sw.upstream_count_step ds ds.size mask nup idx0 =
      (let d := ds[idx0]!
       if d ≠ ds.size then
         let nup := nup.setIfInBounds idx0 (max nup[idx0]! 0)
         if idx0 ≠ d ∧ maskAt mask idx0 then nup.setIfInBounds d (max nup[d]! 0 + 1) else nup
       else nup) := by
  simp only [Generated.Sw.upstream_count_step, mask_valid]
  sw_step

theorem gen_upstream_count_eq_model (ds : Array Nat) (mask : Option (Array Bool)) :
    Generated.Sw.upstream_count ds ds.size mask = Pf.upstreamCount ds mask := by
  simp only [Generated.Sw.upstream_count, Pf.upstreamCount]
  exact foldl_congr_step _ _ (gen_upstream_count_step_eq ds mask) _ _

/-! ### `arithmetics.upstream_sum` (C14) -/
theorem gen_upstream_sum_step_eq (ds : Array Nat) (data : Array Int) (nodata : Int) (arr : Array Int) (idx0 : Nat) :
    Generated.Sw.upstream_sum_step ds data nodata ds.size arr idx0 = upstreamSumStep ds data nodata arr idx0 := by
  simp only [Generated.Sw.upstream_sum_step, upstreamSumStep]
  sw_step

/-- sizes equal is the documented domain (`range(data.size)` in the code, `range ds.size` in the model) -/
theorem gen_upstream_sum_eq_model (ds : Array Nat) (data : Array Int) (nodata : Int) (hsz : data.size = ds.size) :
    Generated.Sw.upstream_sum ds data nodata ds.size = Pf.upstreamSumModel ds data nodata := by
  simp only [Generated.Sw.upstream_sum, Pf.upstreamSumModel, hsz]
  exact foldl_congr_step _ _ (gen_upstream_sum_step_eq ds data nodata) _ _

/-! ### `core.main_upstream` (C08 / C14 windows) -/
theorem gen_main_upstream_step_eq (ds : Array Nat) (uparea : Array Int) (upaMin : Int)
    (st : Array Nat × Array Int) (idx0 : Nat) :
    Generated.Sw.main_upstream_step ds uparea upaMin ds.size st idx0 =
      (let (um, upa) := st
       let d := ds[idx0]!
       if d = idx0 ∨ d = ds.size then st
       else if uparea[idx0]! > upa[d]! then (um.setIfInBounds d idx0, upa.setIfInBounds d uparea[idx0]!)
       else st) := by
  obtain ⟨um, upa⟩ := st
  simp only [Generated.Sw.main_upstream_step]
  sw_step

theorem gen_main_upstream_eq_model (ds : Array Nat) (uparea : Array Int) (upaMin : Int) :
    Generated.Sw.main_upstream ds uparea upaMin ds.size = Pf.mainUpstream ds uparea upaMin := by
  simp only [Generated.Sw.main_upstream, Pf.mainUpstream]
  exact congrArg Prod.fst (foldl_congr_step _ _ (gen_main_upstream_step_eq ds uparea upaMin) _ _)

/-! ### the property theorems, transported to the translated code -/

/-- C04 for the code as translated: on a loop-free network whose order covers the valid cells the GENERATED
`accuflux` computes the brute-force catchment sum (the oracle of the C04 harness) -/
theorem gen_accuflux_eq_spec (ds : Array Nat) (seq : List Nat) (data : Array Int) (nodata : Int)
    (htopo : Topo ds seq) (hcov : coversValid ds seq = true) (hd : data.size = ds.size)
    (fuel : Nat) (hf : seq.length ≤ fuel) (j : Nat) (hj : j ∈ seq) :
    (Generated.Sw.accuflux ds seq data nodata)[j]! = catchSumB ds (linkOk ds data nodata) data fuel j := by
  rw [gen_accuflux_eq_model]; exact Pf.C04.accuflux_eq_spec ds seq data nodata htopo hcov hd fuel hf j hj

/-- C05 / C14 for the code as translated: every cell of the order ends with the first valid value downstream -/
theorem gen_fillnodata_upstream_first_valid (ds : Array Nat) (seq : List Nat) (data : Array Int) (nd : Int)
    (htopo : Topo ds seq) (hb : ∀ i ∈ seq, i < data.size) :
    ∀ i ∈ seq, FirstValid ds data nd i (Generated.Sw.fillnodata_upstream ds seq data nd)[i]! := by
  rw [gen_fillnodata_upstream_eq_model]; exact fill_first_valid ds data nd seq htopo hb

/-! ### non-vacuity: the generated defs compute on a concrete network
`4 → 2 → 0 (pit)`, `3 → 2`, `1` missing (`ds[1] = 5 = n`); order `[0, 2, 3, 4]` -/
example : Generated.Sw.accuflux #[0, 5, 0, 2, 2] [0, 2, 3, 4] #[1, 7, 2, -9, 4] (-9) = #[7, 7, 6, -9, 4] := by decide
example : Generated.Sw.accuflux_ds #[0, 5, 0, 2, 2] [0, 2, 3, 4] #[1, 7, 2, -9, 4] (-9) = #[1, 7, 3, -9, 7] := by decide
example : Generated.Sw.fillnodata_upstream #[0, 5, 0, 2, 2] [0, 2, 3, 4] #[3, 0, 0, 8, 0] 0 = #[3, 0, 3, 8, 3] := by
  decide
example : Generated.Sw.upstream_count #[0, 5, 0, 2, 2] 5 none = #[1, -9, 2, 0, 0] := by decide
example : Generated.Sw.upstream_count #[0, 5, 0, 2, 2] 5 (some #[true, true, true, false, true]) = #[1, -9, 1, 0, 0] := by
  decide
example : Generated.Sw.upstream_sum #[0, 5, 0, 2, 2] #[1, 7, 2, -9, 4] (-9) 5 = #[2, 0, 4, -9, 0] := by decide
example : Generated.Sw.main_upstream #[0, 5, 0, 2, 2] #[9, 0, 5, 2, 2] 0 5 = #[2, 5, 3, 5, 5] := by decide
/-- the hypotheses of `gen_accuflux_eq_spec` are satisfiable on that network -/
example : isTopo #[0, 5, 0, 2, 2] [0, 2, 3, 4] = true ∧ coversValid #[0, 5, 0, 2, 2] [0, 2, 3, 4] = true := by decide

end Pf.C04fn
