/-! Rank certificate soundness (unbounded on both sides). Core Lean only. -/
namespace Pf
variable (ds : Nat → Nat) (rk : Nat → Int)

def iter (ds : Nat → Nat) : Nat → Nat → Nat
  | 0, i => i
  | k+1, i => iter ds k (ds i)

def RankCert : Prop :=
  ∀ i, (ds i = i → rk i = 0) ∧
       (ds i ≠ i → (rk i = -1 ∧ rk (ds i) = -1) ∨ (0 ≤ rk (ds i) ∧ rk i = rk (ds i) + 1))

/-- rank k ≥ 0: the k-th downstream cell is a pit and no earlier one is -/
theorem rank_reaches (h : RankCert ds rk) :
    ∀ (k : Nat) (i : Nat), rk i = k →
      ds (iter ds k i) = iter ds k i ∧ ∀ m, m < k → ds (iter ds m i) ≠ iter ds m i := by
  intro k
  induction k with
  | zero =>
    intro i hi
    refine ⟨?_, fun m hm => absurd hm (Nat.not_lt_zero m)⟩
    by_cases hp : ds i = i
    · simpa [iter] using hp
    · rcases (h i).2 hp with ⟨h1, _⟩ | ⟨h1, h2⟩ <;> omega
  | succ k ih =>
    intro i hi
    by_cases hp : ds i = i
    · have := (h i).1 hp; omega
    · rcases (h i).2 hp with ⟨h1, _⟩ | ⟨h1, h2⟩
      · omega
      · have hk : rk (ds i) = k := by omega
        obtain ⟨a, b⟩ := ih (ds i) hk
        refine ⟨by simpa [iter] using a, ?_⟩
        intro m hm
        cases m with
        | zero => simpa [iter] using hp
        | succ m => simpa [iter] using b m (by omega)

/-- rank -1: no downstream cell is ever a pit -/
theorem rank_never (h : RankCert ds rk) :
    ∀ (k : Nat) (i : Nat), rk i = -1 → ds (iter ds k i) ≠ iter ds k i := by
  intro k
  induction k with
  | zero =>
    intro i hi hp
    have := (h i).1 (by simpa [iter] using hp); omega
  | succ k ih =>
    intro i hi
    have hp : ds i ≠ i := fun hp => by have := (h i).1 hp; omega
    rcases (h i).2 hp with ⟨_, h2⟩ | ⟨h1, h2⟩
    · simpa [iter] using ih (ds i) h2
    · omega
end Pf
