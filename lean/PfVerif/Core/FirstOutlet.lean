import PfVerif.Core.Sweep
/-! `core.fillnodata_upstream` = "value of the first valid cell on the downstream path".
Used by basins (C05), sub-basins (C18), unit catchments (C10) and `fillnodata(direction='up')` (C14). -/
namespace Pf

/-- `FirstValid ds data nd i v`: `v` is the value of the first cell with a value `≠ nd` met walking
downstream from `i` (including `i`); `nd` if a pit is reached first. -/
inductive FirstValid (ds : Array Nat) (data : Array Int) (nd : Int) : Nat → Int → Prop
  | here (i : Nat) : data[i]! ≠ nd → FirstValid ds data nd i data[i]!
  | pit (i : Nat) : data[i]! = nd → ds[i]! = i → FirstValid ds data nd i nd
  | down (i : Nat) (v : Int) : data[i]! = nd → ds[i]! ≠ i → FirstValid ds data nd ds[i]! v →
      FirstValid ds data nd i v

theorem FirstValid.inv {ds : Array Nat} {data : Array Int} {nd : Int} {i : Nat} {v : Int}
    (h : FirstValid ds data nd i v) :
    (data[i]! ≠ nd ∧ v = data[i]!) ∨ (data[i]! = nd ∧ ds[i]! = i ∧ v = nd) ∨
    (data[i]! = nd ∧ ds[i]! ≠ i ∧ FirstValid ds data nd ds[i]! v) := by
  cases h with
  | here _ h1 => exact Or.inl ⟨h1, rfl⟩
  | pit _ h1 h2 => exact Or.inr (Or.inl ⟨h1, h2, rfl⟩)
  | down _ _ h1 h2 h3 => exact Or.inr (Or.inr ⟨h1, h2, h3⟩)

/-- the relation is functional: the first valid value is unique -/
theorem FirstValid.unique {ds : Array Nat} {data : Array Int} {nd : Int} {i : Nat} {v w : Int}
    (h1 : FirstValid ds data nd i v) (h2 : FirstValid ds data nd i w) : v = w := by
  induction h1 generalizing w with
  | here i hne =>
    rcases h2.inv with ⟨_, h⟩ | ⟨he, _⟩ | ⟨he, _⟩
    · exact h.symm
    · exact absurd he hne
    · exact absurd he hne
  | pit i he hp =>
    rcases h2.inv with ⟨hne, _⟩ | ⟨_, _, h⟩ | ⟨_, hnp, _⟩
    · exact absurd he hne
    · exact h.symm
    · exact absurd hp hnp
  | down i v he hnp _ ih =>
    rcases h2.inv with ⟨hne, _⟩ | ⟨_, hp, _⟩ | ⟨_, _, h⟩
    · exact absurd he hne
    · exact absurd hp hnp
    · exact ih h

/-- the body of the loop of `core.fillnodata_upstream` -/
def gFillNd (nodata : Int) (_ : Nat) (own dsv : Int) : Int :=
  if own = nodata ∧ dsv ≠ nodata then dsv else own

/-- **Main theorem (all networks, all orders, all data).** After the down-to-upstream sweep of
`fillnodata_upstream`, every cell of the sequence holds the first valid value on its downstream path. -/
theorem fill_first_valid (ds : Array Nat) (data : Array Int) (nd : Int) (seq : List Nat)
    (htopo : Topo ds seq) (hb : ∀ i ∈ seq, i < data.size) :
    ∀ i ∈ seq, FirstValid ds data nd i (sweepDown ds (gFillNd nd) seq data)[i]! := by
  obtain ⟨hrec, _⟩ := sweepDown_rec ds (gFillNd nd) data seq htopo hb
  refine htopo.induction _ (fun j hj hd => ?_)
  have hr := hrec j hj
  by_cases hl : data[j]! = nd
  · by_cases hp : ds[j]! = j
    · rw [hr]; simp only [hp, if_true, gFillNd, hl]
      simpa using FirstValid.pit j hl hp
    · have hdv := (hd hp).2
      rw [hr]; simp only [hp, if_false, gFillNd, hl, true_and]
      split
      · exact FirstValid.down j _ hl hp hdv
      · rename_i h0
        have h0' : (sweepDown ds (gFillNd nd) seq data)[ds[j]!]! = nd := by simpa using h0
        rw [h0'] at hdv
        exact FirstValid.down j nd hl hp hdv
  · rw [hr]
    have : gFillNd nd j data[j]!
        (if ds[j]! = j then data[j]! else (sweepDown ds (gFillNd nd) seq data)[ds[j]!]!) = data[j]! := by
      simp [gFillNd, hl]
    rw [this]; exact FirstValid.here j hl

/-- cells outside the sequence are untouched -/
theorem fill_untouched (ds : Array Nat) (data : Array Int) (nd : Int) (seq : List Nat)
    (htopo : Topo ds seq) (hb : ∀ i ∈ seq, i < data.size) :
    ∀ i, i ∉ seq → (sweepDown ds (gFillNd nd) seq data)[i]! = data[i]! :=
  (sweepDown_rec ds (gFillNd nd) data seq htopo hb).2

/-- executable walk computing the first valid value (fuel-bounded) -/
def walkValid (ds : Array Nat) (data : Array Int) (nd : Int) : Nat → Nat → Option Int
  | 0, _ => none
  | fuel+1, i =>
    if data[i]! ≠ nd then some data[i]!
    else if ds[i]! = i then some nd
    else walkValid ds data nd fuel ds[i]!

theorem walkValid_sound (ds : Array Nat) (data : Array Int) (nd : Int) :
    ∀ fuel i v, walkValid ds data nd fuel i = some v → FirstValid ds data nd i v := by
  intro fuel
  induction fuel with
  | zero => intro i v h; simp [walkValid] at h
  | succ f ih =>
    intro i v h
    simp only [walkValid] at h
    by_cases h1 : data[i]! ≠ nd
    · simp only [h1, ne_eq, not_false_eq_true, if_true, Option.some.injEq] at h
      subst h; exact FirstValid.here i h1
    · have h1' : data[i]! = nd := by simpa using h1
      simp only [h1', ne_eq, not_true_eq_false, if_false] at h
      by_cases h2 : ds[i]! = i
      · simp only [h2, if_true, Option.some.injEq] at h
        subst h; exact FirstValid.pit i h1' h2
      · simp only [h2, if_false] at h
        exact FirstValid.down i v h1' h2 (ih _ _ h)

/-- the sweep agrees with the executable walk wherever the walk terminates -/
theorem fill_eq_walk (ds : Array Nat) (data : Array Int) (nd : Int) (seq : List Nat)
    (htopo : Topo ds seq) (hb : ∀ i ∈ seq, i < data.size) (fuel : Nat) :
    ∀ i ∈ seq, ∀ v, walkValid ds data nd fuel i = some v →
      (sweepDown ds (gFillNd nd) seq data)[i]! = v :=
  fun i hi v hv => (fill_first_valid ds data nd seq htopo hb i hi).unique (walkValid_sound ds data nd fuel i v hv)

end Pf
