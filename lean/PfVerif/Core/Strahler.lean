/-! The junction update of `streams.strahler_order` is order independent. Core Lean only. -/
namespace Pf

/-- junction update on (strord[ds], strmax[ds]) when a stream of order `s` flows in -/
def phi (st : Nat × Nat) (s : Nat) : Nat × Nat :=
  (if st.1 < s then s else if s = st.1 ∧ st.2 = s then st.1 + 1 else st.1,
   if st.2 < s then s else st.2)

def mx (l : List Nat) : Nat := l.foldl max 0
/-- Strahler rule on the list of inflowing orders -/
def strahler (l : List Nat) : Nat :=
  if l = [] then 0 else if 2 ≤ l.count (mx l) then mx l + 1 else mx l

theorem foldl_max_ge (l : List Nat) (a : Nat) : a ≤ l.foldl max a := by
  induction l generalizing a with
  | nil => exact Nat.le_refl a
  | cons x l ih => exact Nat.le_trans (Nat.le_max_left a x) (ih _)

theorem foldl_max_mono (l : List Nat) (a b : Nat) (h : a ≤ b) : l.foldl max a ≤ l.foldl max b := by
  induction l generalizing a b with
  | nil => exact h
  | cons x l ih => exact ih _ _ (by omega)

theorem le_mx (l : List Nat) : ∀ x ∈ l, x ≤ mx l := by
  intro x hx
  induction l with
  | nil => cases hx
  | cons y l ih =>
    simp only [mx, List.foldl_cons]
    rcases List.mem_cons.1 hx with h | h
    · subst h; exact Nat.le_trans (Nat.le_max_right 0 x) (foldl_max_ge l _)
    · exact Nat.le_trans (ih h) (foldl_max_mono l _ _ (Nat.zero_le _))

theorem mx_snoc (l : List Nat) (s : Nat) : mx (l ++ [s]) = max (mx l) s := by
  simp [mx, List.foldl_append]

theorem foldl_max_mem (l : List Nat) (a : Nat) : l.foldl max a = a ∨ l.foldl max a ∈ l := by
  induction l generalizing a with
  | nil => exact Or.inl rfl
  | cons x l ih =>
    simp only [List.foldl_cons, List.mem_cons]
    rcases ih (max a x) with h | h
    · rw [h]; rcases Nat.le_total a x with hax | hax
      · right; left; omega
      · left; omega
    · right; right; exact h

theorem mx_mem (l : List Nat) (hpos : ∀ x ∈ l, 0 < x) (hne : l ≠ []) : mx l ∈ l := by
  rcases foldl_max_mem l 0 with h | h
  · cases l with
    | nil => exact absurd rfl hne
    | cons y r =>
      have h1 := le_mx (y :: r) y (by simp)
      have h2 := hpos y (by simp)
      simp only [mx] at h1; omega
  · exact h

theorem count_snoc (l : List Nat) (s x : Nat) :
    (l ++ [s]).count x = l.count x + (if s = x then 1 else 0) := by
  simp only [List.count_append, List.count_cons, List.count_nil]
  split <;> simp_all

theorem phi_strahler_snoc (a : List Nat) (s : Nat) (hs : 0 < s) (hpos : ∀ x ∈ a, 0 < x) :
    phi (strahler a, mx a) s = (strahler (a ++ [s]), mx (a ++ [s])) := by
  have hmx := mx_snoc a s
  have hcnt := count_snoc a s
  have hgt : ∀ x, mx a < x → a.count x = 0 := by
    intro x hx
    rw [List.count_eq_zero]
    intro hmem; have := le_mx a x hmem; omega
  by_cases ha : a = []
  · subst ha
    simp only [phi, strahler, mx, List.nil_append, List.foldl_cons, List.foldl_nil, List.count_cons,
      List.count_nil]
    have : max 0 s = s := by omega
    simp [this, hs]
  · have h1 : 1 ≤ a.count (mx a) := List.count_pos_iff.2 (mx_mem a hpos ha)
    have hne : a ++ [s] ≠ [] := by simp
    simp only [phi, strahler, ha, hne, if_false, hmx, hcnt]
    rcases Nat.lt_trichotomy (mx a) s with h | h | h
    · have h0 := hgt s h
      have e : max (mx a) s = s := by omega
      rw [e, h0]
      refine Prod.ext ?_ ?_ <;> simp only [] <;> grind
    · have e : max (mx a) s = mx a := by omega
      rw [e]
      refine Prod.ext ?_ ?_ <;> simp only [] <;> grind
    · have e : max (mx a) s = mx a := by omega
      rw [e]
      refine Prod.ext ?_ ?_ <;> simp only [] <;> grind

/-- folding the junction update over the inflowing orders in ANY arrival order gives the Strahler rule -/
theorem phi_fold (l : List Nat) (hpos : ∀ x ∈ l, 0 < x) :
    l.foldl phi (0, 0) = (strahler l, mx l) := by
  suffices h : ∀ (l a : List Nat), (∀ x ∈ a, 0 < x) → (∀ x ∈ l, 0 < x) →
      l.foldl phi (strahler a, mx a) = (strahler (a ++ l), mx (a ++ l)) by
    simpa [strahler, mx] using h l [] (by simp) hpos
  intro l
  induction l with
  | nil => intro a _ _; simp
  | cons s l ih =>
    intro a ha hl
    have hs : 0 < s := hl s (by simp)
    rw [List.foldl_cons, phi_strahler_snoc a s hs ha]
    have := ih (a ++ [s]) (by intro x hx; rcases List.mem_append.1 hx with h | h
                              · exact ha x h
                              · simp at h; omega)
                          (fun x hx => hl x (by simp [hx]))
    simpa using this
end Pf
