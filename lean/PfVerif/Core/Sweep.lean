/-! Generic sweep lemmas over a downstream-index array: `Topo`, `sweepDown`, `sweepUp`. Core Lean only. -/
namespace Pf

variable {α : Type} [Inhabited α]

theorem get!_setIfInBounds (xs : Array α) (i j : Nat) (a : α) :
    (xs.setIfInBounds i a)[j]! = if i = j ∧ i < xs.size then a else xs[j]! := by
  by_cases h : i = j
  · subst h
    by_cases h2 : i < xs.size
    · simp [h2]
    · simp [h2, Array.setIfInBounds]
  · simp [h, getElem!_def, Array.getElem?_setIfInBounds_ne h]

/-- one step of a down-to-upstream sweep: out[i] := g i out[i] out[ds i] -/
def stepDown (ds : Array Nat) (g : Nat → α → α → α) (out : Array α) (i : Nat) : Array α :=
  out.setIfInBounds i (g i out[i]! out[ds[i]!]!)

def sweepDown (ds : Array Nat) (g : Nat → α → α → α) (seq : List Nat) (out : Array α) : Array α :=
  seq.foldl (stepDown ds g) out

/-- downstream-first order -/
inductive Topo (ds : Array Nat) : List Nat → Prop
  | nil : Topo ds []
  | snoc {pre : List Nat} {i : Nat} : Topo ds pre → i ∉ pre → (ds[i]! = i ∨ ds[i]! ∈ pre) →
      Topo ds (pre ++ [i])

@[simp] theorem size_stepDown (ds : Array Nat) (g : Nat → α → α → α) (out : Array α) (i : Nat) :
    (stepDown ds g out i).size = out.size := by
  simp [stepDown]

@[simp] theorem size_sweepDown (ds : Array Nat) (g : Nat → α → α → α) (seq : List Nat) (out : Array α) :
    (sweepDown ds g seq out).size = out.size := by
  induction seq generalizing out with
  | nil => rfl
  | cons i rest ih => simp only [sweepDown, List.foldl_cons] at *; rw [ih]; exact size_stepDown ..

theorem sweepDown_snoc (ds : Array Nat) (g : Nat → α → α → α) (pre : List Nat) (i : Nat) (out : Array α) :
    sweepDown ds g (pre ++ [i]) out = stepDown ds g (sweepDown ds g pre out) i := by
  simp [sweepDown, List.foldl_append]

/-- Generic theorem: if `F` satisfies the downstream recurrence, the sweep computes `F` on `seq`
and leaves all other cells untouched. -/
theorem sweepDown_spec (ds : Array Nat) (g : Nat → α → α → α) (init : Array α) (F : Nat → α)
    (seq : List Nat) (htopo : Topo ds seq) (hb : ∀ i ∈ seq, i < init.size)
    (hF : ∀ i ∈ seq, F i = g i init[i]! (if ds[i]! = i then init[i]! else F ds[i]!)) :
    (∀ i ∈ seq, (sweepDown ds g seq init)[i]! = F i) ∧
    (∀ i, i ∉ seq → (sweepDown ds g seq init)[i]! = init[i]!) := by
  induction htopo with
  | nil => simp [sweepDown]
  | @snoc pre i hpre hi hds ih =>
    have hb' : ∀ j ∈ pre, j < init.size := fun j hj => hb j (by simp [hj])
    have hF' : ∀ j ∈ pre, F j = g j init[j]! (if ds[j]! = j then init[j]! else F ds[j]!) :=
      fun j hj => hF j (by simp [hj])
    obtain ⟨ih1, ih2⟩ := ih hb' hF'
    have hisz : i < (sweepDown ds g pre init).size := by simp; exact hb i (by simp)
    rw [sweepDown_snoc]
    have hcur : (sweepDown ds g pre init)[i]! = init[i]! := ih2 i hi
    have hnew : g i (sweepDown ds g pre init)[i]! (sweepDown ds g pre init)[ds[i]!]! = F i := by
      rw [hF i (by simp), hcur]
      rcases hds with h | h
      · simp [h, hcur]
      · by_cases hp : ds[i]! = i
        · simp [hp, hcur]
        · simp [hp, ih1 _ h]
    constructor
    · intro j hj
      simp only [stepDown, get!_setIfInBounds]
      by_cases hij : i = j
      · subst hij
        rw [if_pos ⟨rfl, hisz⟩]; exact hnew
      · have : j ∈ pre := by simpa [Ne.symm hij] using hj
        simp [hij, ih1 j this]
    · intro j hj
      simp only [List.mem_append, List.mem_singleton, not_or] at hj
      simp only [stepDown, get!_setIfInBounds]
      have : ¬ (i = j) := fun h => hj.2 h.symm
      simp [this, ih2 j hj.1]



/-- one step of an up-to-downstream sweep: out[ds i] := upd i out[ds i] out[i]  (skipped at pits) -/
def stepUp (ds : Array Nat) (upd : Nat → α → α → α) (i : Nat) (out : Array α) : Array α :=
  if ds[i]! = i then out else out.setIfInBounds ds[i]! (upd i out[ds[i]!]! out[i]!)

/-- process `seq` from its last element to its first (the code's `for idx0 in seq[::-1]`) -/
def sweepUp (ds : Array Nat) (upd : Nat → α → α → α) (seq : List Nat) (out : Array α) : Array α :=
  seq.foldr (stepUp ds upd) out

/-- the inflowing cells of `j` among `seq`, in processing order (last of `seq` first) -/
def kids (ds : Array Nat) (seq : List Nat) (j : Nat) : List Nat :=
  seq.reverse.filter (fun c => ds[c]! == j && c != j)

theorem Topo.ds_mem {ds : Array Nat} {seq : List Nat} (h : Topo ds seq) :
    ∀ c ∈ seq, ds[c]! ∈ seq := by
  induction h with
  | nil => simp
  | @snoc pre i _ _ hds ih =>
    intro c hc
    simp only [List.mem_append, List.mem_singleton] at hc ⊢
    rcases hc with hc | hc
    · exact Or.inl (ih c hc)
    · subst hc
      rcases hds with h | h
      · exact Or.inr h
      · exact Or.inl h

theorem sweepUp_snoc (ds : Array Nat) (upd : Nat → α → α → α) (pre : List Nat) (i : Nat) (out : Array α) :
    sweepUp ds upd (pre ++ [i]) out = sweepUp ds upd pre (stepUp ds upd i out) := by
  simp [sweepUp, List.foldr_append]

theorem kids_snoc (ds : Array Nat) (pre : List Nat) (i j : Nat) :
    kids ds (pre ++ [i]) j =
      (if ds[i]! = j ∧ i ≠ j then [i] else []) ++ kids ds pre j := by
  simp only [kids, List.reverse_append, List.reverse_cons, List.reverse_nil, List.nil_append,
    List.singleton_append, List.filter_cons]
  by_cases h1 : ds[i]! = j <;> by_cases h2 : i = j <;> simp [h1, h2]

/-- Generic theorem: every cell ends with its initial value folded with the *final* values of
its inflowing cells, in processing order. -/
theorem sweepUp_spec (ds : Array Nat) (upd : Nat → α → α → α) (seq : List Nat)
    (htopo : Topo ds seq) :
    ∀ (out : Array α), (∀ i ∈ seq, i < out.size) → ∀ j,
      (sweepUp ds upd seq out)[j]! =
        (kids ds seq j).foldl (fun acc c => upd c acc (sweepUp ds upd seq out)[c]!) out[j]! := by
  induction htopo with
  | nil => intro out _ j; simp [sweepUp, kids]
  | @snoc pre i hpre hi hds ih =>
    intro out hb j
    have hdsmem := Topo.ds_mem hpre
    -- no cell of `pre` drains to `i`
    have hno : ∀ c ∈ pre, ds[c]! ≠ i := fun c hc h => hi (h ▸ hdsmem c hc)
    have hkids_i : kids ds pre i = [] := by
      simp only [kids, List.filter_eq_nil_iff, List.mem_reverse]
      intro c hc; simp [hno c hc]
    rw [sweepUp_snoc]
    obtain ⟨out', hout'⟩ : ∃ o, o = stepUp ds upd i out := ⟨_, rfl⟩
    rw [← hout']
    have hsz : out'.size = out.size := by
      simp only [hout', stepUp]; split <;> simp
    have hb' : ∀ k ∈ pre, k < out'.size := fun k hk => by rw [hsz]; exact hb k (by simp [hk])
    have ihj := ih out' hb'
    -- final value of i is its value in out
    have hfin_i : (sweepUp ds upd pre out')[i]! = out[i]! := by
      rw [ihj i, hkids_i]; simp only [List.foldl_nil, hout', stepUp]
      split
      · rfl
      · rename_i hne; rw [get!_setIfInBounds]; simp [hne]
    rw [ihj j, kids_snoc]
    by_cases hc : ds[i]! = j ∧ i ≠ j
    · obtain ⟨h1, h2⟩ := hc
      have hjsz : j < out.size := by
        rcases hds with h | h
        · exact absurd (h1 ▸ h) (Ne.symm h2)
        · exact hb j (by simp [← h1, h])
      have : out'[j]! = upd i out[j]! out[i]! := by
        simp only [hout', stepUp]
        have hne : ¬ ds[i]! = i := by rw [h1]; exact Ne.symm h2
        rw [if_neg hne, h1, get!_setIfInBounds]; simp [hjsz]
      simp only [h1, h2, ne_eq, not_false_eq_true, and_self, if_true, List.singleton_append,
        List.foldl_cons, hfin_i, this]
    · have : out'[j]! = out[j]! := by
        simp only [hout', stepUp]
        split
        · rfl
        · rename_i hne
          rw [get!_setIfInBounds]
          have : ¬ (ds[i]! = j ∧ ds[i]! < out.size) := by
            intro ⟨h, _⟩; exact hc ⟨h, fun hij => hne (hij ▸ h)⟩
          simp [this]
      simp only [hc, if_false, List.nil_append, this]


theorem Topo.ds_mem' {ds : Array Nat} {seq : List Nat} (h : Topo ds seq) :
    ∀ c ∈ seq, ds[c]! ∈ seq := by
  induction h with
  | nil => simp
  | @snoc pre i _ _ hds ih =>
    intro c hc
    simp only [List.mem_append, List.mem_singleton] at hc ⊢
    rcases hc with hc | hc
    · exact Or.inl (ih c hc)
    · subst hc
      rcases hds with h | h
      · exact Or.inr h
      · exact Or.inl h

/-- recurrence form: no spec function needed -/
theorem sweepDown_rec (ds : Array Nat) (g : Nat → α → α → α) (init : Array α)
    (seq : List Nat) (htopo : Topo ds seq) (hb : ∀ i ∈ seq, i < init.size) :
    (∀ i ∈ seq, (sweepDown ds g seq init)[i]! =
        g i init[i]! (if ds[i]! = i then init[i]! else (sweepDown ds g seq init)[ds[i]!]!)) ∧
    (∀ i, i ∉ seq → (sweepDown ds g seq init)[i]! = init[i]!) := by
  induction htopo with
  | nil => simp [sweepDown]
  | @snoc pre i hpre hi hds ih =>
    have hb' : ∀ j ∈ pre, j < init.size := fun j hj => hb j (by simp [hj])
    obtain ⟨ih1, ih2⟩ := ih hb'
    have hmem := Topo.ds_mem' hpre
    have hisz : i < (sweepDown ds g pre init).size := by simp; exact hb i (by simp)
    rw [sweepDown_snoc]
    have hcur : (sweepDown ds g pre init)[i]! = init[i]! := ih2 i hi
    -- reading any cell other than i after the last step gives the old value
    have hother : ∀ j, j ≠ i →
        (stepDown ds g (sweepDown ds g pre init) i)[j]! = (sweepDown ds g pre init)[j]! := by
      intro j hj
      simp only [stepDown, get!_setIfInBounds]
      have : ¬ (i = j) := fun h => hj h.symm
      simp [this]
    have hself : (stepDown ds g (sweepDown ds g pre init) i)[i]! =
        g i init[i]! (sweepDown ds g pre init)[ds[i]!]! := by
      rw [stepDown, get!_setIfInBounds, if_pos ⟨rfl, hisz⟩, hcur]
    constructor
    · intro j hj
      by_cases hij : j = i
      · subst hij
        rw [hself]
        by_cases hp : ds[j]! = j
        · simp [hp, hcur]
        · simp only [hp, if_false]; rw [hother _ hp]
      · have hjpre : j ∈ pre := by simpa [hij] using hj
        rw [hother j hij, ih1 j hjpre]
        by_cases hp : ds[j]! = j
        · simp [hp]
        · have : ds[j]! ≠ i := fun h => hi (h ▸ hmem j hjpre)
          simp only [hp, if_false]; rw [hother _ this]
    · intro j hj
      simp only [List.mem_append, List.mem_singleton, not_or] at hj
      rw [hother j hj.2, ih2 j hj.1]


/-- Induction along a downstream-first order: to prove `P` on every cell of `seq` it suffices to
prove it for a cell assuming it for its downstream cell (unless the cell is a pit). -/
theorem Topo.induction {ds : Array Nat} {seq : List Nat} (htopo : Topo ds seq) (P : Nat → Prop)
    (h : ∀ i ∈ seq, (ds[i]! ≠ i → ds[i]! ∈ seq ∧ P ds[i]!) → P i) : ∀ i ∈ seq, P i := by
  suffices hs : ∀ (pre : List Nat), Topo ds pre → (∀ i ∈ pre, i ∈ seq) → ∀ i ∈ pre, P i from
    hs seq htopo (fun _ h => h)
  intro pre hpre
  induction hpre with
  | nil => intro _ i hi; cases hi
  | @snoc pre i _ hi hds ih =>
    intro hsub j hj
    have ihp := ih (fun k hk => hsub k (by simp [hk]))
    simp only [List.mem_append, List.mem_singleton] at hj
    rcases hj with hj | hj
    · exact ihp j hj
    · subst hj
      refine h j (hsub j (by simp)) (fun hp => ?_)
      rcases hds with hd | hd
      · exact absurd hd hp
      · exact ⟨hsub _ (by simp [hd]), ihp _ hd⟩

theorem Topo.nodup {ds : Array Nat} {seq : List Nat} (h : Topo ds seq) : seq.Nodup := by
  induction h with
  | nil => exact List.nodup_nil
  | @snoc pre i _ hi _ ih =>
    rw [List.nodup_append]
    refine ⟨ih, by simp, ?_⟩
    intro a ha b hb
    simp only [List.mem_singleton] at hb
    subst hb
    exact fun h => hi (h ▸ ha)

end Pf
