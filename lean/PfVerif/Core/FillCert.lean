/-! Certificate theorem for depression filling (minimax spill level). Core Lean only. -/
namespace Pf
variable (nbr : Nat → Nat → Prop) (elev f : Nat → Int) (seed : Nat → Prop)

/-- highest input elevation on a (non-empty) path -/
def pmax (elev : Nat → Int) : List Nat → Int
  | [] => 0
  | [x] => elev x
  | x :: y :: r => max (elev x) (pmax elev (y :: r))

/-- `PathTo c p`: `p` is a neighbour path starting at `c` and ending at a seed (outlet) -/
inductive PathTo : Nat → List Nat → Prop
  | base (s : Nat) : seed s → PathTo s [s]
  | step (c d : Nat) (p : List Nat) : nbr c d → PathTo d p → PathTo c (c :: p)

theorem pmax_cons (x : Nat) (p : List Nat) (hp : p ≠ []) :
    pmax elev (x :: p) = max (elev x) (pmax elev p) := by
  cases p with
  | nil => exact absurd rfl hp
  | cons y r => rfl

theorem PathTo.ne_nil {c p} (h : PathTo nbr seed c p) : p ≠ [] := by
  cases h <;> simp

/-- (a) no path to an outlet stays below the filled level -/
theorem fill_lower
    (L1 : ∀ a b, nbr a b → f a ≤ max (elev a) (f b))
    (L2 : ∀ s, seed s → f s = elev s) :
    ∀ c p, PathTo nbr seed c p → f c ≤ pmax elev p := by
  intro c p h
  induction h with
  | base s hs => simp [pmax, L2 s hs]
  | step c d p hn hp ih =>
    rw [pmax_cons elev c p hp.ne_nil]
    have := L1 c d hn
    omega

/-- (b) the direction chain is a path whose highest input elevation is exactly the filled level -/
theorem fill_attained (ds : Nat → Nat) (rk : Nat → Nat)
    (L2 : ∀ s, seed s → f s = elev s)
    (L3 : ∀ c, ds c ≠ c → nbr c (ds c) ∧ f c = max (elev c) (f (ds c)) ∧ rk (ds c) < rk c)
    (L4 : ∀ c, ds c = c → seed c) :
    ∀ c, ∃ p, PathTo nbr seed c p ∧ pmax elev p = f c := by
  have key : ∀ k c, rk c = k → ∃ p, PathTo nbr seed c p ∧ pmax elev p = f c := by
    intro k
    induction k using Nat.strongRecOn with
    | _ k ih =>
      intro c hk
      by_cases hpit : ds c = c
      · exact ⟨[c], PathTo.base c (L4 c hpit), by simp [pmax, L2 c (L4 c hpit)]⟩
      · obtain ⟨hn, hf, hr⟩ := L3 c hpit
        obtain ⟨p, hp, hm⟩ := ih (rk (ds c)) (hk ▸ hr) (ds c) rfl
        refine ⟨c :: p, PathTo.step c (ds c) p hn hp, ?_⟩
        rw [pmax_cons elev c p hp.ne_nil, hm, hf]
  exact fun c => key (rk c) c rfl

end Pf
