"""Replace the seeded-change table of DESIGN.md (section 9) by the output of seedtable.py."""
import os, re, subprocess, sys
VERIF = os.path.dirname(os.path.dirname(os.path.abspath(__file__)))
tab = subprocess.run([sys.executable, os.path.join(VERIF, "harness", "seedtable.py")], stdout=subprocess.PIPE, check=True).stdout.decode().rstrip("\n")
p = os.path.join(VERIF, "DESIGN.md")
lines = open(p).read().split("\n")
start = next(i for i, l in enumerate(lines) if l.startswith("| id | site | change"))
end = start
while end < len(lines) and lines[end].startswith("|"):
    end += 1
lines[start:end] = tab.split("\n")
open(p, "w").write("\n".join(lines))
print(f"table rows: {len(tab.splitlines()) - 2}")
