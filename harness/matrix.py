"""Run catalogue tasks in worker processes (harness/worker.py) under a chosen execution mode."""
import json
import os
import subprocess
import sys
import tempfile

HERE = os.path.dirname(os.path.abspath(__file__))


def gen_tasks(rng, n_worlds, tier, ops=None, per_world=None, dtypes=None):
    import catalogue
    tasks = []
    names = sorted(catalogue.OPS) if ops is None else ops
    for wi in range(n_worlds):
        w = catalogue.gen_world(rng, tier)
        cand = [o for o in names if w["cls"] in catalogue.OPS[o]["classes"] and (not w.get("loops") or o in catalogue.LOOP_SAFE)]
        chosen = cand if per_world is None else rng.sample(cand, min(per_world, len(cand)))
        for o in chosen:
            seen = []
            for vi in range(catalogue.OPS[o].get("variants", 1)):
                args = catalogue.OPS[o]["gen"](rng, w)
                if args in seen:
                    continue
                seen.append(args)
                for dt in (dtypes or [None]):
                    t = {"id": f"w{wi}.{o}" + (f".v{vi}" if vi else "") + (f".{dt}" if dt else ""), "world": w, "op": o, "args": args,
                         "group": catalogue.OPS[o]["group"]}
                    if dt:
                        t["dtype"] = dt
                    tasks.append(t)
    return tasks


def run_workers(tasks, mode, env_extra=None, nproc=8, group_key=None, timeout=1500):
    """returns dict id -> result; a crashed / hung worker yields {"status": "worker-died"} for its tasks"""
    if not tasks:
        return {}
    chunks = {}
    if group_key:
        keys = sorted({t[group_key] for t in tasks})
        for t in tasks:
            chunks.setdefault(keys.index(t[group_key]) % nproc, []).append(t)
    else:
        for i, t in enumerate(tasks):
            chunks.setdefault(i % nproc, []).append(t)
    env = dict(os.environ)
    env.pop("NUMBA_DISABLE_JIT", None)
    env.update(env_extra or {})
    procs = []
    tmp = tempfile.mkdtemp(prefix="pfworker_")
    try:
        for k, ch in chunks.items():
            fin, fout = os.path.join(tmp, f"in{k}.json"), os.path.join(tmp, f"out{k}.json")
            json.dump(ch, open(fin, "w"))
            p = subprocess.Popen([sys.executable, os.path.join(HERE, "worker.py"), fin, fout, mode], env=env,
                                 stdout=subprocess.DEVNULL, stderr=subprocess.PIPE)
            procs.append((p, ch, fout))
        res = {}
        for p, ch, fout in procs:
            try:
                _, err = p.communicate(timeout=timeout)
            except subprocess.TimeoutExpired:
                p.kill()
                err = b"worker timeout"
            if os.path.exists(fout):
                res.update(json.load(open(fout)))
            for t in ch:
                if t["id"] not in res:
                    res[t["id"]] = {"status": "worker-died", "msg": err.decode(errors="replace")[-300:]}
        return res
    finally:
        for f in os.listdir(tmp):
            os.remove(os.path.join(tmp, f))
        os.rmdir(tmp)
