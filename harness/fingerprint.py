"""Source fingerprints: one hash per function / method of /repo/pyflwdir (AST without docstrings), compared
with `harness/fingerprints.json` (recorded for the tree the models and theorems were last validated against).

A difference is NOT a violation (a harmless rewrite changes the hash too). It only tells the check that the code
a property depends on is not the code the correspondence was last explored on, so the check spends a larger
case budget (`ctx.escalate`) and switches the exhaustive universes on - "when the tie may be loose, look harder".

  python3 harness/fingerprint.py            # show what differs from the record
  python3 harness/fingerprint.py --write    # record the current tree (after a reviewed change to /repo)
"""
import ast, hashlib, json, os, re, sys

HERE = os.path.dirname(os.path.abspath(__file__))
VERIF = os.path.dirname(HERE)
REPO = os.environ.get("PYFLWDIR_REPO", "/repo")
REC = os.path.join(HERE, "fingerprints.json")
SHARED_ALL = {"core.py"}                      # a change here concerns every property
WRAPPERS = {"flwdir.py", "pyflwdir.py"}       # methods: concern the properties whose harness calls them
ALWAYS = re.compile(r"^(_|__init__|set_transform|add_pits|repair_loops|order_cells|from_array|from_dem|load|dump)")


def _strip_doc(node):
    for n in ast.walk(node):
        if isinstance(n, (ast.FunctionDef, ast.ClassDef, ast.Module, ast.AsyncFunctionDef)):
            b = n.body
            if b and isinstance(b[0], ast.Expr) and isinstance(getattr(b[0], "value", None), ast.Constant) \
                    and isinstance(b[0].value.value, str):
                n.body = b[1:] or [ast.Pass()]
    return node


def current(repo=None):
    repo = repo or REPO
    out = {}
    d = os.path.join(repo, "pyflwdir")
    for f in sorted(os.listdir(d)):
        if not f.endswith(".py"):
            continue
        try:
            tree = ast.parse(open(os.path.join(d, f)).read())
        except SyntaxError:
            out[f] = {"<syntax error>": "x"}
            continue
        fns = {}
        top = []
        for node in tree.body:
            if isinstance(node, (ast.FunctionDef, ast.AsyncFunctionDef)):
                fns[node.name] = hashlib.sha1(ast.unparse(_strip_doc(node)).encode()).hexdigest()[:16]
            elif isinstance(node, ast.ClassDef):
                for m in node.body:
                    if isinstance(m, (ast.FunctionDef, ast.AsyncFunctionDef)):
                        fns[f"{node.name}.{m.name}"] = hashlib.sha1(ast.unparse(_strip_doc(m)).encode()).hexdigest()[:16]
                    else:
                        top.append(ast.unparse(m))
            else:
                top.append(ast.unparse(_strip_doc(node)))
        fns["<module level>"] = hashlib.sha1("\n".join(top).encode()).hexdigest()[:16]
        out[f] = fns
    return out


def diff(repo=None):
    """[(file, function)] that differ from the record (added / removed / changed)."""
    if not os.path.exists(REC):
        return []
    rec = json.load(open(REC))
    cur = current(repo)
    ch = []
    for f in sorted(set(rec) | set(cur)):
        a, b = rec.get(f, {}), cur.get(f, {})
        for k in sorted(set(a) | set(b)):
            if a.get(k) != b.get(k):
                ch.append((f, k))
    return ch


def changed_for(prop, repo=None):
    """the changed functions that concern property `prop` (anchor files of the property, core.py, and wrapper
    methods the property's harness mentions; private helpers / constructors / mutators concern everybody)"""
    ch = diff(repo)
    if not ch:
        return []
    anchors = set()
    for line in open(os.path.join(VERIF, "properties.jsonl")):
        p = json.loads(line)
        if p["id"] == prop:
            anchors = {os.path.basename(a) for a in p["anchors"]["files"]}
    text = ""
    pd = os.path.join(HERE, "props")
    for f in os.listdir(pd):
        if f.startswith(prop.lower()) and f.endswith(".py"):
            text += open(os.path.join(pd, f)).read()
    if prop in ("C07", "C13", "C16", "C12"):   # API-wide properties
        return [f"{f}:{k}" for f, k in ch]
    out = []
    for f, k in ch:
        name = k.split(".")[-1]
        if f in SHARED_ALL or (f in anchors and f not in WRAPPERS):
            out.append(f"{f}:{k}")
        elif f in WRAPPERS:
            if ALWAYS.match(name) or k == "<module level>" or re.search(r"\b" + re.escape(name) + r"\b", text):
                out.append(f"{f}:{k}")
        elif re.search(r"\b" + re.escape(name) + r"\b", text) or re.search(r"\b" + re.escape(f[:-3]) + r"\b", text):
            out.append(f"{f}:{k}")
    return out


if __name__ == "__main__":
    if "--write" in sys.argv:
        json.dump(current(), open(REC, "w"), indent=0, sort_keys=True)
        print("recorded", sum(len(v) for v in current().values()), "fingerprints")
    else:
        for f, k in diff():
            print(f"{f}:{k}")
