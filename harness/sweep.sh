#!/bin/bash
# run every quick check for several seeds (default 0..4); prints one line per run; exit 1 if any run fails
cd "$(dirname "$0")/.." || exit 2
seeds=${SEEDS:-"0 1 2 3 4"}
props=${PROPS:-$(python3 -c "import json; print(' '.join(c['property_id'] for c in json.load(open('MANIFEST.json'))['checks']))")}
tier=${TIER:-quick}
fail=0
for s in $seeds; do
  for p in $props; do
    out=$(VERIF_SEED=$s timeout 1800 ./check $tier $p 2>&1); rc=$?
    line=$(echo "$out" | grep -v '^KNOWN-FINDING' | tail -1 | cut -c1-150)
    echo "seed=$s rc=$rc $line"
    [ $rc -ne 0 ] && fail=1 && echo "$out" | grep -E "VIOLATION|BROKEN" | head -3
  done
done
exit $fail
