"""Translator, fragment 3 (tie 1 widened to `while`-loop trace kernels): -> Generated/Traces.lean (namespace Pf.Generated.Tr).

Reuses the expression translator of fragment 2 (`extract_fn.SwTr`) and its helpers; nothing of extract_fn is edited.

function body =  initialisations ; exactly ONE `while <cond>:` (or `while True:`) ; `return`
  initialisations  `x = <scalar expression>`, `lst = []`, `lst.append(e)` (e index-typed); straight-line, a re-binding
                   keeps the type
  loop body        `x = e` / `x op= e`: a name bound BEFORE the loop (parameter or local; scalar) is a LOOP-CARRIED
                   variable (type fixed), any other name is local to one iteration (reading it before it is bound in
                   the same iteration is refused); `lst.append(e)` on a list created by the initialisations;
                   `if / elif / else`, `break`, `continue`, `pass`; scalar reads `a[i]`
  return           a name / tuple of scalar expressions, list names, `np.array(lst, dtype=…)` (= the list)
  types            those of fragment 2 (nat, int, bool, Array Int, Array Nat, Option (Array Bool)) plus
                   len   - a length: `Int` scaled by the harness' common denominator. Float literals are lengths:
                           `0.0` -> 0, `1.0` -> the explicit parameter `one'` (the scaled unit), integral `k.0` ->
                           k * one'; only `+ -` and comparisons between lengths (a product would change the scale)
                   optn / optl - `Option Nat` / `Option Int` (optional index / optional length, `x=None` defaults)
                   lstn  - `List Nat` (append = `++ [x]`)
                   opaque - a value that is only handed on to an external call (type variable `Opaque`)
  optional values  `x is None` / `x is not None`; the VALUE of an optional (`mask[i]`, `max_length`, `ncol`) may only be
                   used where a test `x is not None` dominates it (later operand of the same `and`, later operand of an
                   `or` after `x is None`, body of an `if`, body of the loop) - otherwise refused
  external calls   `<module>.<f>(args)` listed in the kernel's `externals` (the module name must be bound at module level
                   and not shadowed) become an explicit FUNCTION PARAMETER `<module>_<f>` of the generated defs, typed by
                   the argument expressions (assumption: the callee is a pure total function of its arguments)

The loop becomes a structural recursion on an explicit fuel argument over the loop-carried variables:

    def <name>_loop <fixed parameters> : Nat → <state…> → Option (<state tuple>)
      | 0, … => none                                    -- the fuel ran out (distinguishable from every result)
      | fuel'+1, <state…> => if <cond> then <body> else some (<state>)

`break` = `some (<state>)`, `continue` / end of the body = the recursive call with `fuel'`. One unit of fuel is used per
evaluation of the loop condition (the convention of the hand-written models, DESIGN 5.4). `<name>` = initialisations,
the loop with the caller's fuel, `return` mapped over the `Option`. Everything else is REFUSED with the marker
`def unsupported_<name> : Unit := ()` (the obligations about `Tr.<name>` then fail to build): `for`, nested loops,
`while … else`, `return` inside the loop, two loops, statements after the loop other than `return`, list reads, writes to
arrays, unlisted calls, int/float mixing, `*` `/` on lengths, non-integral float literals, truthiness, tuple targets, …
"""
import ast
import hashlib
import os
import sys

HERE = os.path.dirname(os.path.abspath(__file__))
sys.path.insert(0, HERE)
import extract_fn  # noqa: E402
from extract_fn import (ARITH, ARRI, ARRN, BOOL, CMP, INT, NAT, OPTB, SwTr, Unsupported, find_function, is_doc,  # noqa: E402
                        module_defs, numpy_aliases, sname, tuple_text, proj)

LEN, OPTN, OPTL, LSTN, OPAQUE = "len", "optn", "optl", "lstn", "opaque"
OPTIONALS = (OPTB, OPTN, OPTL)
SCALARS = (NAT, INT, BOOL, LEN)
WH_TYPES = {NAT: "Nat", INT: "Int", BOOL: "Bool", LEN: "Int", ARRI: "Array Int", ARRN: "Array Nat",
            OPTB: "Option (Array Bool)", OPTN: "Option Nat", OPTL: "Option Int", LSTN: "List Nat", OPAQUE: "Opaque"}
WH_RESERVED = {"optGetN", "optGetL", "optGetB", "Opaque"}

# (lean name, file under pyflwdir/, python function, kinds of the parameters (default: int), externals)
TRACES = [
    ("_trace", "core.py", "_trace",
     {"idx0": NAT, "idxs_nxt": ARRN, "ncol": OPTN, "mask": OPTB, "max_length": OPTL, "real_length": BOOL,
      "latlon": BOOL, "transform": OPAQUE, "mv": NAT},
     {("gis_utils", "distance"): LEN}),
]
WH_PRELUDE = """/-- `mask[i]` of an optional boolean array (only emitted where `mask is not None` dominates) -/
def optGetB (m : Option (Array Bool)) (i : Nat) : Bool :=
  match m with
  | none => false
  | some a => a[i]!
/-- value of an optional index (only emitted where `x is not None` dominates) -/
def optGetN (o : Option Nat) : Nat := o.getD 0
/-- value of an optional length (only emitted where `x is not None` dominates) -/
def optGetL (o : Option Int) : Int := o.getD 0
"""


def wh_type(t):
    if t in WH_TYPES:
        return WH_TYPES[t]
    if isinstance(t, tuple) and t[0] == "tuple":
        return " × ".join(wh_type(x) for x in t[1:])
    raise Unsupported(f"type {t!r}")


def wname(py):
    if py in WH_RESERVED:
        raise Unsupported(f"name `{py}` is reserved by the translator")
    return sname(py)


def is_none_test(n):
    """`x is None` -> (x, True), `x is not None` -> (x, False), else None"""
    if isinstance(n, ast.Compare) and len(n.ops) == 1 and isinstance(n.ops[0], (ast.Is, ast.IsNot)) \
            and isinstance(n.left, ast.Name) and isinstance(n.comparators[0], ast.Constant) \
            and n.comparators[0].value is None:
        return n.left.id, isinstance(n.ops[0], ast.Is)
    return None


def facts(n, truth):
    """names known to be not-None when the test `n` evaluates to `truth`"""
    t = is_none_test(n)
    if t is not None:
        return {t[0]} if t[1] != truth else set()
    if isinstance(n, ast.UnaryOp) and isinstance(n.op, ast.Not):
        return facts(n.operand, not truth)
    if isinstance(n, ast.BoolOp):
        sets = [facts(v, truth) for v in n.values]
        if isinstance(n.op, ast.And) == truth:      # all operands have that value
            return set().union(*sets)
        out = sets[0]
        for s in sets[1:]:
            out = out & s
        return out
    return set()


class WhTr(SwTr):
    def __init__(self, module_bound, np_names, externals):
        SwTr.__init__(self, module_bound, np_names)
        self.ext_decl = externals      # (module, function) -> result type
        self.ext_used = {}             # lean parameter name -> (argument types, result type)
        self.notnone = frozenset()
        self.uses_one = False

    def under(self, names):
        """context manager: the names are known not to be None"""
        tr = self

        class _C:
            def __enter__(self_c):
                self_c.old = tr.notnone
                tr.notnone = tr.notnone | frozenset(names)

            def __exit__(self_c, *a):
                tr.notnone = self_c.old
        return _C()

    def ex(self, n, env, want=None):
        if isinstance(n, ast.Constant) and isinstance(n.value, float):
            v = n.value
            if v != v or v in (float("inf"), float("-inf")) or v != int(v) or abs(v) > 2 ** 31:
                raise Unsupported(f"float literal {v!r} (only integral lengths are translated)")
            k = int(v)
            if k == 0:
                return "(0 : Int)", LEN
            self.uses_one = True
            return ("one'" if k == 1 else f"(({k} : Int) * one')"), LEN
        if isinstance(n, ast.Name):
            t = env.get(n.id)
            if n.id in env:
                wname(n.id)
            if t in (OPTN, OPTL):
                if n.id not in self.notnone:
                    raise Unsupported(f"value of the optional `{n.id}` used where `{n.id} is not None` is not established")
                return (f"(optGetN {wname(n.id)})", NAT) if t == OPTN else (f"(optGetL {wname(n.id)})", LEN)
            return SwTr.ex(self, n, env, want)
        if isinstance(n, ast.BinOp):
            a, ta, b, tb = self.pair(n.left, n.right, env)
            if LEN in (ta, tb):
                if ta != tb:
                    raise Unsupported(f"binary {type(n.op).__name__} mixes a length with {ta if tb == LEN else tb}")
                if not isinstance(n.op, (ast.Add, ast.Sub)):
                    raise Unsupported(f"{type(n.op).__name__} on lengths (would change the scale)")
                return f"({a} {ARITH[type(n.op)]} {b})", LEN
            return SwTr.ex(self, n, env, want)
        if isinstance(n, ast.Compare):
            t = is_none_test(n)
            if t is not None:
                x, isnone = t
                if env.get(x) not in OPTIONALS:
                    raise Unsupported("`is [not] None` on a name that is not an optional parameter")
                return f"({wname(x)}.{'isNone' if isnone else 'isSome'})", BOOL
            parts, left = [], n.left
            for op, right in zip(n.ops, n.comparators):
                if type(op) not in CMP:
                    raise Unsupported(f"comparison {type(op).__name__}")
                a, ta, b, tb = self.pair(left, right, env)
                if ta != tb:
                    raise Unsupported(f"comparison of {ta} with {tb}")
                if ta in (INT, NAT, LEN):
                    parts.append(f"decide ({a} {CMP[type(op)]} {b})")
                elif ta == BOOL and isinstance(op, (ast.Eq, ast.NotEq)):
                    parts.append(f"({a} == {b})" if isinstance(op, ast.Eq) else f"({a} != {b})")
                else:
                    raise Unsupported(f"comparison {type(op).__name__} on {ta}")
                left = right
            return ("(" + " && ".join(parts) + ")") if len(parts) > 1 else f"({parts[0]})", BOOL
        if isinstance(n, ast.BoolOp):
            isand = isinstance(n.op, ast.And)
            texts, known = [], set()
            for v in n.values:
                with self.under(known):
                    a, t = self.ex(v, env)
                if t != BOOL:
                    raise Unsupported("and/or on a non-boolean operand")
                texts.append(a)
                known |= facts(v, isand)       # the later operands are evaluated only if this one was `isand`
            return "(" + (" && " if isand else " || ").join(texts) + ")", BOOL
        if isinstance(n, ast.Subscript) and isinstance(n.value, ast.Name) and env.get(n.value.id) == OPTB:
            if n.value.id not in self.notnone:
                raise Unsupported(f"`{n.value.id}[…]` used where `{n.value.id} is not None` is not established")
            return SwTr.ex(self, n, env, want)
        if isinstance(n, ast.Call) and isinstance(n.func, ast.Attribute) and isinstance(n.func.value, ast.Name):
            mod, f = n.func.value.id, n.func.attr
            if (mod, f) not in self.ext_decl or mod in env or mod not in self.module_bound or n.keywords:
                raise Unsupported(f"call of `{mod}.{f}` (not a listed external / shadowed / keyword arguments)")
            args = [self.ex(x, env) for x in n.args]
            bad = [t for _, t in args if t not in SCALARS + (OPAQUE,)]
            if bad:
                raise Unsupported(f"argument of type {bad[0]} handed to the external `{mod}.{f}`")
            pname = f"{mod}_{f}"
            sig = ([t for _, t in args], self.ext_decl[(mod, f)])
            if self.ext_used.setdefault(pname, sig) != sig:
                raise Unsupported(f"`{mod}.{f}` is called with two different signatures")
            return "(" + pname + "".join(" " + a for a, _ in args) + ")", sig[1]
        return SwTr.ex(self, n, env, want)


def assigned_names(stmts):
    """names bound / appended to anywhere in the statements (order of first occurrence)"""
    out = []
    for s in stmts:
        for x in ast.walk(s):
            tg = []
            if isinstance(x, ast.Assign):
                tg = x.targets
            elif isinstance(x, (ast.AugAssign, ast.AnnAssign)):
                tg = [x.target]
            elif isinstance(x, ast.Call) and isinstance(x.func, ast.Attribute) and isinstance(x.func.value, ast.Name) \
                    and x.func.attr == "append":
                tg = [x.func.value]
            for t in tg:
                for y in ast.walk(t):
                    if isinstance(y, ast.Name) and y.id not in out:
                        out.append(y.id)
    return out


def append_call(s):
    """`lst.append(e)` statement -> (lst, e) or None"""
    if isinstance(s, ast.Expr) and isinstance(s.value, ast.Call) and isinstance(s.value.func, ast.Attribute) \
            and s.value.func.attr == "append" and isinstance(s.value.func.value, ast.Name) \
            and len(s.value.args) == 1 and not s.value.keywords:
        return s.value.func.value.id, s.value.args[0]
    return None


class Loop:
    """translation of one function"""

    def __init__(self, tr, lean_name):
        self.tr, self.lean_name = tr, lean_name
        self.state = []
        self.rec_head = ""

    def st_tuple(self):
        return tuple_text([wname(x) for x in self.state])

    def assign(self, s, env, carried_env, pad, in_loop):
        """Assign / AugAssign / append -> (lean `let` line, new env)"""
        ap = append_call(s)
        if ap is not None:
            lst, e = ap
            if env.get(lst) != LSTN:
                raise Unsupported(f"`{lst}.append` on something that is not a list created by the initialisations")
            v, t = self.tr.ex(e, env, want=NAT)
            if t != NAT:
                raise Unsupported(f"a {t} is appended to the index list `{lst}`")
            return f"{pad}let {wname(lst)} : List Nat := {wname(lst)} ++ [{v}]\n", env
        if isinstance(s, ast.Assign):
            if len(s.targets) != 1 or not isinstance(s.targets[0], ast.Name):
                raise Unsupported("assignment target (only plain names are assigned)")
            x, val = s.targets[0].id, s.value
        elif isinstance(s, ast.AugAssign):
            if not isinstance(s.target, ast.Name):
                raise Unsupported("augmented assignment target")
            if type(s.op) not in ARITH and not isinstance(s.op, (ast.FloorDiv, ast.Mod)):
                raise Unsupported(f"augmented assignment {type(s.op).__name__}")
            x = s.target.id
            val = ast.BinOp(left=ast.Name(id=x, ctx=ast.Load()), op=s.op, right=s.value)
        else:
            raise Unsupported(f"statement {type(s).__name__}")
        if isinstance(val, ast.List) and not val.elts and not in_loop:
            e, t = "[]", LSTN
        else:
            e, t = self.tr.ex(val, env, want=carried_env.get(x) if carried_env.get(x) in (NAT, INT) else None)
            if t not in SCALARS:
                raise Unsupported(f"`{x}` is bound to a non-scalar ({t})")
        if x in carried_env and carried_env[x] != t:
            raise Unsupported(f"`{x}` changes its type ({carried_env[x]} -> {t})")
        if x in env and env[x] != t:
            raise Unsupported(f"`{x}` changes its type ({env[x]} -> {t})")
        env2 = dict(env)
        env2[x] = t
        return f"{pad}let {wname(x)} : {wh_type(t)} := {e}\n", env2

    def body(self, stmts, env, env0, ind):
        pad = "  " * ind
        if not stmts:
            return pad + self.rec_head + "\n"
        s, rest = stmts[0], stmts[1:]
        if is_doc(s) or isinstance(s, ast.Pass):
            return self.body(rest, env, env0, ind)
        if isinstance(s, ast.Continue):
            return pad + self.rec_head + "\n"
        if isinstance(s, ast.Break):
            return f"{pad}some {('(' + self.st_tuple() + ')') if len(self.state) == 1 else self.st_tuple()}\n"
        if isinstance(s, ast.If):
            c, tc = self.tr.ex(s.test, env)
            if tc != BOOL:
                raise Unsupported("`if` on a non-boolean (truthiness is not translated)")
            with self.tr.under(facts(s.test, True)):
                a = self.body(list(s.body) + rest, env, env0, ind + 1)
            with self.tr.under(facts(s.test, False)):
                b = self.body(list(s.orelse) + rest, env, env0, ind + 1)
            return f"{pad}if {c} then\n{a}{pad}else\n{b}"
        if isinstance(s, (ast.Assign, ast.AugAssign)) or append_call(s) is not None:
            line, env2 = self.assign(s, env, env0, pad, True)
            return line + self.body(rest, env2, env0, ind)
        raise Unsupported(f"statement {type(s).__name__} inside the loop")


def translate_while(tree, file, lean_name, py_name, kinds, externals):
    """-> (lean text: `<name>_loop` and `<name>`, None) or (marker text, reason)"""
    try:
        fd = find_function(tree, py_name)
        a = fd.args
        if a.vararg or a.kwarg or a.kwonlyargs or a.posonlyargs:
            raise Unsupported("*args / **kwargs / keyword-only parameters")
        params = [x.arg for x in a.args]
        for k in kinds:
            if k not in params:
                raise Unsupported(f"parameter `{k}` (declared {kinds[k]}) is gone")
        for x in ast.walk(fd):
            if isinstance(x, (ast.Global, ast.Nonlocal, ast.Lambda, ast.FunctionDef, ast.NamedExpr, ast.AsyncFunctionDef,
                              ast.ClassDef, ast.Try, ast.With, ast.Yield, ast.YieldFrom, ast.Await, ast.Delete,
                              ast.Starred, ast.ListComp, ast.GeneratorExp)) and x is not fd:
                raise Unsupported(type(x).__name__)
        env = {p: kinds.get(p, INT) for p in params}
        bound, _ = module_defs(tree)
        tr = WhTr(bound, numpy_aliases(tree), externals)
        lp = Loop(tr, lean_name)
        stmts = [s for s in fd.body if not is_doc(s) and not isinstance(s, ast.Pass)]
        loops = [k for k, s in enumerate(stmts) if isinstance(s, (ast.While, ast.For, ast.AsyncFor))]
        if len(loops) != 1 or not isinstance(stmts[loops[0]], ast.While):
            raise Unsupported(f"{len(loops)} top-level loops / not a `while` (exactly one `while` is translated)")
        pre, loop, post = stmts[:loops[0]], stmts[loops[0]], stmts[loops[0] + 1:]
        if loop.orelse:
            raise Unsupported("`while … else`")
        for x in ast.walk(loop):
            if isinstance(x, (ast.For, ast.While, ast.AsyncFor)) and x is not loop:
                raise Unsupported("nested loop")
            if isinstance(x, ast.Return):
                raise Unsupported("`return` inside the loop")
        # ---- initialisations (straight line)
        lets, locals_ = "", []
        for s in pre:
            if isinstance(s, ast.Assign) and len(s.targets) == 1 and isinstance(s.targets[0], ast.Name) \
                    and s.targets[0].id in params:
                raise Unsupported(f"parameter `{s.targets[0].id}` is re-bound before the loop")
            if not (isinstance(s, ast.Assign) or append_call(s) is not None):
                raise Unsupported(f"statement {type(s).__name__} before the loop")
            line, env = lp.assign(s, env, {}, "  ", False)
            lets += line
            for x in assigned_names([s]):
                if x not in locals_ and x not in params:
                    locals_.append(x)
        # ---- loop-carried variables
        written = assigned_names(loop.body)
        lp.state = [x for x in params + locals_ if x in written]
        for x in lp.state:
            if env[x] not in SCALARS + (LSTN,):
                raise Unsupported(f"loop-carried `{x}` is of type {env[x]}")
        if not lp.state:
            raise Unsupported("the loop carries no variable")
        names = params + locals_ + [x for x in written if x not in env]
        if len(set(wname(p) for p in names)) != len(names):
            raise Unsupported("names collide")
        fixed = [x for x in params + locals_ if x not in lp.state]
        # ---- condition and body (the externals and `one'` are discovered while translating: two passes)
        def render_loop():
            ext = "".join(f" {p}" for p in tr.ext_used)
            one = " one'" if tr.uses_one else ""
            lp.rec_head = (f"{lean_name}_loop " + " ".join(wname(p) for p in fixed) + one + ext + " fuel' "
                           + " ".join(wname(x) for x in lp.state))
            if isinstance(loop.test, ast.Constant) and loop.test.value is True:
                cond, known = "true", set()
            else:
                cond, tc = tr.ex(loop.test, env)
                if tc != BOOL:
                    raise Unsupported("loop condition is not boolean (truthiness is not translated)")
                known = facts(loop.test, True)
            with tr.under(known):
                body = lp.body(list(loop.body), dict(env), dict(env), 3)
            return cond, body
        render_loop()
        cond, body = render_loop()
        # ---- return
        if len(post) != 1 or not isinstance(post[0], ast.Return) or post[0].value is None:
            raise Unsupported("the loop is not followed by exactly one `return <value>`")
        rv = post[0].value
        rets = []
        for e in (list(rv.elts) if isinstance(rv, ast.Tuple) else [rv]):
            if isinstance(e, ast.Call) and isinstance(e.func, ast.Attribute) and isinstance(e.func.value, ast.Name) \
                    and e.func.value.id in tr.np_names and e.func.value.id not in env and e.func.attr == "array" \
                    and len(e.args) == 1 and all(k.arg == "dtype" for k in e.keywords):
                e = e.args[0]
                if not (isinstance(e, ast.Name) and env.get(e.id) == LSTN):
                    raise Unsupported("np.array(…) of something that is not an index list")
            if isinstance(e, ast.Name) and env.get(e.id) == LSTN:
                rets.append((wname(e.id), LSTN))
            else:
                txt, t = tr.ex(e, env)
                if t not in SCALARS:
                    raise Unsupported("returned value")
                rets.append((txt, t))
        tres = rets[0][1] if len(rets) == 1 else ("tuple",) + tuple(t for _, t in rets)
        ret_text = tuple_text([x for x, _ in rets])
        # ---- emit
        opq = "{Opaque : Type} " if any(env[p] == OPAQUE for p in params) else ""
        extra_sig = (" (one' : Int)" if tr.uses_one else "") + "".join(
            f" ({p} : {' → '.join(wh_type(t) for t in ats + [rt])})" for p, (ats, rt) in tr.ext_used.items())
        extra_args = (" one'" if tr.uses_one else "") + "".join(f" {p}" for p in tr.ext_used)
        for p in tr.ext_used:
            if p in names:
                raise Unsupported(f"name `{p}` collides with an external")
        st_types = [wh_type(env[x]) for x in lp.state]
        st_t = " × ".join(st_types)
        sig_fixed = " ".join(f"({wname(p)} : {wh_type(env[p])})" for p in fixed)
        sig = " ".join(f"({wname(p)} : {wh_type(env[p])})" for p in params)
        n_st = len(lp.state)
        unpack = "".join(f"    let {wname(x)} : {wh_type(env[x])} := {proj(chr(115) + chr(116) + chr(39), n_st, k)}\n"
                         for k, x in enumerate(lp.state)) if n_st > 1 else \
            f"    let {wname(lp.state[0])} : {st_types[0]} := st'\n"
        some_st = ("(" + lp.st_tuple() + ")") if n_st == 1 else lp.st_tuple()
        sha = hashlib.sha1(ast.unparse(fd).encode()).hexdigest()[:12]
        text = (f"/-- the `while` loop of `{file[:-3]}.{py_name}`; loop-carried: {', '.join(lp.state)}; one unit of fuel per "
                f"evaluation of the condition, `none` = the fuel ran out -/\n"
                f"def {lean_name}_loop {opq}{sig_fixed}{extra_sig} : Nat → {' → '.join(st_types)} → Option ({st_t})\n"
                f"  | 0, {', '.join('_' for _ in lp.state)} => none\n"
                f"  | fuel'+1, {', '.join(wname(x) for x in lp.state)} =>\n"
                f"    if {cond} then\n{body}    else\n      some {some_st}\n\n"
                f"/-- `{file[:-3]}.{py_name}({', '.join(params)})` translated by harness/extract_while.py "
                f"(source sha1 {sha}); `none` = the loop did not end within `fuel'` evaluations of its condition -/\n"
                f"def {lean_name} {opq}{sig}{extra_sig} (fuel' : Nat) : Option ({wh_type(tres)}) :=\n{lets}"
                f"  ({lean_name}_loop {' '.join(wname(p) for p in fixed)}{extra_args} fuel' "
                f"{' '.join(wname(x) for x in lp.state)}).map fun st' =>\n{unpack}    {ret_text}\n")
        return text, None
    except Unsupported as e:
        reason = str(e).replace("-/", "- /")
        return (f"/-- `{file[:-3]}.{py_name}` is OUTSIDE the translated while-loop fragment: {reason} -/\n"
                f"def unsupported_{lean_name} : Unit := ()\n"), str(e)


def translate_while_source(src, file, specs):
    """specs: [(lean name, python name, kinds, externals)] -> (lean text, {lean name: reason or None})"""
    tree = ast.parse(src)
    out, status = [], {}
    for lean_name, py_name, kinds, externals in specs:
        text, reason = translate_while(tree, file, lean_name, py_name, kinds, externals)
        out.append(text)
        status[lean_name] = reason
    return "\n".join(out), status


def render_traces(repo=None):
    repo = repo or extract_fn.REPO
    out = ["/-! GENERATED by harness/extract_while.py from /repo - do not edit. `while`-loop kernels of the library translated",
           "statement by statement into a structural recursion on an explicit fuel argument over the loop-carried variables;",
           "lengths are `Int` (scaled, `one'` = the scaled unit), external calls are explicit function parameters. -/",
           "set_option linter.unusedVariables false", "namespace Pf.Generated.Tr", "", WH_PRELUDE]
    status = {}
    for lean_name, file, py_name, kinds, externals in TRACES:
        try:
            src = open(os.path.join(repo, "pyflwdir", file)).read()
            text, st = translate_while_source(src, file, [(lean_name, py_name, kinds, externals)])
        except (OSError, SyntaxError) as e:
            text = f"/-- `{file}` could not be parsed: {type(e).__name__} -/\ndef unsupported_{lean_name} : Unit := ()\n"
            st = {lean_name: f"{type(e).__name__}"}
        out.append(text)
        status.update(st)
    out.append("end Pf.Generated.Tr")
    return "\n".join(out) + "\n", status


def generate(gen_dir, write_if_changed):
    text, _ = render_traces()
    return bool(write_if_changed(os.path.join(gen_dir, "Traces.lean"), text))


if __name__ == "__main__":
    text, status = render_traces()
    gen = os.path.join(extract_fn.LEAN_DIR, "PfVerif", "Generated", "Traces.lean")
    old = open(gen).read() if os.path.exists(gen) else None
    if old != text:
        open(gen, "w").write(text)
    for k, v in status.items():
        print(f"extract_while: {k}: " + ("translated" if v is None else "REFUSED - " + v))
