"""Render DESIGN.md section 8 tables (fixed / open findings) from known_findings.json and splice them
between the markers <!-- findings:fixed --> … <!-- /findings:fixed --> and <!-- findings:open --> … ."""
import json, os, re, sys
VERIF = os.path.dirname(os.path.dirname(os.path.abspath(__file__)))
d = json.load(open(os.path.join(VERIF, "known_findings.json")))
fixed = [f for f in d["findings"] if f["status"] == "fixed"]
opened = [f for f in d["findings"] if f["status"] == "open"]
ft = [f"({len(fixed)} `fix:` commits)", "", "| id | property | commit | what failed |", "|----|----------|--------|-------------|"]
ft += [f"| {f['id']} | {f['property']} | {f['commit']} | {f['what'].replace('|', '/')} |" for f in fixed]
groups = {}
for f in opened:
    groups.setdefault(f["id"], []).append(f)
ot = []
for fid, fs in groups.items():
    sigs = ", ".join(f"`{f['signature']}`" for f in fs)
    ot.append(f"* **{fid}** ({fs[0]['property']}; signature(s) {sigs}): {fs[0]['what']}")
p = os.path.join(VERIF, "DESIGN.md")
s = open(p).read()
for name, body in (("fixed", "\n".join(ft)), ("open", "\n".join(ot))):
    pat = re.compile(rf"(<!-- findings:{name} -->\n).*?(<!-- /findings:{name} -->)", re.S)
    if not pat.search(s):
        sys.exit(f"marker findings:{name} missing in DESIGN.md")
    s = pat.sub(lambda m: m.group(1) + body + "\n" + m.group(2), s)
open(p, "w").write(s)
print(len(fixed), "fixed,", len(groups), "open groups")
