"""Evaluate one seeded change: seedrun.py <dir with patch.diff demo.py meta.json> [--props C01,C05] [--tier quick]

Applies the patch to a scratch worktree of /repo (outside /repo and /verif), confirms that the
existing test suite still passes and that the demonstration fails with / passes without the change,
runs the registered check(s) against the patched tree (PYFLWDIR_REPO=<scratch>), removes the
worktree and restores the committed evidence files. Prints a JSON summary."""
import json
import os
import shutil
import subprocess
import sys
import tempfile
import time

VERIF = os.path.dirname(os.path.dirname(os.path.abspath(__file__)))


def sh(cmd, cwd=None, env=None, timeout=3600):
    p = subprocess.run(cmd, cwd=cwd, env=env, stdout=subprocess.PIPE, stderr=subprocess.STDOUT, timeout=timeout)
    return p.returncode, p.stdout.decode(errors="replace")


def main():
    d = os.path.abspath(sys.argv[1])
    meta = json.load(open(os.path.join(d, "meta.json")))
    props = [meta["property"]]
    tier = "quick"
    if "--props" in sys.argv:
        props = sys.argv[sys.argv.index("--props") + 1].split(",")
    if "--tier" in sys.argv:
        tier = sys.argv[sys.argv.index("--tier") + 1]
    seed = os.environ.get("VERIF_SEED", "0")
    scratch = tempfile.mkdtemp(prefix="pfseed_")
    os.rmdir(scratch)
    out = {"dir": os.path.relpath(d, VERIF), "property": meta["property"], "summary": meta.get("summary")}
    try:
        rc, o = sh(["git", "-C", "/repo", "worktree", "add", "--detach", "-q", scratch, "HEAD"])
        assert rc == 0, o
        rc, o = sh(["git", "apply", os.path.join(d, "patch.diff")], cwd=scratch)
        out["patch_applies"] = rc == 0
        if rc != 0:
            out["error"] = o[-400:]
            return out
        if "--skip-tests" not in sys.argv:
            rc, o = sh(["/venv/bin/python", "-m", "pytest", "-q", "-p", "no:cacheprovider", "-x"], cwd=scratch)
            out["tests"] = o.strip().splitlines()[-1] if o.strip() else ""
            out["tests_pass"] = rc == 0
        os.makedirs(os.path.join(scratch, "seed_out"), exist_ok=True)
        shutil.copy(os.path.join(d, "demo.py"), os.path.join(scratch, "seed_out", "demo.py"))
        env = dict(os.environ, NUMBA_DISABLE_JIT="1")
        rc, o = sh(["/venv/bin/python", "seed_out/demo.py"], cwd=scratch, env=env, timeout=900)
        out["demo_with_change"] = rc
        with tempfile.TemporaryDirectory() as clean:
            os.rmdir(clean)
            sh(["git", "-C", "/repo", "worktree", "add", "--detach", "-q", clean, "HEAD"])
            os.makedirs(os.path.join(clean, "seed_out"), exist_ok=True)
            shutil.copy(os.path.join(d, "demo.py"), os.path.join(clean, "seed_out", "demo.py"))
            rc, o = sh(["/venv/bin/python", "seed_out/demo.py"], cwd=clean, env=env, timeout=900)
            out["demo_clean"] = rc
            sh(["git", "-C", "/repo", "worktree", "remove", "--force", clean])
            os.makedirs(clean, exist_ok=True)
        out["checks"] = {}
        evbak = tempfile.mkdtemp(prefix="evbak")
        for f in os.listdir(os.path.join(VERIF, "evidence")):
            shutil.copy(os.path.join(VERIF, "evidence", f), evbak)
        out["_evbak"] = evbak
        for p in props:
            t0 = time.time()
            env = dict(os.environ, PYFLWDIR_REPO=scratch, VERIF_SEED=seed)
            rc, o = sh([os.path.join(VERIF, "check"), tier, p], cwd=VERIF, env=env, timeout=7200)
            vio = [l for l in o.splitlines() if l.startswith("VIOLATION")]
            rep = None
            if vio and "replay=" in vio[0]:
                rp = vio[0].split("replay=")[1].split()[0]
                try:
                    body = json.load(open(os.path.join(VERIF, rp)))
                    rep = {"kind": body.get("kind"), "what": (body.get("failure") or {}).get("what", "")[:300],
                           "broken_theorems": body.get("broken_theorems")}
                except Exception:  # noqa: BLE001
                    pass
            out["checks"][p] = {"exit": rc, "violation": vio[:1], "replay": rep, "wall_s": round(time.time() - t0, 1),
                                "tail": o.strip().splitlines()[-1][:200] if o.strip() else ""}
        return out
    finally:
        sh(["git", "-C", "/repo", "worktree", "remove", "--force", scratch])
        shutil.rmtree(scratch, ignore_errors=True)
        sh(["git", "-C", "/repo", "worktree", "prune"])
        evbak = out.pop("_evbak", None)
        if evbak:  # evidence of the unchanged tree as it was before this run (not necessarily committed)
            for f in os.listdir(evbak):
                shutil.copy(os.path.join(evbak, f), os.path.join(VERIF, "evidence", f))
            shutil.rmtree(evbak, ignore_errors=True)
        # Generated tables were regenerated from the patched tree: regenerate from /repo
        sh(["/venv/bin/python", os.path.join(VERIF, "harness", "extract.py")])


if __name__ == "__main__":
    res = main()
    print(json.dumps(res, indent=1))
