"""./check <quick|thorough> <Cxx> [--replay file]

exit 0: property held on everything explored; exit 1: VIOLATION line printed; exit 2: the check
itself is broken (toolchain, harness crash) - never a VIOLATION.
"""
import importlib
import json
import os
import re
import subprocess
import sys
import time
import traceback

HERE = os.path.dirname(os.path.abspath(__file__))
VERIF = os.environ.get("PF_VERIF") or os.path.dirname(HERE)
sys.path.insert(0, HERE)
LEAN_DIR = os.environ.get("PF_LEAN_DIR") or os.path.join(VERIF, "lean")
ALLOWED_AXIOMS = {"propext", "Classical.choice", "Quot.sound"}
FORBIDDEN = re.compile(r"\bsorry\b|\badmit\b|^axiom |native_decide|bv_decide|implemented_by|unsafe |maxHeartbeats 0")



def load_level(prop):
    p = os.path.join(HERE, "levels", prop + ".json")
    return json.load(open(p)) if os.path.exists(p) else {"level": "proof"}


def sh(cmd, cwd=None, timeout=3600):
    p = subprocess.run(cmd, cwd=cwd, stdout=subprocess.PIPE, stderr=subprocess.STDOUT, timeout=timeout)
    return p.returncode, p.stdout.decode(errors="replace")


def strip_comments(src):
    src = re.sub(r"/-.*?-/", lambda m: "\n" * m.group(0).count("\n"), src, flags=re.S)
    return "\n".join(l.split("--")[0] for l in src.split("\n"))


def lean_closure(module):
    """project-local import closure of a module (files under lean/)"""
    seen, todo = [], [module]
    while todo:
        m = todo.pop()
        if m in seen:
            continue
        f = os.path.join(LEAN_DIR, *m.split(".")) + ".lean"
        if not os.path.exists(f):
            continue
        seen.append(m)
        for l in open(f):
            mm = re.match(r"\s*import\s+(\S+)", l)
            if mm and (mm.group(1).startswith("PfVerif") or mm.group(1).startswith("Driver")):
                todo.append(mm.group(1))
    return seen


def theorems_of(module):
    f = os.path.join(LEAN_DIR, *module.split(".")) + ".lean"
    src = strip_comments(open(f).read())
    ns = []
    names = []
    for l in src.split("\n"):
        m = re.match(r"\s*namespace\s+(\S+)", l)
        if m:
            ns.append(m.group(1))
        m = re.match(r"\s*end\s+(\S+)", l)
        if m and ns and ns[-1] == m.group(1):
            ns.pop()
        m = re.match(r"\s*(?:private\s+|protected\s+)?theorem\s+(\S+)", l)
        if m:
            names.append(".".join(ns + [m.group(1)]))
    return names


def refused_by_translator(module):
    """functions of /repo the translators (extract_fn.py, extract_while.py) REFUSED on this run - their text lies outside the
    translated fragment - in a Generated file the module imports (marker `def unsupported_<name>`)"""
    out = []
    for m in lean_closure(module):
        if m.startswith("PfVerif.Generated."):
            f = os.path.join(LEAN_DIR, *m.split(".")) + ".lean"
            out += re.findall(r"^def unsupported_(\w+)", open(f).read(), re.M)
    return sorted(set(out))


# extension modules whose translator tie does not apply to the code as it is written on this run: {module: [functions]}
TIE_NOT_APPLICABLE = {}


def prop_modules(prop):
    """Props/Cxx.lean plus extension files Props/Cxx_<name>.lean.

    An extension module of the TRANSLATOR tie (C01_fn, C04_fn, C08_fn, C11_fn) states `generated definition = model` about
    functions translated from /repo. If a function's text lies outside the fragment the translator understands (a rewrite with
    a helper, an index loop, two passes ...) there is no generated definition to state the obligation about: the translator tie
    is then NOT APPLICABLE to that module on this run and the functions stay tied to their models the way every other kernel
    is - by the correspondence check of the property's own harness. That is recorded (evidence, NOTE line), not reported as a
    violation: the first version did report `no-failing-input-found` and so raised an alarm on six of 44 harmless rewrites. A
    function that IS translated and whose obligation fails still breaks the build and is searched / reported as before."""
    d = os.path.join(LEAN_DIR, "PfVerif", "Props")
    names = sorted(f[:-5] for f in os.listdir(d) if f == prop + ".lean" or (f.startswith(prop + "_") and f.endswith(".lean")))
    keep = []
    for n in names:
        m = "PfVerif.Props." + n
        r = refused_by_translator(m) if n != prop else []
        if r:
            TIE_NOT_APPLICABLE[m] = r
        else:
            keep.append(m)
    return keep


def audit(prop, build_ok):
    """returns (obligations, discharged, problems, axioms_used)"""
    mods = prop_modules(prop)
    thms = [t for m in mods for t in theorems_of(m)]
    problems = []
    closure = []
    for m0 in mods:
        for m in lean_closure(m0):
            if m not in closure:
                closure.append(m)
    for m in closure:
        f = os.path.join(LEAN_DIR, *m.split(".")) + ".lean"
        src = strip_comments(open(f).read())
        for i, l in enumerate(src.split("\n")):
            if FORBIDDEN.search(l):
                problems.append(f"forbidden construct in {m}:{i+1}: {l.strip()[:80]}")
    if not build_ok:
        return len(thms), 0, problems, {}
    tmp = os.path.join(LEAN_DIR, f".audit_{prop}.lean")
    with open(tmp, "w") as fh:
        for m in mods:
            fh.write(f"import {m}\n")
        for t in thms:
            fh.write(f"#print axioms {t}\n")
    rc, out = sh(["lake", "env", "lean", tmp], cwd=LEAN_DIR)
    os.remove(tmp)
    used = {}
    cur = None
    # output: 'Thm' depends on axioms: [a, b]   |   'Thm' does not depend on any axioms
    for m in re.finditer(r"'(\S+?)' (does not depend on any axioms|depends on axioms: \[([^\]]*)\])", out.replace("\n", " ")):
        name = m.group(1)
        axs = [a.strip() for a in (m.group(3) or "").split(",") if a.strip()]
        used[name] = axs
    discharged = 0
    for t in thms:
        if t not in used:
            problems.append(f"axiom audit: no report for {t}")
            continue
        bad = [a for a in used[t] if a not in ALLOWED_AXIOMS]
        if bad:
            problems.append(f"axiom audit: {t} depends on {bad}")
        else:
            discharged += 1
    if rc != 0 and not used:
        problems.append("axiom audit failed to run: " + out[-300:])
    return len(thms), discharged, problems, used


def failing_theorems(prop, out):
    """map lake error lines to theorem names where possible"""
    names = set()
    for m in re.finditer(r"(PfVerif/[\w/]+\.lean):(\d+):\d+:(?= error)|error: (PfVerif/[\w/]+\.lean):(\d+):\d+", out):
        rel = m.group(1) or m.group(3)
        f = os.path.join(LEAN_DIR, rel)
        line = int(m.group(2) or m.group(4))
        try:
            lines = open(f).read().split("\n")
        except OSError:
            continue
        name = None
        for i in range(min(line, len(lines)) - 1, -1, -1):
            mm = re.match(r"\s*(?:theorem|def|example|instance)\s*(\S*)", lines[i])
            if mm:
                name = mm.group(1) or "example"
                break
        names.add(f"{rel}:{name}")
    return sorted(names)


def main():
    t0 = time.time()
    if len(sys.argv) < 3:
        print(__doc__)
        sys.exit(2)
    tier, prop = sys.argv[1], sys.argv[2]
    replay = None
    if "--replay" in sys.argv:
        replay = sys.argv[sys.argv.index("--replay") + 1]
    seed = int(os.environ.get("VERIF_SEED", "0") or 0)
    os.environ["VERIF_TIER"] = tier
    os.makedirs(os.path.join(VERIF, "evidence"), exist_ok=True)
    os.makedirs(os.path.join(VERIF, "replays"), exist_ok=True)

    # 1. regenerate tables / protocol from /repo's working tree
    rc, out = sh([sys.executable, os.path.join(HERE, "extract.py")])
    extract_note = out.strip()[-500:]
    if rc != 0:
        print("BROKEN: extract.py failed\n" + out[-2000:])
        sys.exit(2)

    # 2. build driver (must succeed) and the property's theorems
    rc, out = sh([sys.executable, os.path.join(HERE, "genops.py")])
    rc, out = sh(["lake", "build", "pfdriver"], cwd=LEAN_DIR)
    if rc != 0:
        print("BROKEN: model driver does not build\n" + out[-3000:])
        sys.exit(2)
    rc, out = sh(["lake", "build"] + prop_modules(prop), cwd=LEAN_DIR)
    build_ok = rc == 0
    broken_thms = [] if build_ok else failing_theorems(prop, out)
    build_tail = "" if build_ok else out[-3000:]
    if tier == "thorough" and build_ok:
        mods = []
        for m0 in prop_modules(prop):
            for m in lean_closure(m0):
                if m not in mods:
                    mods.append(m)
        rc2, out2 = sh(["lake", "env", "leanchecker"] + mods, cwd=LEAN_DIR, timeout=3600)
        leanchecker = {"rc": rc2, "tail": out2[-300:], "modules": len(mods)}
        if rc2 != 0:
            print("BROKEN: leanchecker rejected compiled modules\n" + out2[-2000:])
            sys.exit(2)
    else:
        leanchecker = None

    obligations, discharged, problems, axioms = audit(prop, build_ok)
    if problems:
        print("BROKEN: audit problems:\n  " + "\n  ".join(problems))
        sys.exit(2)

    for _m, _r in sorted(TIE_NOT_APPLICABLE.items()):
        print(f"NOTE: translator tie not applicable on this run for {_m}: {', '.join(_r)} outside the translated fragment "
              f"(tied by the correspondence check only)")
    # 3. correspondence + spec predicates on the implementation
    from common import Ctx, load_known_findings, DriverError
    ctx = Ctx(prop, tier, seed)
    ctx.escalate = 1 if build_ok else 10
    # source fingerprints: code this property depends on differs from the tree the correspondence was last
    # explored on -> not a violation, but look harder (larger budget, exhaustive universes)
    import fingerprint
    from common import REPO as _REPO
    src_changed = fingerprint.changed_for(prop, _REPO)
    if src_changed and ctx.escalate == 1 and os.environ.get("PF_NO_FINGERPRINT") != "1":
        ctx.escalate = 4 if tier == "quick" else 2
    if os.environ.get("PF_ESCALATE"):   # testing aid: the escalated budget on an unchanged tree (false-alarm sweeps)
        ctx.escalate = max(ctx.escalate, int(os.environ["PF_ESCALATE"]))
    ctx.replay = json.load(open(replay)) if replay else None
    import signal
    from common import Hang

    def _on_alarm(*_):
        raise Hang()
    signal.signal(signal.SIGALRM, _on_alarm)
    # a call of the implementation that sends no heartbeat for this long is a termination failure; the longest legitimate
    # gap in the quick tier is a few seconds (one interpreted kernel call on <= 50 000 cells), so 120 s (240 s escalated) is
    # generous - with 300 s x 3 a change that made one call hang cost 15 minutes before it was reported (seed C06-19)
    ctx.watchdog = int(os.environ.get("PF_WATCHDOG", "120" if tier == "quick" else "1200")) * (1 if ctx.escalate == 1 else 2)
    ctx.beat()
    try:
        mod = importlib.import_module(f"props.{prop.lower()}")
        if prop not in ("C07", "C13", "C16"):   # these run the API in worker processes with their own argument handling
            import common as _c
            _c.install_aux_validation()    # before the layout wrappers: those wrap whatever is installed
            _c.install_layout_variation()
        mod.run(ctx)
        ctx.flush()
        ext_dir = os.path.join(HERE, "props")
        for f in sorted(os.listdir(ext_dir)):
            if f.startswith(prop.lower() + "_") and f.endswith(".py"):
                if ("PfVerif.Props." + prop + f[len(prop):-3]) in TIE_NOT_APPLICABLE:
                    continue    # its generated definitions do not exist on this run; the base harness still compares the kernels
                ext = importlib.import_module("props." + f[:-3])
                ext.run(ctx)
                ctx.flush()
    except DriverError as e:
        signal.alarm(0)
        print(f"BROKEN: {e}")
        sys.exit(2)
    except (Exception, Hang) as e:
        signal.alarm(0)
        tb = traceback.format_exc()
        frames = traceback.extract_tb(e.__traceback__)
        from common import REPO
        impl_frames = [f for f in frames if os.path.abspath(f.filename).startswith(os.path.join(os.path.abspath(REPO), "pyflwdir"))]
        if impl_frames and type(e).__name__ not in ("KeyboardInterrupt",):
            # the exception was raised INSIDE the implementation on an input the harness generated from
            # the documented domain: that is the property failing (an internal error), not a harness bug
            last = impl_frames[-1]
            ctx.failures.append({"desc": {"op": "implementation raised inside a harness call", "where": f"{os.path.basename(last.filename)}:{last.lineno} in {last.name}",
                                          "last_cases": [c[1] for c in ctx.cases[-2:]]},
                                 "kind": "spec", "what": (f"implementation did not return within {ctx.watchdog} s (stopped at {os.path.basename(last.filename)}:{last.lineno} in {last.name}) on a generated valid input"
                                                          if isinstance(e, Hang) else
                                                          f"implementation raised {type(e).__name__}: {str(e)[:200]} at {os.path.basename(last.filename)}:{last.lineno} ({last.name}) on a generated valid input"),
                                 "traceback": tb[-1500:]})
            try:
                ctx.flush()
            except Exception:  # noqa: BLE001
                pass
        else:
            print("BROKEN: harness crashed\n" + tb)
            sys.exit(2)

    # auxiliary queries validated at the source (common.install_aux_validation)
    import common as _cm
    for f in _cm.AUX_FAILURES:
        ctx.failures.append(f)

    # 4. decision
    known = [k for k in load_known_findings() if k.get("property") == prop and k.get("status") == "open"]
    classify = getattr(mod, "classify", lambda f: None)
    new_fail, known_hits = [], {}
    for f in ctx.failures:
        sig = classify(f)
        hit = next((k for k in known if sig is not None and k.get("signature") == sig), None)
        if hit:
            key = hit["id"] + ":" + str(hit.get("signature"))
            known_hits.setdefault(key, (hit, 0))
            known_hits[key] = (hit, known_hits[key][1] + 1)
        else:
            new_fail.append(f)
    for fid, (hit, cnt) in sorted(known_hits.items()):
        print(f"KNOWN-FINDING: property={prop} {hit['id']} [{hit.get('signature')}] {hit['what']} ({cnt} case(s) this run)")

    violations = 0
    spec_fail = [f for f in new_fail if f["kind"] == "spec"]
    model_fail = [f for f in new_fail if f["kind"] != "spec"]
    exit_code = 0
    if spec_fail or model_fail or not build_ok:
        violations = 1
        rp = os.path.join("replays", f"{prop}-{tier}-{seed}.json")
        if spec_fail:
            first = min(spec_fail, key=lambda f: len(json.dumps(f["desc"])))
            body = {"property": prop, "kind": "failing-input", "failure": first,
                    "n_spec_failures": len(spec_fail), "n_model_mismatches": len(model_fail),
                    "broken_theorems": broken_thms}
            json.dump(body, open(os.path.join(VERIF, rp), "w"), indent=1)
            print(f"VIOLATION property={prop} replay={rp}")
        else:
            body = {"property": prop, "kind": "no-failing-input-found",
                    "broken_theorems": broken_thms, "build_tail": build_tail,
                    "model_mismatches": model_fail[:5], "n_model_mismatches": len(model_fail),
                    "searched_cases": ctx.evaluations}
            json.dump(body, open(os.path.join(VERIF, rp), "w"), indent=1)
            print(f"VIOLATION property={prop} replay={rp} no-failing-input-found")
        exit_code = 1

    # 5. evidence
    lv = load_level(prop)
    cov = {
        "obligations": obligations,
        "discharged": discharged,
        "checker_cmd": f"cd lean && lake build {' '.join(prop_modules(prop))} && lake env lean <#print axioms of every theorem>"
                       + (" && lake env leanchecker <closure>" if leanchecker else ""),
        "trusted_base": lv.get("trusted_base", []) + [
            "Lean 4.33.0 kernel; axioms used: " + ", ".join(sorted({a for v in axioms.values() for a in v}) or ["none"]),
            "harness/extract.py, harness/common.py, harness/props/%s.py (generators, canonicalisation, comparison)" % prop.lower(),
            "correspondence model<->code is differential testing (sampling), see evaluations",
        ],
        "evaluations": ctx.evaluations,
        "distinct_nontrivial": len(ctx.nontrivial),
        "rule": getattr(mod, "RULE", ""),
        "samples": ctx.samples,
        "traces_validated_against_impl": ctx.impl_validated,
        "programs": max(1, len(getattr(mod, "OPS", [])) or 1),
        "disagreements_checked": len(ctx.failures),
        "histogram": ctx.hist,
        "theorems": sorted(axioms.keys()),
        "broken_theorems": broken_thms,
        "known_findings_hit": sorted(known_hits.keys()),
        "driver_oob_panics": ctx.panics,
        "leanchecker": leanchecker,
        "extract": extract_note,
        "notes": ctx.notes + [f"translator tie not applicable on this run for {m}: {', '.join(r)} lie(s) outside the translated fragment "
                              f"(tied by the correspondence check only)" for m, r in sorted(TIE_NOT_APPLICABLE.items())],
        "object_history": dict(__import__("common").HISTORY_STATS),
        "argument_layouts": dict(__import__("common").LAYOUT_STATS),
        "auxiliary_queries_validated": __import__("common").AUX_STATS["validated"],
        "source_fingerprint": {"changed_since_record": src_changed[:40], "escalation": ctx.escalate},
        "exhaustive": bool(getattr(ctx, "exhaustive", False)),
    }
    ev = {
        "property_id": prop, "tier": tier, "seed": seed, "level": lv["level"],
        "coverage": cov, "assumptions": lv.get("assumptions", []),
        "wall_s": round(time.time() - t0, 2), "violations": violations,
    }
    json.dump(ev, open(os.path.join(VERIF, "evidence", f"{prop}.json"), "w"), indent=1)
    print(f"{prop} {tier} seed={seed}: obligations {discharged}/{obligations}, cases {ctx.evaluations} "
          f"(distinct non-trivial {len(ctx.nontrivial)}), failures {len(new_fail)}, known {sum(c for _, c in known_hits.values())}, "
          f"{ev['wall_s']}s -> exit {exit_code}")
    sys.exit(exit_code)


if __name__ == "__main__":
    main()
