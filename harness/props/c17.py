"""C17 - cell indices, coordinates, distances and areas are mutually consistent.

Correspondence of gis_utils.xy / rowcol / idxs_to_coords / coords_to_idxs / array_bounds / affine_to_coords /
transform_from_* / distance / area_grid and of FlwdirRaster.xy / index / bounds / extent / area /
stream_distance(unit='m') with the Lean model (kind 'model') and with the declarative oracles
(kind 'spec': direct centre formula, brute-force containing cell, centre-to-centre distance, edge-latitude
areas, round trips and symmetry evaluated on the implementation's own outputs).

Input discipline: transforms whose float arithmetic is exact (resolutions +-2^k, Pythagorean cell sizes,
dyadic origins, small integers) are compared exactly as rationals; geographic values (trigonometry) within
1e-12 relative; 'realistic' non-dyadic transforms (1/120 degree ...) only get the implementation-level
spec checks (round trip, centres in bounds, symmetry). Geographic grids that end at a pole with non-dyadic row
heights (180/N degree: 0.1, 0.05, 0.9, 1/60 ...; global and polar caps, many rows, few columns) cannot be handed
to the Lean driver exactly: their areas are judged ('spec') against an own oracle - row edges as exact rationals of
the float transform, sines in 160-bit fixed point - with an absolute tolerance on the sine difference.
Resolutions that are NEARLY a unit fraction (header-truncated decimals of 1/n such as 0.0083333, 0.00027778,
(1/n)*(1 +- 2^-k); relative distance 1e-6 .. 1e-4 from 1/n, never equal) on rasters with one long axis (up to
4000 columns or rows): the object must keep the transform it was given (constructor and set_transform, Affine
or 6-tuple) and centres / bounds / containing cells / projected areas are judged ('spec') against
origin + (k + 1/2) * res evaluated as exact rationals of the PASSED binary64 coefficients, a few ulp tolerance."""
import math
import warnings
from fractions import Fraction as Fr

import numpy as np
from affine import Affine

from common import gen_shape, gen_dem_net, mk_raster, exc_class, ints, canon_idx

warnings.filterwarnings("ignore", category=PendingDeprecationWarning)
warnings.filterwarnings("ignore", category=DeprecationWarning)

OPS = ["idxs_to_coords/FlwdirRaster.xy", "coords_to_idxs/FlwdirRaster.index", "rowcol(op,precision)",
       "index/coords_to_idxs/rowcol of one point as float / NumPy scalar / 0-d array",
       "array_bounds/bounds/extent", "affine_to_coords", "transform_from_origin/bounds",
       "distance", "stream_distance(unit=m) first steps", "area_grid/FlwdirRaster.area",
       "FlwdirRaster(transform=)/set_transform: transform kept, xy/index/bounds/area of the passed coefficients"]
RULE = ("axis-aligned transforms with resolutions of either sign: +-2^k (exact class, points also exactly on cell "
        "edges and raster corners), Pythagorean cell sizes (3,4),(0.75,1),(5,12).., equal sizes, rotated/sheared and "
        "degenerate integer transforms, geographic dyadic-degree grids in both hemispheres / across the equator / global, "
        "global grids and polar caps with non-dyadic row heights 180/N (N = 7..4000 log-uniform, 0.9/0.3/0.2/0.1/0.05/"
        "1/12/1/60/1/120 degree; up to 21600 rows x 1..8 columns, north-up and south-up, pole at the origin or at the far "
        "edge), non-dyadic 'realistic' resolutions, resolutions within a relative 1e-6..1e-4 of a unit fraction 1/n without "
        "being equal to it (decimals of 1/n cut or rounded to 4..9 significant digits, (1/n)(1 +- 2^-k), n = 2..20000 and the "
        "usual 1/24, 1/60, 1/120, 1/1200, 1/3600; one long axis of 30..4000 cells x 1..3, through the constructor and through "
        "set_transform, Affine and 6-tuple); shapes incl. 1xN, Nx1; all 8 neighbours + far pairs; units m2/ha/km2/cell/"
        "unknown; single points as Python float/int, np.float64, 0-d array, mixed and 1-element array: inside, on edges, "
        "within one cell outside the origin-side / far edges (also 1 ulp), up to 3 cells outside, NaN/inf. non-trivial = >= 2 cells and |xres| != |yres|; distinct = SHA-1 of (op, transform, shape, inputs)")

EXC = {1: "IndexError", 2: "ValueError", 3: "other:TransformNotInvertibleError"}
REL = Fr(1, 10 ** 12)


# ---------------------------------------------------------------------------------------------------
# helpers
# ---------------------------------------------------------------------------------------------------
def fr(x):
    return Fr(float(x))


def exact(q):
    """Fraction -> float, asserting that no rounding happens (input discipline)"""
    f = float(q)
    if Fr(f) != q:
        raise AssertionError(f"harness input discipline broken: {q} is not a float")
    return f


def rargs(name, qs):
    qs = [Fr(q) for q in qs]
    return {name + ".n": [q.numerator for q in qs], name + ".d": [q.denominator for q in qs]}


def rout(ans, name):
    return [Fr(n, d) for n, d in zip(ans[name + ".n"], ans[name + ".d"])]


def targs(T):
    return rargs("t", [fr(v) for v in T[:6]])


def tdesc(T):
    return [float(v) for v in T[:6]]


def close(a, b, rel=REL):
    a, b = Fr(a), Fr(b)
    return abs(a - b) <= rel * max(abs(a), abs(b))


def is_square(q):
    q = Fr(q)
    if q < 0:
        return None
    p, d = math.isqrt(q.numerator), math.isqrt(q.denominator)
    if p * p == q.numerator and d * d == q.denominator:
        return Fr(p, d)
    return None


def derr(a):
    return [{"kind": "model", "what": "driver error " + a["__err__"]}] if "__err__" in a else None


def call(f, *a, **k):
    """run the implementation; returns (exception class | None, value)"""
    try:
        with np.errstate(all="ignore"):
            return None, f(*a, **k)
    except Exception as e:  # noqa: BLE001
        return exc_class(e), None


# ---------------------------------------------------------------------------------------------------
# generators
# ---------------------------------------------------------------------------------------------------
PYTH = [(3, 4), (4, 3), (Fr(3, 4), 1), (1, Fr(3, 4)), (6, 8), (5, 12), (12, 5), (Fr(3, 2), 2), (8, 15)]


def gen_signs(rng):
    u = rng.random()
    if u < 0.5:
        return 1, -1  # north-up
    return rng.choice([(1, 1), (-1, -1), (-1, 1), (1, -1)])


def gen_transform(rng, shape):
    """returns (Affine, cls, latlon); cls in exact|pyth|equal|rot|geo|real"""
    nrow, ncol = shape
    u = rng.random()
    sx, sy = gen_signs(rng)
    if u < 0.30:
        kx, ky = rng.randint(-3, 3), rng.randint(-3, 3)
        if rng.random() < 0.85:
            while ky == kx:
                ky = rng.randint(-3, 3)
        a, e = sx * Fr(2) ** kx, sy * Fr(2) ** ky
        c, f = Fr(rng.randint(-1600, 1600), 8), Fr(rng.randint(-1600, 1600), 8)
        return Affine(exact(a), 0.0, exact(c), 0.0, exact(e), exact(f)), "exact", False
    if u < 0.50:
        px, py = rng.choice(PYTH)
        a, e = sx * Fr(px), sy * Fr(py)
        c, f = Fr(rng.randint(-400, 400), 4), Fr(rng.randint(-400, 400), 4)
        return Affine(exact(a), 0.0, exact(c), 0.0, exact(e), exact(f)), "pyth", False
    if u < 0.56:
        r = Fr(rng.choice([1, 2, 5, Fr(1, 2), 30]))
        c, f = Fr(rng.randint(-400, 400), 4), Fr(rng.randint(-400, 400), 4)
        return Affine(exact(sx * r), 0.0, exact(c), 0.0, exact(sy * r), exact(f)), "equal", False
    if u < 0.62:
        while True:
            a, b, d, e = (rng.randint(-4, 4) for _ in range(4))
            if a * e - b * d != 0 and (b != 0 or d != 0):
                break
        return Affine(float(a), float(b), float(rng.randint(-20, 20)), float(d), float(e),
                      float(rng.randint(-20, 20))), "rot", False
    if u < 0.90:
        return gen_geo(rng, shape)
    a = rng.choice([1 / 120, 1 / 1200, 0.1, 1 / 3, 0.008333333333333333, 30.3, 1e-3])
    e = rng.choice([1 / 120, 1 / 1200, 0.1, 1 / 3, 0.05, 92.7, 2e-3])
    c, f = rng.uniform(-180, 180), rng.uniform(-60, 80)
    return Affine(sx * a, 0.0, c, 0.0, sy * e, f), "real", False


def gen_geo(rng, shape):
    """geographic grid, dyadic degrees, rows inside [-90, 90]; both hemispheres, across the equator"""
    nrow, ncol = shape
    yres = Fr(rng.choice([Fr(1, 8), Fr(1, 4), Fr(1, 2), 1, 2, 4, 8]))
    while yres * nrow > 180:
        yres /= 2
    xres = Fr(rng.choice([Fr(1, 8), Fr(1, 4), Fr(1, 2), 1, 2, 4, 8]))
    if rng.random() < 0.85:
        while xres == yres:
            xres = Fr(rng.choice([Fr(1, 8), Fr(1, 4), Fr(1, 2), 1, 2, 4]))
    span = yres * nrow
    where = rng.choice(["north", "south", "equator", "pole", "any"])
    lo_max = 90 - span
    if where == "north":
        lo = Fr(rng.randint(0, int(lo_max * 8)), 8) if lo_max > 0 else -span / 2
    elif where == "south":
        lo = -Fr(rng.randint(0, int(lo_max * 8)), 8) - span if lo_max > 0 else -span / 2
    elif where == "equator":
        lo = -yres * rng.randint(0, nrow)
        lo = max(lo, Fr(-90))
    elif where == "pole":
        lo = rng.choice([Fr(90) - span, Fr(-90)])
    else:
        lo = Fr(rng.randint(int(-90 * 8), int(lo_max * 8)), 8)
    lo = min(max(lo, Fr(-90)), Fr(90) - span)
    west = Fr(rng.randint(-180 * 8, 170 * 8), 8)
    u = rng.random()
    if u < 0.12:      # crossing the antimeridian (longitudes beyond 180)
        west = Fr(180) - xres * rng.randint(0, ncol)
    elif u < 0.22:    # 0..360 convention, possibly crossing 360
        west = Fr(rng.choice([180, 270, 350, 358])) + Fr(rng.randint(0, 16), 8)
    elif u < 0.27:    # west of -180
        west = Fr(-180) - xres * rng.randint(1, ncol)
    if rng.random() < 0.75:  # north-up
        T = Affine(exact(xres), 0.0, exact(west), 0.0, exact(-yres), exact(lo + span))
    else:  # south-up
        T = Affine(exact(xres), 0.0, exact(west), 0.0, exact(yres), exact(lo))
    return T, "geo", True


def gen_global(rng):
    ncol = rng.choice([2, 3, 4, 5, 6, 8, 9, 10, 12, 15, 16, 18, 20, 24])
    nrow = rng.choice([1, 2, 3, 4, 5, 6, 8, 9, 10, 12, 15, 16, 18, 20])
    xres, yres = Fr(360, ncol), Fr(180, nrow)
    if rng.random() < 0.7:
        T = Affine(exact(xres), 0.0, -180.0, 0.0, exact(-yres), 90.0)
    else:
        T = Affine(exact(xres), 0.0, -180.0, 0.0, exact(yres), -90.0)
    return T, (nrow, ncol)


def flw_of(shape, T, latlon, ds=None):
    n = shape[0] * shape[1]
    if ds is None:
        ds = list(range(n))
    return mk_raster(ds, shape, transform=T, latlon=latlon)


# ---------------------------------------------------------------------------------------------------
# cases
# ---------------------------------------------------------------------------------------------------
def case_xy(ctx, rng, T, cls, shape, nontriv):
    from pyflwdir import gis_utils as gis
    nrow, ncol = shape
    n = nrow * ncol
    k = rng.randint(1, 6)
    idxs = [rng.randrange(n) for _ in range(k)]
    u = rng.random()
    if u < 0.25:
        idxs[rng.randrange(k)] = rng.choice([-1, n, n + rng.randint(1, 5), -rng.randint(2, 9)])
    elif u < 0.35:
        idxs = list(dict.fromkeys([0, ncol - 1, n - ncol, n - 1]))  # raster corners
    offn = rng.choice(["center"] * 4 + ["ul", "ur", "ll", "lr", "xx"])
    offc = {"center": 0, "ul": 1, "ur": 2, "ll": 3, "lr": 4, "xx": 9}[offn]
    via = rng.choice(["gis", "flw"])
    ctx.count("xy:" + offn)
    if via == "gis":
        err, val = call(gis.idxs_to_coords, np.array(idxs), T, shape, offset=offn)
    else:
        flw = flw_of(shape, T, cls == "geo")
        err, val = call(flw.xy, np.array(idxs), offset=offn) if offn != "center" else call(flw.xy, np.array(idxs))
    if err is None:
        xs, ys = [float(v) for v in np.asarray(val[0]).ravel()], [float(v) for v in np.asarray(val[1]).ravel()]
    ctx.count("xy:" + (err or "ok"))
    # implementation-level round trip (spec): index(xy(i)) == i for in-range cells, centre offset
    rt = None
    if err is None and offn == "center" and cls != "rot":
        e2, back = call(gis.coords_to_idxs, np.array(xs), np.array(ys), T, shape)
        rt = (e2, None if back is None else ints(back))
    desc = {"op": "idxs_to_coords" if via == "gis" else "FlwdirRaster.xy", "transform": tdesc(T), "shape": list(shape),
            "idxs": idxs, "offset": offn}

    def judge(ans):
        a = ans[0]
        if derr(a):
            return derr(a)
        fs = []
        mstat = EXC.get(a["status"][0])
        if mstat != err:
            fs.append({"kind": "model", "what": f"xy: implementation {err or 'returns'}, model {mstat or 'returns'}"})
        sstat = EXC.get(a["spec.status"][0])
        if sstat != err:
            fs.append({"kind": "spec", "what": "linear index outside the raster must raise IndexError (and only then; "
                       f"ValueError for an invalid offset): got {err or 'returns'}, expected {sstat or 'returns'}"})
        if err is None and a["status"][0] == 0:
            mx, my, sx_, sy_ = rout(a, "model.x"), rout(a, "model.y"), rout(a, "spec.x"), rout(a, "spec.y")
            if cls == "real":
                okm = all(close(fr(x), m, Fr(1, 10 ** 9)) for x, m in zip(xs, mx)) and \
                    all(close(fr(y), m, Fr(1, 10 ** 9)) for y, m in zip(ys, my))
                oks = okm
            else:
                okm = [fr(x) for x in xs] == mx and [fr(y) for y in ys] == my
                oks = [fr(x) for x in xs] == sx_ and [fr(y) for y in ys] == sy_
            if not oks:
                fs.append({"kind": "spec", "what": "coordinates are not the cell centre / requested corner",
                           "impl": [xs, ys], "spec": [[float(v) for v in sx_], [float(v) for v in sy_]]})
            if not okm:
                fs.append({"kind": "model", "what": "xy: implementation != Lean model", "impl": [xs, ys],
                           "model": [[float(v) for v in mx], [float(v) for v in my]]})
        if rt is not None and (rt[0] is not None or rt[1] != idxs):
            fs.append({"kind": "spec", "what": f"round trip index(xy(idxs)) != idxs: got {rt[0] or rt[1]}"})
        return fs

    ctx.add(desc, [("c17_xy", {**targs(T), "nrow": nrow, "ncol": ncol, "idxs": idxs, "off": offc})], judge,
            nontrivial=nontriv)


def gen_points(rng, T, cls, shape, want_outside):
    """points given as (row, col, fy, fx) -> exact coordinates; returns (xs, ys) floats"""
    nrow, ncol = shape
    a, b, c, d, e, f = (fr(v) for v in T[:6])
    fracs = [Fr(1, 4), Fr(1, 2), Fr(3, 4)] + ([Fr(0)] * 2 if cls == "exact" else [])
    k = rng.randint(1, 5)
    pts = []
    for _ in range(k):
        pts.append((rng.randrange(nrow), rng.randrange(ncol), rng.choice(fracs), rng.choice(fracs)))
    if want_outside == "far":
        # just outside any side, in ANY row / column (a linear-index style bounds test would wrap these
        # into a neighbouring row), or far outside
        r, cc = rng.choice([(-1, rng.randrange(ncol)), (nrow, rng.randrange(ncol)), (rng.randrange(nrow), -1),
                            (rng.randrange(nrow), ncol), (rng.randrange(nrow), -rng.randint(1, ncol)),
                            (-2, -3), (nrow + 1, ncol + 2), (nrow, -1), (-1, ncol)])
        pts[rng.randrange(k)] = (r + rng.randrange(1), cc, rng.choice(fracs), rng.choice(fracs))
    elif want_outside == "edge" and cls == "exact":
        # exactly on the far edges of the raster (half-open cells: these are outside)
        which = rng.choice(["row", "col", "both"])
        r = nrow if which in ("row", "both") else rng.randrange(nrow)
        cc = ncol if which in ("col", "both") else rng.randrange(ncol)
        pts[rng.randrange(k)] = (r, cc, Fr(0), Fr(0))
    elif want_outside == "near-edge" and cls == "exact":
        # exactly on the near edges (inside) of the first/last row/column
        pts[rng.randrange(k)] = (rng.choice([0, nrow - 1]), rng.choice([0, ncol - 1]), Fr(0), Fr(0))
    xs, ys = [], []
    for r, cc, fy, fx in pts:
        xs.append(exact(c + (cc + fx) * a + (r + fy) * b))
        ys.append(exact(f + (cc + fx) * d + (r + fy) * e))
    return xs, ys


def case_index(ctx, rng, T, cls, shape, nontriv):
    from pyflwdir import gis_utils as gis
    nrow, ncol = shape
    out = rng.choice(["none", "none", "far", "edge", "near-edge"])
    xs, ys = gen_points(rng, T, cls, shape, out)
    opn, prec = "floor", None
    u = rng.random()
    if cls != "rot" and u < 0.25:
        opn = rng.choice(["ceil", "round", "floor"])
        # eps = 10**-precision shifts the point: precision 0 (eps = 1, can land exactly on a cell edge)
        # only where the float arithmetic is exact
        prec = rng.choice([None, 0, 1, 2, 3] if cls == "exact" else [None, 1, 2, 3])
        if opn == "round" and cls != "exact":
            opn = "ceil"  # ties at .5 need exact arithmetic
    opc = {"floor": 0, "ceil": 1, "round": 2}[opn]
    npop = {"floor": np.floor, "ceil": np.ceil, "round": np.round}[opn]
    default = opn == "floor" and prec is None
    via = rng.choice(["gis", "flw"])
    kw = {} if default else {"op": npop, "precision": prec}
    if via == "gis":
        err, val = call(gis.coords_to_idxs, np.array(xs), np.array(ys), T, shape, **kw)
    else:
        err, val = call(flw_of(shape, T, cls == "geo").index, np.array(xs), np.array(ys), **kw)
    impl = None if val is None else ints(val)
    ctx.count("index:" + (err or "ok") + ("" if default else ":op/prec"))
    ctx.count("index-points:" + out)
    # implementation-level: xy(index(p)) is the centre of a cell whose half-open extent contains p
    desc = {"op": "coords_to_idxs" if via == "gis" else "FlwdirRaster.index", "transform": tdesc(T),
            "shape": list(shape), "xs": xs, "ys": ys, "rounding": opn, "precision": prec}

    def judge(ans):
        a = ans[0]
        if derr(a):
            return derr(a)
        fs = []
        mstat = EXC.get(a["status"][0])
        if mstat != err or (err is None and impl != a["model.idxs"]):
            fs.append({"kind": "model", "what": "coords_to_idxs: implementation != Lean model",
                       "impl": err or impl, "model": mstat or a.get("model.idxs")})
        if default and cls != "rot":
            sstat = EXC.get(a["spec.status"][0])
            if sstat != err:
                fs.append({"kind": "spec", "what": "coordinates outside the raster must raise IndexError (and only then): "
                           f"got {err or 'returns'}, containing-cell search says {sstat or 'all inside'}"})
            elif err is None and impl != a["spec.idxs"]:
                fs.append({"kind": "spec", "what": "returned index is not the cell that contains the point",
                           "impl": impl, "spec": a["spec.idxs"]})
        return fs

    req = {**targs(T), "nrow": nrow, "ncol": ncol, **rargs("x", [fr(x) for x in xs]), **rargs("y", [fr(y) for y in ys]),
           "op": opc, "prec": prec}
    ctx.add(desc, [("c17_index", req)], judge, nontrivial=nontriv)


def gen_point1(rng, T, cls, shape):
    """ONE point of the raster extended by up to three cells on EVERY side, as exact pixel coordinates
    (row + fy, col + fx): inside, exactly on edges / corners (exact class), within one cell outside the
    origin-side edges (pixel coordinate in (-1, 0): truncation and floor differ there), within one cell outside
    the far edges, a few cells outside, one ulp on either side of the origin-side edges (exact class).
    returns (x, y, where)"""
    nrow, ncol = shape
    a, b, c, d, e, f = (fr(v) for v in T[:6])
    fracs = [Fr(1, 4), Fr(1, 2), Fr(3, 4)] + ([Fr(0)] * 2 if cls == "exact" else [])

    def axis(n, where):
        """(whole, frac) pixel coordinate along an axis of n cells"""
        if where == "in":
            return rng.randrange(n), rng.choice(fracs)
        if where == "lo1":     # less than one cell outside the origin-side edge (or exactly one cell: frac 0)
            return -1, rng.choice(fracs)
        if where == "hi1":     # on the far edge or less than one cell beyond it
            return n, rng.choice(fracs)
        if where == "lo":
            return -rng.randint(2, 3), rng.choice(fracs)
        return n + rng.randint(1, 2), rng.choice(fracs)  # "hi"

    u = rng.random()
    if u < 0.22:
        wr, wc = "in", "in"
    elif u < 0.62:  # origin side, within one cell: row only / column only / both
        wr, wc = rng.choice([("lo1", "in"), ("in", "lo1"), ("lo1", "lo1"), ("lo1", "hi1"), ("hi1", "lo1")])
    elif u < 0.80:
        wr, wc = rng.choice([("hi1", "in"), ("in", "hi1"), ("hi1", "hi1")])
    else:
        wr, wc = rng.choice([("lo", "in"), ("in", "lo"), ("hi", "in"), ("in", "hi"), ("lo", "lo1"), ("lo1", "hi"),
                             ("hi", "hi"), ("lo", "hi"), ("hi", "lo")])
    (r, fy), (cc, fx) = axis(nrow, wr), axis(ncol, wc)
    x, y = exact(c + (cc + fx) * a + (r + fy) * b), exact(f + (cc + fx) * d + (r + fy) * e)
    where = wr + "/" + wc
    if cls == "exact" and rng.random() < 0.2 and c != 0 and f != 0:
        # one ulp outside / inside the origin-side edge(s): (x - c) / a is tiny and exact in float arithmetic
        which = rng.choice(["x", "y", "xy"])
        side = rng.choice([-1, 1])  # sign of the pixel coordinate
        if "x" in which:
            x = float(np.nextafter(float(c), math.copysign(math.inf, side * float(a))))
        if "y" in which:
            y = float(np.nextafter(float(f), math.copysign(math.inf, side * float(e))))
        where = "ulp-" + ("outside" if side < 0 else "inside") + "-origin-edge:" + which + "|" + where
    return x, y, where


def point_forms(x, y):
    """the same point as a one-element array call and as every kind of scalar call"""
    forms = [("array[1]", np.array([x]), np.array([y])), ("python float", x, y),
             ("np.float64 scalar", np.float64(x), np.float64(y)), ("0-d array", np.array(x), np.array(y)),
             ("float x / 0-d array y", x, np.array(y)), ("np.float64 x / float y", np.float64(x), y)]
    if float(x).is_integer() and float(y).is_integer():
        forms.append(("python int", int(x), int(y)))
    return forms


def case_index_scalar(ctx, rng, T, cls, shape, nontriv):
    """index / coords_to_idxs / rowcol of ONE point given as Python float, NumPy scalar, 0-d array (and int where
    integral): every form is judged like the one-element array call (IndexError iff outside; the containing cell)"""
    from pyflwdir import gis_utils as gis
    nrow, ncol = shape
    x, y, where = gen_point1(rng, T, cls, shape)
    opn, prec = "floor", None
    if cls != "rot" and rng.random() < 0.15:
        opn = rng.choice(["ceil", "round", "floor"])
        prec = rng.choice([None, 0, 1, 2, 3] if cls == "exact" else [None, 1, 2, 3])
        if opn == "round" and cls != "exact":
            opn = "ceil"
        if where.startswith("ulp"):
            prec = None  # (the eps shift of a point one ulp off the edge is not exact)
    opc = {"floor": 0, "ceil": 1, "round": 2}[opn]
    npop = {"floor": np.floor, "ceil": np.ceil, "round": np.round}[opn]
    default = opn == "floor" and prec is None
    kw = {} if default else {"op": npop, "precision": prec}
    via = rng.choice(["gis", "flw"])
    fn = (lambda X, Y: gis.coords_to_idxs(X, Y, T, shape, **kw)) if via == "gis" else None
    if fn is None:
        flw = flw_of(shape, T, cls == "geo")
        fn = lambda X, Y: flw.index(X, Y, **kw)  # noqa: E731
    res, rc = [], []
    for name, X, Y in point_forms(x, y):
        err, val = call(fn, X, Y)
        res.append((name, err, None if val is None else ints(val)))
        if err is None and name != "array[1]":
            ctx.count("index-scalar:result-ndim=%d" % np.ndim(val))
        err, val = call(gis.rowcol, T, X, Y, **kw)
        rc.append((name, err, None if val is None else [ints(val[0]), ints(val[1])]))
    ctx.count("index-scalar:" + (res[0][1] or "ok") + ("" if default else ":op/prec"))
    ctx.count("index-scalar-point:" + where.split("|")[0])
    desc = {"op": ("coords_to_idxs" if via == "gis" else "FlwdirRaster.index") + " + rowcol, one point in every scalar form",
            "transform": tdesc(T), "shape": list(shape), "x": x, "y": y, "point": where, "rounding": opn,
            "precision": prec}

    def judge(ans):
        a, ar = ans
        if derr(a) or derr(ar):
            return derr(a) or derr(ar)
        fs = []
        mstat = EXC.get(a["status"][0])
        sstat = EXC.get(a["spec.status"][0])
        for name, err, impl in res:
            if mstat != err or (err is None and impl != a["model.idxs"]):
                fs.append({"kind": "model", "what": f"coords_to_idxs({name}): implementation != Lean model",
                           "impl": err or impl, "model": mstat or a.get("model.idxs")})
            if default and cls != "rot":
                if sstat != err:
                    fs.append({"kind": "spec", "what": f"point given as {name}: coordinates outside the raster must raise "
                               f"IndexError (and only then): got {err or 'returns ' + str(impl)}, containing-cell search "
                               f"says {sstat or 'inside'}"})
                elif err is None and impl != a["spec.idxs"]:
                    fs.append({"kind": "spec", "what": f"point given as {name}: returned index is not the cell that "
                               "contains the point", "impl": impl, "spec": a["spec.idxs"]})
            if (err, impl) != res[0][1:]:
                fs.append({"kind": "spec", "what": f"point given as {name}: result differs from the array call with one "
                           f"element: {err or impl} vs {res[0][1] or res[0][2]}"})
        rstat = EXC.get(ar["status"][0])
        rmodel = None if rstat else [ar["model.rows"], ar["model.cols"]]
        for name, err, impl in rc:
            if rstat != err or impl != rmodel:
                fs.append({"kind": "model", "what": f"rowcol({name}): implementation != Lean model", "impl": err or impl,
                           "model": rstat or rmodel})
            if (err, impl) != rc[0][1:]:
                fs.append({"kind": "spec", "what": f"rowcol of a point given as {name} differs from the array call with one "
                           f"element: {err or impl} vs {rc[0][1] or rc[0][2]}"})
        return fs

    pt = {**rargs("x", [fr(x)]), **rargs("y", [fr(y)]), "op": opc, "prec": prec}
    ctx.add(desc, [("c17_index", {**targs(T), "nrow": nrow, "ncol": ncol, **pt}), ("c17_rowcol", {**targs(T), **pt})],
            judge, nontrivial=nontriv)


def case_index_nonfinite(ctx, rng, T, cls, shape):
    """NaN / infinite coordinates are not inside any raster: IndexError, in every call form (no Lean op: the
    driver takes rationals)"""
    from pyflwdir import gis_utils as gis
    nrow, ncol = shape
    a, e, c, f = T[0], T[4], T[2], T[5]
    good = (c + (rng.randrange(ncol) + 0.5) * a, f + (rng.randrange(nrow) + 0.5) * e)
    bad = rng.choice([math.nan, math.inf, -math.inf])
    x, y = rng.choice([(bad, good[1]), (good[0], bad), (bad, bad)])
    res = [(name, call(gis.coords_to_idxs, X, Y, T, shape)) for name, X, Y in point_forms(x, y)]
    ctx.count("index-nonfinite:" + (res[0][1][0] or "returns"))
    desc = {"op": "coords_to_idxs, non-finite coordinate in every scalar form", "transform": tdesc(T),
            "shape": list(shape), "x": repr(x), "y": repr(y)}
    fs = []
    for name, (err, val) in res:
        if err != "IndexError":
            fs.append({"kind": "spec", "what": f"non-finite point given as {name}: coordinates outside the raster must "
                       f"raise IndexError, got {err or 'returns ' + str(ints(val))}"})
    ctx.add(desc, [], lambda ans: fs, nontrivial=False)


def case_rowcol(ctx, rng, T, cls, shape, nontriv):
    from pyflwdir import gis_utils as gis
    if rng.random() < 0.15:  # degenerate transform: not invertible
        T = rng.choice([Affine(0.0, 0.0, 1.0, 0.0, -1.0, 2.0), Affine(2.0, 4.0, 0.0, 1.0, 2.0, 0.0),
                        Affine(1.0, 0.0, 0.0, 0.0, 0.0, 0.0)])
        cls = "degenerate"
    xs, ys = gen_points(rng, T, cls, shape, rng.choice(["none", "far"]))
    opn = rng.choice(["floor", "ceil", "round"]) if cls == "exact" else rng.choice(["floor", "ceil"])
    # the eps shift may put a point exactly on a cell edge: precision 0 only with exact float arithmetic,
    # no precision at all on rotated transforms (eps enters both pixel coordinates)
    prec = rng.choice([None, None, 0, 1, 2, 3] if cls == "exact" else [None] if cls in ("rot", "degenerate")
                      else [None, None, 1, 2, 3])
    opc = {"floor": 0, "ceil": 1, "round": 2}[opn]
    npop = {"floor": np.floor, "ceil": np.ceil, "round": np.round}[opn]
    if opn == "floor" and prec is None:  # the function's own defaults
        err, val = call(gis.rowcol, T, np.array(xs), np.array(ys))
    else:
        err, val = call(gis.rowcol, T, np.array(xs), np.array(ys), op=npop, precision=prec)
    impl = None if val is None else [ints(val[0]), ints(val[1])]
    ctx.count("rowcol:" + (err or "ok") + ":" + opn + (":prec" if prec is not None else ""))
    desc = {"op": "rowcol", "transform": tdesc(T), "xs": xs, "ys": ys, "rounding": opn, "precision": prec}

    def judge(ans):
        a = ans[0]
        if derr(a):
            return derr(a)
        mstat = EXC.get(a["status"][0])
        model = None if mstat else [a["model.rows"], a["model.cols"]]
        fs = []
        if mstat != err or impl != model:
            fs.append({"kind": "model", "what": "rowcol: implementation != Lean model", "impl": err or impl,
                       "model": mstat or model})
        if certify and a.get("spec.contains") != [1]:
            fs.append({"kind": "spec", "what": "rowcol returned a pixel whose half-open cell does not contain the point",
                       "impl": impl})
        return fs

    certify = opn == "floor" and prec is None and cls not in ("rot", "degenerate") and err is None
    req = {**targs(T), **rargs("x", [fr(x) for x in xs]), **rargs("y", [fr(y) for y in ys]), "op": opc, "prec": prec}
    if certify:
        req.update({"impl.rows": impl[0], "impl.cols": impl[1]})
    ctx.add(desc, [("c17_rowcol", req)], judge, nontrivial=nontriv and cls != "degenerate")


def case_bounds(ctx, rng, T, cls, shape, nontriv):
    from pyflwdir import gis_utils as gis
    nrow, ncol = shape
    flw = flw_of(shape, T, cls == "geo")
    b = [float(v) for v in flw.bounds]
    ex = [float(v) for v in flw.extent]
    b2 = [float(v) for v in gis.array_bounds(nrow, ncol, T)]
    xa, ya = gis.affine_to_coords(T, shape)
    xa, ya = [float(v) for v in xa], [float(v) for v in ya]
    northup = T[0] > 0 and T[4] < 0 and T[1] == 0 and T[3] == 0
    ctx.count("bounds:" + ("north-up" if northup else "other"))
    desc = {"op": "bounds/extent/affine_to_coords", "transform": tdesc(T), "shape": list(shape)}
    # implementation-level check for every class (incl. non-dyadic): all centres strictly inside
    xs_all, ys_all = flw.xy(np.arange(nrow * ncol))
    impl_inside = bool(np.all((xs_all > b[0]) & (xs_all < b[2]) & (ys_all > b[1]) & (ys_all < b[3])))

    def judge(ans):
        a, ax = ans
        if derr(a) or derr(ax):
            return derr(a) or derr(ax)
        fs = []
        if b != b2:
            fs.append({"kind": "spec", "what": "FlwdirRaster.bounds != array_bounds(shape, transform)"})
        if ex != [b[0], b[2], b[1], b[3]]:
            fs.append({"kind": "spec", "what": "extent is not [xmin, xmax, ymin, ymax] of bounds", "impl": ex})
        mb, me = rout(a, "model.bounds"), rout(a, "model.extent")
        if cls == "real":
            okm = all(close(fr(x), m, Fr(1, 10 ** 9)) for x, m in zip(b, mb))
        else:
            okm = [fr(v) for v in b] == mb and [fr(v) for v in ex] == me
        if not okm:
            fs.append({"kind": "model", "what": "bounds/extent: implementation != Lean model", "impl": b,
                       "model": [float(v) for v in mb]})
        if northup:
            if not impl_inside or (cls != "real" and a["spec.centres_inside"] != [1]):
                fs.append({"kind": "spec", "what": "a cell centre is not strictly inside the reported bounds", "impl": b})
            if cls != "real" and [fr(v) for v in b] != rout(a, "spec.bbox"):
                fs.append({"kind": "spec", "what": "bounds are not the bounding box of the raster corners", "impl": b,
                           "spec": [float(v) for v in rout(a, "spec.bbox")]})
        if cls != "real":
            if [fr(v) for v in xa] != rout(ax, "model.x") or [fr(v) for v in ya] != rout(ax, "model.y"):
                fs.append({"kind": "model", "what": "affine_to_coords: implementation != Lean model"})
            if cls != "rot" and ([fr(v) for v in xa] != rout(ax, "spec.x") or [fr(v) for v in ya] != rout(ax, "spec.y")):
                fs.append({"kind": "spec", "what": "affine_to_coords axes are not the cell-centre coordinates"})
        return fs

    base = {**targs(T), "nrow": nrow, "ncol": ncol}
    ctx.add(desc, [("c17_bounds", {**base, **rargs("impl", [fr(v) for v in b])}), ("c17_axes", base)], judge,
            nontrivial=nontriv)


def case_transform(ctx, rng):
    from pyflwdir import gis_utils as gis
    if rng.random() < 0.5:
        west, north = Fr(rng.randint(-800, 800), 8), Fr(rng.randint(-800, 800), 8)
        xs, ys = rng.choice([Fr(1, 4), Fr(1, 2), 1, 2, 3, 4, Fr(3, 4)]), rng.choice([Fr(1, 4), Fr(1, 2), 1, 2, 3, 4, 5])
        args = [west, north, Fr(xs), Fr(ys)]
        T = gis.transform_from_origin(*[exact(v) for v in args])
        req = {"kind": 0, **rargs("args", args)}
        desc = {"op": "transform_from_origin", "args": [float(v) for v in args]}
        nontriv = xs != ys
    else:
        width, height = rng.randint(1, 12), rng.randint(1, 12)
        west, south = Fr(rng.randint(-800, 800), 8), Fr(rng.randint(-800, 800), 8)
        east, north = west + Fr(rng.randint(1, 400), 8), south + Fr(rng.randint(1, 400), 8)
        args = [west, south, east, north]
        T = gis.transform_from_bounds(*[exact(v) for v in args], width, height)
        req = {"kind": 1, **rargs("args", args), "width": width, "height": height}
        desc = {"op": "transform_from_bounds", "args": [float(v) for v in args], "width": width, "height": height}
        nontriv = (east - west) * height != (north - south) * width
        # implementation-level: array_bounds(transform_from_bounds(b)) == b when the divisions are exact
        if (east - west) / width * width == east - west and Fr(float((east - west) / width)) == (east - west) / width \
                and Fr(float((south - north) / height)) == (south - north) / height:
            back = [float(v) for v in gis.array_bounds(height, width, T)]
            if back != [float(v) for v in args]:
                ctx.fail(desc, "spec", f"array_bounds(transform_from_bounds(bounds)) != bounds: {back}")
    ctx.count("transform:" + desc["op"])
    impl = [float(v) for v in T[:6]]

    def judge(ans):
        a = ans[0]
        if derr(a):
            return derr(a)
        fs = []
        if impl != [float(v) for v in rout(a, "model.t")]:
            fs.append({"kind": "model", "what": desc["op"] + ": implementation != Lean model", "impl": impl,
                       "model": [float(v) for v in rout(a, "model.t")]})
        if impl != [float(v) for v in rout(a, "spec.t")]:
            fs.append({"kind": "spec", "what": desc["op"] + ": coefficients are not (xsize, 0, west, 0, -ysize, north)",
                       "impl": impl, "spec": [float(v) for v in rout(a, "spec.t")]})
        return fs

    ctx.add(desc, [("c17_transform", req)], judge, nontrivial=nontriv)


def neighbours(i, shape):
    nrow, ncol = shape
    r, c = divmod(i, ncol)
    out = []
    for dr in (-1, 0, 1):
        for dc in (-1, 0, 1):
            if (dr or dc) and 0 <= r + dr < nrow and 0 <= c + dc < ncol:
                out.append(((r + dr) * ncol + c + dc, dr, dc))
    return out


def ref_degree_metres(lat):
    """reference series for the length of one degree of latitude / longitude in metres (typed in from the
    documented WGS84 approximation, independent of the source tree)"""
    r = math.radians(lat)
    y = 111132.92 - 559.82 * math.cos(2 * r) + 1.175 * math.cos(4 * r) - 0.0023 * math.cos(6 * r)
    x = 111412.84 * math.cos(r) - 93.5 * math.cos(3 * r) + 0.118 * math.cos(5 * r)
    return y, x


def geo_table(T, nrow, ctx=None, desc=None):
    from pyflwdir import gis_utils as gis
    a, e, f = fr(T[0]), fr(T[4]), fr(T[5])
    lats = [exact(f + Fr(j, 2) * e) for j in range(2 * nrow + 1)]
    dmy = [float(gis.degree_metres_y(np.float64(v))) for v in lats]
    dmx = [float(gis.degree_metres_x(np.float64(v))) for v in lats]
    if ctx is not None:
        for v, y, x in zip(lats, dmy, dmx):
            ry, rx = ref_degree_metres(v)
            if abs(y - ry) > 1e-9 * abs(ry) or abs(x - rx) > 1e-9 * 111e3:
                ctx.fail({"op": "degree_metres_y/x", "lat": v}, "spec",
                         f"metric length of a degree at latitude {v}: got ({y!r}, {x!r}), reference series ({ry!r}, {rx!r})")
                break
    return {**rargs("lat", [fr(v) for v in lats]), **rargs("dmy", [fr(v) for v in dmy]), **rargs("dmx", [fr(v) for v in dmx])}


def check_dists(impl, a, latlon, what):
    """impl: list of floats; compare with model.d2 / spec.d2"""
    fs = []
    for k, d in enumerate(impl):
        for name, kind in (("spec.d2", "spec"), ("model.d2", "model")):
            d2 = rout(a, name)[k]
            ex = is_square(d2) if not latlon else None
            if ex is not None:
                ok = fr(d) == ex
            else:
                ok = d >= 0 and close(fr(d) ** 2, d2, Fr(1, 10 ** 11) if latlon else Fr(1, 10 ** 14))
            if not ok:
                fs.append({"kind": kind, "what": f"{what}: pair #{k} length {d!r} differs from "
                           + ("centre-to-centre / mean-latitude length" if kind == "spec" else "Lean model")
                           + f" sqrt({float(d2)!r})"})
                break
    return fs


def case_distance(ctx, rng, T, cls, latlon, shape, nontriv):
    from pyflwdir import gis_utils as gis
    nrow, ncol = shape
    n = nrow * ncol
    pairs, steps = [], []
    for _ in range(2):
        i = rng.randrange(n)
        for j, dr, dc in neighbours(i, shape):
            pairs.append((i, j))
            steps.append((dr, dc))
    for _ in range(2):
        pairs.append((rng.randrange(n), rng.randrange(n)))
        steps.append(None)
    i = rng.randrange(n)
    pairs.append((i, i))
    steps.append(None)
    ds_ = [float(gis.distance(i, j, ncol, latlon, T)) for i, j in pairs]
    back = [float(gis.distance(j, i, ncol, latlon, T)) for i, j in pairs]
    ctx.count("distance:" + ("geo" if latlon else "proj"), len(pairs))
    for s in steps:
        if s:
            ctx.count("step:" + ("EW" if s[0] == 0 else "NS" if s[1] == 0 else "diag"))
    xres, yres = abs(float(T[0])), abs(float(T[4]))
    desc = {"op": "distance", "transform": tdesc(T), "shape": list(shape), "latlon": latlon, "pairs": pairs}

    def judge(ans):
        a = ans[0]
        if derr(a):
            return derr(a)
        fs = []
        if ds_ != back:
            k = next(k for k in range(len(pairs)) if ds_[k] != back[k])
            fs.append({"kind": "spec", "what": f"distance not symmetric for pair {pairs[k]}: {ds_[k]!r} vs {back[k]!r}"})
        if not latlon:  # the literal clauses of the property for the 8 neighbours
            for (p, s, d) in zip(pairs, steps, ds_):
                if s is None:
                    continue
                want = xres if s[0] == 0 else yres if s[1] == 0 else math.hypot(xres, yres)
                if abs(d - want) > 4e-16 * want:
                    fs.append({"kind": "spec", "what": f"step {p} (dr,dc)={s}: length {d!r}, expected {want!r} "
                               "(|xres| east-west, |yres| north-south, hypotenuse diagonally)"})
                    break
        fs += check_dists(ds_, a, latlon, "distance")
        return fs

    req = {**targs(T), "nrow": nrow, "ncol": ncol, "latlon": int(latlon), "idx0": [p[0] for p in pairs],
           "idx1": [p[1] for p in pairs]}
    if latlon:
        req.update(geo_table(T, nrow, ctx))
    ctx.add(desc, [("c17_distance", req)], judge, nontrivial=nontriv)


def case_stream_distance(ctx, rng, T, cls, latlon, shape, nontriv):
    """public level: first steps of FlwdirRaster.stream_distance(unit='m') are distance(i, ds[i])"""
    nrow, ncol = shape
    n = nrow * ncol
    ds = gen_dem_net(rng, shape, p_nodata=0.1)
    try:
        flw = flw_of(shape, T, latlon, ds)
    except ValueError:
        ctx.count("stream_distance:ctor-rejected")
        return
    dist = flw.stream_distance(unit="m")
    first = [i for i in range(n) if ds[i] != n and ds[i] != i and ds[ds[i]] == ds[i]]
    if not first:
        ctx.count("stream_distance:no-first-step")
        return
    first = first[:12]
    vals = [float(dist.flat[i]) for i in first]
    pit_ok = all(float(dist.flat[i]) == 0.0 for i in range(n) if ds[i] == i)
    ctx.count("stream_distance:" + ("geo" if latlon else "proj"))
    desc = {"op": "stream_distance(unit='m')", "transform": tdesc(T), "shape": list(shape), "latlon": latlon,
            "ds": ds, "cells": first}

    def judge(ans):
        a = ans[0]
        if derr(a):
            return derr(a)
        fs = []
        if not pit_ok:
            fs.append({"kind": "spec", "what": "distance at a pit is not 0"})
        for k, (i, v) in enumerate(zip(first, vals)):
            for name, kind in (("spec.d2", "spec"), ("model.d2", "model")):
                want = math.sqrt(float(rout(a, name)[k]))
                if abs(v - want) > 2.0 ** -22 * want:
                    fs.append({"kind": kind, "what": f"stream_distance('m') at cell {i} (one step above pit {ds[i]}) = {v!r}, "
                               f"expected {want!r} (float32)"})
                    return fs
        return fs

    req = {**targs(T), "nrow": nrow, "ncol": ncol, "latlon": int(latlon), "idx0": first, "idx1": [ds[i] for i in first]}
    if latlon:
        req.update(geo_table(T, nrow))
    ctx.add(desc, [("c17_distance", req)], judge, nontrivial=nontriv)


def case_area(ctx, rng, T, cls, latlon, shape, nontriv, glob=False):
    from pyflwdir import gis_utils as gis
    nrow, ncol = shape
    unit = rng.choice(["m2", "m2", "ha", "km2", "cell", "KM2", "acre"])
    ucode = {"m2": 0, "ha": 1, "km2": 2, "cell": 3}.get(unit.lower(), 9)
    via = "gis"
    if unit == "m2" and rng.random() < 0.5:
        via = "flw"
        ncell = nrow * ncol
        dsa = None
        if ncell >= 3 and rng.random() < 0.6:
            # rasters with cells outside the network (nodata): cell area is a property of the grid, not of the network
            dsa = [(ncell if rng.random() < 0.25 else i) for i in range(ncell)]
            if sum(1 for d in dsa if d != ncell) < 2:
                dsa = None
            else:
                ctx.count("area:raster-with-nodata-cells")
        flw = flw_of(shape, T, latlon, ds=dsa)
        if rng.random() < 0.6:
            # the cell-area grid is a query of its own: reading it after an accumulation in another unit
            # must give the same m2 values (the accumulation may not rescale the grid it was handed)
            pre = rng.choice(["km2", "ha", "m2", "cell"])
            call(lambda: flw.upstream_area(pre))
            ctx.count("area:after-upstream_area:" + pre)
        err, val = call(lambda: flw.area)
    else:
        if rng.random() < 0.5:
            # the same grid asked for in another unit first (module-level function: the answer depends on the arguments only)
            call(gis.area_grid, T, shape, latlon, rng.choice(["km2", "ha", "m2", "cell"]))
            ctx.count("area:area_grid-after-other-unit")
        err, val = call(gis.area_grid, T, shape, latlon, unit)
    ctx.count("area:" + ("geo" if latlon else "proj") + ":" + unit + (":global" if glob else ""))
    if err is None:
        arr = np.asarray(val)
        shape_ok = arr.shape == tuple(shape)
        rows_const = bool(np.all(arr == arr[:, :1])) if shape_ok else False
        col0 = [arr[r, 0] for r in range(nrow)] if shape_ok else []
        dtype = arr.dtype
        total = math.fsum(float(v) for v in arr.ravel())
        anynan = bool(np.any(~np.isfinite(arr.astype(np.float64))))
    desc = {"op": "area_grid" if via == "gis" else "FlwdirRaster.area", "transform": tdesc(T), "shape": list(shape),
            "latlon": latlon, "unit": unit}
    fac = {0: 1.0, 1: 1e4, 2: 1e6, 3: 1.0}.get(ucode)

    def judge(ans):
        a = ans[0]
        if derr(a):
            return derr(a)
        fs = []
        mstat = EXC.get(a["status"][0])
        if ucode == 9 and err != "ValueError":
            fs.append({"kind": "spec", "what": f"unknown unit must raise ValueError, got {err or 'returns'}"})
        if mstat != err:
            fs.append({"kind": "model", "what": f"area_grid: implementation {err or 'returns'}, model {mstat or 'returns'}"})
        if err is not None or mstat is not None:
            return fs
        if not shape_ok:
            return [{"kind": "spec", "what": "area grid has not the raster shape"}]
        if anynan:
            return [{"kind": "spec", "what": "area grid contains NaN/inf", "impl": [float(v) for v in col0]}]
        if not rows_const:
            fs.append({"kind": "spec", "what": "cell area varies within a row"})
        mrows, srows = rout(a, "model.rows"), rout(a, "spec.rows")
        for name, rows, kind in (("spec", srows, "spec"), ("model", mrows, "model")):
            if ucode == 3 or not latlon:
                if ucode == 3:
                    want = [1.0] * nrow
                else:  # np.full(shape, area0, float32): the float64 quotient rounded to float32
                    want = [float(np.float32(float(q))) for q in rows] if cls != "real" else None
                if want is not None:
                    ok = [float(v) for v in col0] == want
                else:
                    ok = all(close(fr(v), q, Fr(1, 10 ** 6)) for v, q in zip(col0, rows))
            else:
                ok = all(close(fr(v), q) for v, q in zip(col0, rows))
            if not ok:
                fs.append({"kind": kind, "what": "cell areas differ from "
                           + ("|xres*yres| / spherical cell area at the row's latitude" if kind == "spec" else "Lean model"),
                           "impl": [float(v) for v in col0], name: [float(q) for q in rows]})
        if glob and latlon and ucode in (0, 1, 2):
            sphere = 4 * math.pi * 6371e3 ** 2 / fac
            if abs(total - sphere) > 1e-11 * sphere:
                fs.append({"kind": "spec", "what": f"areas of a global grid add up to {total!r}, sphere is {sphere!r}"})
            if not close(rout(a, "model.total")[0], Fr(sphere), Fr(1, 10 ** 11)):
                fs.append({"kind": "model", "what": "model total of a global grid is not the sphere"})
        return fs

    req = {**targs(T), "nrow": nrow, "ncol": ncol, "latlon": int(latlon), "unit": ucode}
    if latlon:
        e, f = fr(T[4]), fr(T[5])
        keys = [exact(f + j * e) for j in range(nrow + 1)]
        vals_ = [float(np.sin(np.radians(np.float64(v)))) for v in keys]
        req.update({**rargs("sinkey", [fr(v) for v in keys]), **rargs("sinval", [fr(v) for v in vals_]),
                    **rargs("pi180", [fr(np.radians(np.float64(1.0)))])})
    ctx.add(desc, [("c17_area", req)], judge, nontrivial=nontriv)


# ---------------------------------------------------------------------------------------------------
# geographic grids that end at a pole, non-dyadic row heights (own oracle, no Lean driver op: the row edges are
# not dyadic, so neither the exact-key sine table of c17_area nor `exact()` applies)
# ---------------------------------------------------------------------------------------------------
FP = 160
FP_ONE = 1 << FP


def _fp_atan_inv(n):
    x = FP_ONE // n
    s, t, k, n2 = x, x, 1, n * n
    while t:
        t //= n2
        k += 2
        s += -(t // k) if (k // 2) % 2 else t // k
    return s


FP_PI = 4 * (4 * _fp_atan_inv(5) - _fp_atan_inv(239))  # Machin; ~2^-150 accurate


def fp_sin_deg(q):
    """sine of q degrees (Fraction, |q| <= ~100) as a fixed-point integer (FP fractional bits), Taylor series"""
    x = (FP_PI * q.numerator) // (180 * q.denominator)
    x2 = (x * x) >> FP
    s = t = x
    k = 1
    while t:
        t = -((t * x2) >> FP) // ((k + 1) * (k + 2))
        k += 2
        s += t
    return s


R_EARTH2 = 6371000 ** 2
POLAR_N = [200, 600, 900, 1800, 3600, 2160, 360, 720, 1080, 1440, 2000, 2700, 3000, 4320, 5400, 7200]
POLAR_N_BIG = [10800, 21600, 180 * 24, 180 * 100]  # 1/60, 1/120 (, 1/24, 0.01) degree rows


def gen_polar(rng):
    """geographic grid with row height 180/N degree (binary64 quotient: 180/1800 is the literal 0.1 ...) whose
    first or last row ends at a pole: global (N rows) or a polar cap (few rows); returns (T, shape, kind)"""
    u = rng.random()
    if u < 0.55:
        N = int(round(math.exp(rng.uniform(math.log(7), math.log(4000)))))
    elif u < 0.93:
        N = rng.choice(POLAR_N)
    else:
        N = rng.choice(POLAR_N_BIG)
    yres = 180 / N
    northup = rng.random() < 0.6
    if rng.random() < 0.6:
        kind = "global"
        nrow = N
        ncol = rng.choice([1, 2, 3, 4, 5, 6, 7, 8]) if N <= 4000 else rng.choice([1, 2])
        xres, west = 360 / ncol, -180.0
        orig = 90.0 if northup else -90.0
    else:
        nrow = rng.randint(1, min(N // 2, 40))
        ncol = rng.choice([1, 2, 3, 5, 8])
        xres = rng.choice([yres, 0.1, 0.25, 1.0, 2.5, 360 / ncol])
        west = rng.choice([-180.0, 0.0, float(rng.randint(-180, 170)), 180 - xres * ncol])
        pole = rng.choice([90.0, -90.0])
        if (pole > 0) == northup:
            kind = "cap:pole-at-origin"
            orig = pole
        else:  # the pole is the far edge: origin computed the way a user would, pole -/+ nrow * yres
            kind = "cap:pole-at-far-edge"
            orig = pole - nrow * yres if pole > 0 else pole + nrow * yres
    T = Affine(xres, 0.0, west, 0.0, -yres if northup else yres, orig)
    return T, (nrow, ncol), kind


def case_area_polar(ctx, rng):
    from pyflwdir import gis_utils as gis
    T, shape, kind = gen_polar(rng)
    nrow, ncol = shape
    unit = rng.choice(["m2", "m2", "ha", "km2"])
    fac = {"m2": 1, "ha": 10 ** 4, "km2": 10 ** 6}[unit]
    via = "gis"
    if 2 <= nrow * ncol <= 6000 and rng.random() < 0.4:  # (a FlwdirRaster has at least two cells)
        via, unit, fac = "flw", "m2", 1
        flw = flw_of(shape, T, True)
        if rng.random() < 0.3:
            call(lambda: flw.upstream_area(rng.choice(["km2", "ha", "m2"])))
        err, val = call(lambda: flw.area)
    else:
        err, val = call(gis.area_grid, T, shape, True, unit)
    northup = T[4] < 0
    ctx.count("area-polar:" + kind.split(":")[0] + (":north-up" if northup else ":south-up") + ":" + via)
    ctx.count("area-polar:rows>=1000" if nrow >= 1000 else "area-polar:rows<1000")
    desc = {"op": "area_grid" if via == "gis" else "FlwdirRaster.area", "transform": tdesc(T), "shape": list(shape),
            "latlon": True, "unit": unit, "grid": kind + " (row height 180/%d degree)" % round(180 / abs(T[4]))}
    fs = []
    if err is not None:
        fs.append({"kind": "spec", "what": f"cell areas of a geographic grid that ends at the pole: raises {err}"})
    else:
        arr = np.asarray(val)
        if arr.shape != (nrow, ncol):
            fs.append({"kind": "spec", "what": "area grid has not the raster shape"})
        elif not bool(np.all(np.isfinite(arr.astype(np.float64)))):
            fs.append({"kind": "spec", "what": "area grid contains NaN/inf"})
        else:
            if not bool(np.all(arr == arr[:, :1])):
                fs.append({"kind": "spec", "what": "cell area varies within a row"})
            # oracle: edges of row j are f + j*e and f + (j+1)*e (exact rationals of the float transform)
            a, e, f = abs(fr(T[0])), fr(T[4]), fr(T[5])
            sines = [fp_sin_deg(f + j * e) for j in range(nrow + 1)]
            # area = R^2 * radians(|xres|) * band / fac  <=>  band = area * fac * 180 / (R^2 * |xres| * pi)
            knum = fac * 180 * FP_ONE * FP_ONE * a.denominator
            kden = R_EARTH2 * a.numerator * FP_PI
            tol0 = 2 * FP_ONE // 10 ** 15     # absolute, on the difference of two binary64 sines of edge latitudes
            for j in range(nrow):
                want = abs(sines[j + 1] - sines[j])
                g = fr(arr[j, 0])
                got = (g.numerator * knum) // (g.denominator * kden)
                if abs(got - want) > tol0 + want // 10 ** 12:
                    fs.append({"kind": "spec", "what": f"row {j}: cell area {float(arr[j, 0])!r} {unit} is not the spherical "
                               f"cell area between the row's edge latitudes {float(f + j * e)!r} and {float(f + (j + 1) * e)!r}: "
                               f"expected {float(Fr(want * kden, knum))!r}"})
                    break
            if kind == "global":
                total = math.fsum(float(v) for v in arr.ravel())
                sphere = 4 * math.pi * 6371e3 ** 2 / fac
                if abs(total - sphere) > 1e-11 * sphere:
                    fs.append({"kind": "spec", "what": f"areas of a global grid add up to {total!r}, sphere is {sphere!r}"})
    ctx.add(desc, [], lambda ans: fs, nontrivial=True)


# ---------------------------------------------------------------------------------------------------
# resolutions that are nearly (never exactly) a unit fraction, one long raster axis: own exact oracle on the
# coefficients that were PASSED (no Lean op: the coefficients are not dyadic-friendly, and the clause
# 'the object keeps the transform it was given' is about the object, not about gis_utils)
# ---------------------------------------------------------------------------------------------------
NEAR_N = [24, 60, 120, 120, 240, 360, 1200, 3600, 3600, 3, 6, 7, 12, 15, 30, 90, 112, 400, 900, 1800, 7200, 10800]


def gen_near_unit(rng):
    """|res| < 1 within a relative 1e-6 .. 1e-4 of 1/n, res != 1/n: returns (res, description)"""
    for _ in range(1000):
        n = rng.choice(NEAR_N) if rng.random() < 0.6 else int(round(math.exp(rng.uniform(math.log(2), math.log(20000)))))
        unit = 1 / n
        u = rng.random()
        if u < 0.55:     # a cell size as written in a raster header: few significant digits, rounded or cut
            d = rng.randint(4, 9)
            if rng.random() < 0.5:
                res, how = float(f"{unit:.{d}g}"), f"1/{n} rounded to {d} significant digits"
            else:
                mag = 10 ** (d - 1 - math.floor(math.log10(unit)))
                res, how = float(Fr(math.floor(Fr(unit) * mag), mag)), f"1/{n} cut to {d} significant digits"
        elif u < 0.9:
            k = rng.randint(14, 19)
            sgn = rng.choice([-1, 1])
            res, how = unit * (1 + sgn * 2.0 ** -k), f"(1/{n})*(1{'+' if sgn > 0 else '-'}2^-{k})"
        else:            # bounds-style: a span that is a little off, divided by the number of cells
            m = rng.randint(100, 4000)
            span = round(m / n * (1 + rng.choice([-1, 1]) * math.exp(rng.uniform(math.log(1e-6), math.log(1e-4)))), 9)
            res, how = span / m, f"{span!r}/{m} (about 1/{n})"
        dev = abs(Fr(res) * n - 1)
        if res != unit and 0 < res < 1 and Fr(1, 10 ** 6) <= dev <= Fr(1, 10 ** 4) and res != 1 / round(1 / res):
            return res, how
    raise AssertionError("gen_near_unit: no candidate")


def case_near_unit(ctx, rng):
    from pyflwdir import gis_utils as gis
    # --- transform: at least one resolution nearly a unit fraction
    sx, sy = gen_signs(rng)
    rx, hx = gen_near_unit(rng)
    ry, hy = gen_near_unit(rng)
    u = rng.random()
    if u < 0.25:
        ry, hy = rng.choice([1 / 120, 0.05, 0.25, 1.0, 30.0, 1 / 3, rx]), "ordinary"
    elif u < 0.45:
        rx, hx = rng.choice([1 / 120, 0.1, 0.5, 1.0, 92.7, 1 / 3, ry]), "ordinary"
    org = lambda lim: float(rng.choice([rng.randint(-lim, lim), round(rng.uniform(-lim, lim), rng.randint(1, 6)),  # noqa: E731
                                        Fr(rng.randint(-lim * 8, lim * 8), 8)]))
    T = Affine(sx * rx, 0.0, org(180), 0.0, sy * ry, org(80))
    # --- shape: one long axis
    long_ = int(round(math.exp(rng.uniform(math.log(30), math.log(4000)))))
    short = rng.choice([1, 1, 2, 3])
    nrow, ncol = (short, long_) if hx != "ordinary" and (hy == "ordinary" or rng.random() < 0.75) else (long_, short)
    shape, n = (nrow, ncol), nrow * ncol
    a, c, e, f = fr(T[0]), fr(T[2]), fr(T[4]), fr(T[5])
    latlon = abs(f) + nrow * abs(e) <= 90 and rng.random() < 0.25
    # --- the object, georeferenced through the constructor or through set_transform
    route = rng.choice(["ctor", "ctor", "ctor:tuple", "set_transform", "set_transform", "set_transform:tuple"])
    given = tuple(T)[:6] if route.endswith("tuple") else T
    if route.startswith("ctor"):
        flw = mk_raster(list(range(n)), shape, transform=given, latlon=latlon)
    else:
        T0 = rng.choice([None, Affine(1 / 120, 0.0, T[2], 0.0, -1 / 120, T[5]), Affine(T[4], 0.0, 1.0, 0.0, T[0], 2.0)])
        flw = mk_raster(list(range(n)), shape, **({} if T0 is None else {"transform": T0}))
        if rng.random() < 0.5:   # (answers of the old georeference may not survive)
            call(lambda: flw.area)
            call(lambda: flw.xy(np.arange(min(n, 4))))
        flw.set_transform(given, latlon)
    ctx.count("near-unit:" + route)
    ctx.count("near-unit:long-" + ("columns" if ncol >= nrow else "rows"))
    ctx.count("near-unit:cells>=1000" if n >= 1000 else "near-unit:cells<1000")
    desc = {"op": "FlwdirRaster transform / xy / index / bounds / area, resolution nearly a unit fraction",
            "route": route, "transform": tdesc(T), "xres": hx, "yres": hy, "shape": list(shape), "latlon": bool(latlon)}
    fs = []
    tolx = 4 * Fr(2) ** -52 * (abs(c) + ncol * abs(a))
    toly = 4 * Fr(2) ** -52 * (abs(f) + nrow * abs(e))
    # (1) the transform of the object is the transform that was passed
    kept = [float(v) for v in tuple(flw.transform)[:6]]
    if kept != tdesc(T) or bool(flw.latlon) != bool(latlon):
        fs.append({"kind": "spec", "what": "the raster does not use the transform it was given: flw.transform = "
                   f"{kept!r}, latlon {flw.latlon!r}", "impl": kept, "spec": tdesc(T)})
    # (2) cell centres: origin + (k + 1/2) * res of the passed coefficients
    cells = {0, ncol - 1, n - ncol, n - 1, (nrow // 2) * ncol + ncol // 2}
    cells |= {rng.randrange(n) for _ in range(6)} | {rng.randrange(nrow) * ncol + ncol - 1 - rng.randrange(min(ncol, 3))
                                                    for _ in range(2)}
    cells = sorted(cells)
    desc["idxs"] = cells
    err, val = call(flw.xy, np.array(cells))
    if err is not None:
        fs.append({"kind": "spec", "what": f"xy of cells inside the raster raises {err}"})
    else:
        xs, ys = [float(v) for v in np.asarray(val[0]).ravel()], [float(v) for v in np.asarray(val[1]).ravel()]
        for i, x, y in zip(cells, xs, ys):
            r, cc = divmod(i, ncol)
            wx, wy = c + (cc + Fr(1, 2)) * a, f + (r + Fr(1, 2)) * e
            if not (math.isfinite(x) and math.isfinite(y)) or abs(fr(x) - wx) > tolx or abs(fr(y) - wy) > toly:
                fs.append({"kind": "spec", "what": f"xy({i}) = ({x!r}, {y!r}) is not the centre of cell (row {r}, col {cc}) "
                           f"of the given transform: ({float(wx)!r}, {float(wy)!r}); off by "
                           f"{float((fr(x) - wx) / a) if math.isfinite(x) else x:.3g} / "
                           f"{float((fr(y) - wy) / e) if math.isfinite(y) else y:.3g} cells"})
                break
    # (3) bounds / extent: origin and far corner (west, south, east, north for north-up)
    wb = [c, f + nrow * e, c + ncol * a, f]
    b = [float(v) for v in flw.bounds]
    ex = [float(v) for v in flw.extent]
    if any(not math.isfinite(v) or abs(fr(v) - w) > t for v, w, t in zip(b, wb, (tolx, toly, tolx, toly))):
        fs.append({"kind": "spec", "what": "bounds are not (xoff, yoff + nrow*yres, xoff + ncol*xres, yoff) of the given "
                   "transform", "impl": b, "spec": [float(w) for w in wb]})
    if ex != [b[0], b[2], b[1], b[3]]:
        fs.append({"kind": "spec", "what": "extent is not [xmin, xmax, ymin, ymax] of bounds", "impl": ex})
    if T[0] > 0 and T[4] < 0:
        ctx.count("near-unit:north-up")
        xa, ya = flw.xy(np.arange(n))
        if not bool(np.all((xa > b[0]) & (xa < b[2]) & (ya > b[1]) & (ya < b[3]))) \
                or not bool(np.all((xa > float(wb[0])) & (xa < float(wb[2])) & (ya > float(wb[1])) & (ya < float(wb[3])))):
            fs.append({"kind": "spec", "what": "a cell centre is not strictly inside the bounds", "impl": b})
    # (4) containing cell of points 1 % inside a cell / in its middle, near the far end of the long axis and elsewhere;
    # expected cell by exact rational arithmetic on the float point that is handed over
    fracs = [Fr(1, 100), Fr(1, 2), Fr(99, 100)]
    pix = [(rng.randrange(nrow), ncol - 1, rng.choice(fracs), Fr(1, 100)), (nrow - 1, rng.randrange(ncol), Fr(1, 100), rng.choice(fracs)),
           (rng.randrange(nrow), ncol - 1, rng.choice(fracs), Fr(99, 100)), (nrow - 1, rng.randrange(ncol), Fr(99, 100), rng.choice(fracs)),
           (0, 0, rng.choice(fracs), rng.choice(fracs))]
    pix += [(rng.randrange(nrow), rng.randrange(ncol), rng.choice(fracs), rng.choice(fracs)) for _ in range(3)]
    pix += [(rng.randrange(nrow), ncol, rng.choice(fracs), Fr(1, 100)), (nrow, rng.randrange(ncol), Fr(1, 100), rng.choice(fracs)),
            (rng.randrange(nrow), -1, rng.choice(fracs), Fr(99, 100)), (-1, rng.randrange(ncol), Fr(99, 100), rng.choice(fracs))]
    pts = []
    for r, cc, fy, fx in pix:
        x, y = float(c + (cc + fx) * a), float(f + (r + fy) * e)
        r1, c1 = math.floor((fr(y) - f) / e), math.floor((fr(x) - c) / a)
        pts.append((x, y, r1 * ncol + c1 if 0 <= r1 < nrow and 0 <= c1 < ncol else None))
    desc["points"] = [[p[0], p[1]] for p in pts]
    inside = [p for p in pts if p[2] is not None]
    err, val = call(flw.index, np.array([p[0] for p in inside]), np.array([p[1] for p in inside]))
    if err is not None or ints(val) != [p[2] for p in inside]:
        fs.append({"kind": "spec", "what": "returned index is not the cell of the given transform that contains the point",
                   "impl": err or ints(val), "spec": [p[2] for p in inside]})
    for x, y, want in pts:
        if want is None:
            ctx.count("near-unit:point-outside")
            for form, X, Y in point_forms(x, y)[:2]:
                err, val = call(flw.index, X, Y)
                if err != "IndexError":
                    fs.append({"kind": "spec", "what": f"point ({x!r}, {y!r}) ({form}) is 1 % of a cell outside the raster of the "
                               f"given transform: must raise IndexError, got {err or 'returns ' + str(ints(val))}"})
    # (5) projected cell area |xres * yres| (float32 grid)
    if not latlon:
        err, val = call(lambda: flw.area)
        want = abs(a * e)
        if err is not None or np.asarray(val).shape != shape:
            fs.append({"kind": "spec", "what": f"area: {err or 'wrong shape'}"})
        else:
            arr = np.asarray(val)
            lo, hi = float(arr.min()), float(arr.max())
            if not (abs(fr(lo) - want) <= want * Fr(2) ** -22 and abs(fr(hi) - want) <= want * Fr(2) ** -22):
                fs.append({"kind": "spec", "what": f"cell areas {lo!r} .. {hi!r} differ from |xres*yres| = {float(want)!r} of the "
                           f"given transform (relative {float(abs(fr(hi) - want) / want):.2g})"})
    ctx.add(desc, [], lambda ans: fs, nontrivial=abs(T[0]) != abs(T[4]))


def case_real(ctx, rng, T, shape):
    """non-dyadic transform: implementation-level spec checks only (no exact model comparison possible)"""
    from pyflwdir import gis_utils as gis
    nrow, ncol = shape
    n = nrow * ncol
    flw = flw_of(shape, T, False)
    idxs = np.arange(n)
    xs, ys = flw.xy(idxs)
    err, back = call(flw.index, xs, ys)
    ctx.evaluations += 1
    ctx.count("real:roundtrip")
    desc = {"op": "index(xy(all cells))", "transform": tdesc(T), "shape": list(shape)}
    if err is not None or ints(back) != list(range(n)):
        ctx.fail(desc, "spec", f"round trip index(xy(i)) != i on a non-dyadic transform: {err or ints(back)}")
    # outside: one cell beyond each side
    a, e, c, f = T[0], T[4], T[2], T[5]
    pts = [(c + 0.5 * a, f - 0.5 * e), (c + 0.5 * a, f + (nrow + 0.5) * e)]
    for r in range(nrow):   # half a cell left / right of EVERY row
        pts += [(c - 0.5 * a, f + (r + 0.5) * e), (c + (ncol + 0.5) * a, f + (r + 0.5) * e)]
    pts += [(c - 0.5 * a, f + (nrow + 0.5) * e), (c + (ncol + 0.5) * a, f - 0.5 * e)]  # diagonal corners
    for (x, y) in pts:
        for form, X, Y in point_forms(float(x), float(y))[:4]:  # one-element arrays and scalars
            err, _ = call(flw.index, X, Y)
            if err != "IndexError":
                ctx.fail({**desc, "op": "index", "x": x, "y": y, "given as": form}, "spec",
                         f"point half a cell outside the raster ({form}) must raise IndexError, got {err or 'returns'}")
    # every cell centre as a scalar call
    for i in rng.sample(range(n), min(n, 6)):
        for form, X, Y in point_forms(float(xs[i]), float(ys[i]))[1:4]:
            err, val = call(flw.index, X, Y)
            if err is not None or ints(val) != [i]:
                ctx.fail({**desc, "op": "index", "x": float(xs[i]), "y": float(ys[i]), "given as": form}, "spec",
                         f"round trip index(xy({i})) with a scalar point ({form}): {err or ints(val)}")


def exhaustive_small(ctx):
    """thorough tier: every shape up to 3x3 (and 1x4, 4x1) x four sign patterns x an exact and a Pythagorean
    resolution pair: xy of every cell and corner offset, index of every half-step point of the raster
    extended by one cell on each side (inside points in one call, every outside point on its own),
    distance of every ordered pair of cells (projected and geographic), areas."""
    from pyflwdir import gis_utils as gis
    shapes = [(1, 1), (1, 2), (2, 1), (2, 2), (2, 3), (3, 2), (3, 3), (1, 4), (4, 1)]
    for shape in shapes:
        nrow, ncol = shape
        n = nrow * ncol
        for sx, sy in ((1, -1), (1, 1), (-1, -1), (-1, 1)):
            for (px, py, cls) in ((Fr(2), Fr(1, 2), "exact"), (Fr(3), Fr(4), "pyth")):
                a, e = sx * px, sy * py
                c, f = Fr(-21, 4), Fr(13, 2)
                T = Affine(exact(a), 0.0, exact(c), 0.0, exact(e), exact(f))
                base = {**targs(T), "nrow": nrow, "ncol": ncol}
                ctx.count("exhaustive:transform")
                # xy, all cells, all offsets
                for offn, offc in (("center", 0), ("ul", 1), ("ur", 2), ("ll", 3), ("lr", 4)):
                    xs, ys = gis.idxs_to_coords(np.arange(n), T, shape, offset=offn)
                    xs, ys = [float(v) for v in xs], [float(v) for v in ys]

                    def judge(ans, xs=xs, ys=ys):
                        a_ = ans[0]
                        if derr(a_):
                            return derr(a_)
                        fs = []
                        if [fr(v) for v in xs] != rout(a_, "spec.x") or [fr(v) for v in ys] != rout(a_, "spec.y"):
                            fs.append({"kind": "spec", "what": "coordinates are not the cell centre / requested corner"})
                        if [fr(v) for v in xs] != rout(a_, "model.x") or [fr(v) for v in ys] != rout(a_, "model.y"):
                            fs.append({"kind": "model", "what": "xy: implementation != Lean model"})
                        return fs
                    ctx.add({"op": "idxs_to_coords", "transform": tdesc(T), "shape": list(shape), "idxs": "all",
                             "offset": offn}, [("c17_xy", {**base, "idxs": list(range(n)), "off": offc})], judge)
                # index: half-step lattice on the raster extended by one cell
                inside, outside = [], []
                for i2 in range(-2, 2 * nrow + 3):
                    for j2 in range(-2, 2 * ncol + 3):
                        if cls != "exact" and (i2 % 2 == 0 or j2 % 2 == 0):
                            continue  # edge points need exact arithmetic
                        x, y = exact(c + Fr(j2, 2) * a), exact(f + Fr(i2, 2) * e)
                        (inside if 0 <= i2 < 2 * nrow and 0 <= j2 < 2 * ncol else outside).append((x, y, (i2 // 2) * ncol + j2 // 2))
                groups = [inside] + [[p] for p in outside]
                for g in groups:
                    xs, ys = [p[0] for p in g], [p[1] for p in g]
                    err, val = call(gis.coords_to_idxs, np.array(xs), np.array(ys), T, shape)
                    impl = None if val is None else ints(val)
                    want_err = None if g is inside else "IndexError"
                    want = [p[2] for p in g] if g is inside else None

                    def judge(ans, err=err, impl=impl, want_err=want_err, want=want):
                        a_ = ans[0]
                        if derr(a_):
                            return derr(a_)
                        fs = []
                        if err != want_err or impl != want or EXC.get(a_["spec.status"][0]) != err \
                                or (err is None and impl != a_["spec.idxs"]):
                            fs.append({"kind": "spec", "what": "index of a lattice point: wrong cell or wrong IndexError behaviour",
                                       "impl": err or impl, "expected": want_err or want})
                        if EXC.get(a_["status"][0]) != err or (err is None and impl != a_["model.idxs"]):
                            fs.append({"kind": "model", "what": "coords_to_idxs: implementation != Lean model"})
                        return fs
                    ctx.add({"op": "coords_to_idxs", "transform": tdesc(T), "shape": list(shape), "xs": xs, "ys": ys},
                            [("c17_index", {**base, **rargs("x", [fr(v) for v in xs]), **rargs("y", [fr(v) for v in ys]),
                                            "op": 0})], judge)
                # distances: all ordered pairs
                pairs = [(i, j) for i in range(n) for j in range(n)]
                for latlon in (False, True):
                    ds_ = [float(gis.distance(i, j, ncol, latlon, T)) for i, j in pairs]

                    def judge(ans, ds_=ds_, latlon=latlon, n=n):
                        a_ = ans[0]
                        if derr(a_):
                            return derr(a_)
                        fs = check_dists(ds_, a_, latlon, "distance")
                        if any(ds_[i * n + j] != ds_[j * n + i] for i in range(n) for j in range(n)):
                            fs.append({"kind": "spec", "what": "distance not symmetric"})
                        return fs
                    req = {**base, "latlon": int(latlon), "idx0": [p[0] for p in pairs], "idx1": [p[1] for p in pairs]}
                    if latlon:
                        req.update(geo_table(T, nrow, ctx))
                    ctx.add({"op": "distance", "transform": tdesc(T), "shape": list(shape), "latlon": latlon,
                             "pairs": "all"}, [("c17_distance", req)], judge)
                if len(ctx.cases) > 400:
                    ctx.flush()
    ctx.exhaustive = True


# ---------------------------------------------------------------------------------------------------
def run(ctx):
    rng = ctx.rng
    if ctx.tier != "quick":
        exhaustive_small(ctx)
    ntr = (45 if ctx.tier == "quick" else 900) * ctx.escalate
    max_cells = 56 if ctx.tier == "quick" else 400
    for k in range(ntr):
        shape = gen_shape(rng, max_cells=max_cells)
        T, cls, latlon = gen_transform(rng, shape)
        ctx.count("class:" + cls)
        ctx.count("signs:" + ("+" if T[0] > 0 else "-") + ("+" if T[4] > 0 else "-"))
        if shape[0] == 1 or shape[1] == 1:
            ctx.count("shape:1xN/Nx1")
        nontriv = shape[0] * shape[1] >= 2 and abs(T[0]) != abs(T[4])
        if k % 3 == 1:
            case_near_unit(ctx, rng)
        if cls == "real":
            case_real(ctx, rng, T, shape)
            case_xy(ctx, rng, T, cls, shape, nontriv)
            case_bounds(ctx, rng, T, cls, shape, nontriv)
            case_area(ctx, rng, T, cls, False, shape, nontriv)
            continue
        case_xy(ctx, rng, T, cls, shape, nontriv)
        case_index(ctx, rng, T, cls, shape, nontriv)
        case_index(ctx, rng, T, cls, shape, nontriv)
        case_index_scalar(ctx, rng, T, cls, shape, nontriv)
        if k % 2 == 1:
            case_index_scalar(ctx, rng, T, cls, shape, nontriv)
        if cls != "rot" and k % 5 == 0:
            case_index_nonfinite(ctx, rng, T, cls, shape)
        case_rowcol(ctx, rng, T, cls, shape, nontriv)
        case_bounds(ctx, rng, T, cls, shape, nontriv)
        if cls != "rot":
            case_distance(ctx, rng, T, cls, latlon, shape, nontriv)
            if rng.random() < 0.5:
                case_stream_distance(ctx, rng, T, cls, latlon, shape, nontriv)
            case_area(ctx, rng, T, cls, latlon, shape, nontriv)
            if latlon and rng.random() < 0.5:  # the same grid read as projected, and vice versa
                case_area(ctx, rng, T, cls, False, shape, nontriv)
        if k % 3 == 0:
            case_transform(ctx, rng)
        if k % 4 == 0:
            Tg, shg = gen_global(rng)
            case_area(ctx, rng, Tg, "geo", True, shg, Tg[0] != abs(Tg[4]), glob=True)
            case_distance(ctx, rng, Tg, "geo", True, shg, Tg[0] != abs(Tg[4]))
        if k % 2 == 0:
            case_area_polar(ctx, rng)
        if len(ctx.cases) > 400:
            ctx.flush()
