"""C14 - along-network operators: correspondence of Flwdir.downstream / upstream_sum / fillnodata /
moving_average / moving_median / core._window and FlwdirRaster.stream_distance / hand / floodplains
with the Lean model (eq) and with independent declarative oracles evaluated in Lean (spec).

All fields are small integers (stored as int32 / float32 / float64) so that the implementation's
float arithmetic is exact; averages are compared with the correctly rounded quotient of the exact
rational; cell sizes for unit='m' are 3 x 4 (diagonal 5); `uparea ** b` is a parameter.
"""
from fractions import Fraction
import itertools
import numpy as np
from common import (gen_raster_net, gen_forest, mk_raster, mk_vector, canon_idx, ints, net_features,
                    max_path_len, exc_class)

OPS = ["downstream", "upstream_sum", "fillnodata(up)", "fillnodata(down,min)", "fillnodata(down,max)",
       "fillnodata(down,sum)", "_window", "main_upstream", "moving_average", "moving_average(weights)",
       "moving_average(restrict_strord)", "moving_median", "moving_median(restrict_strord)",
       "stream_distance(cell)", "stream_distance(m)", "stream_distance(mask)", "hand", "floodplains", "smooth_rivlen",
       "errors"]
RULE = ("random loop-free networks on rasters <= 56 cells (quick) / <= 400 (thorough): D8 networks from random "
        "DEMs and arbitrary forests, both classes (FlwdirRaster, Flwdir); fields = small random integers with "
        "20-80% nodata cells (nodata in {-9999,-1,0}); fillnodata also (30%) on float32 / float64 fields whose valid cells "
        "hold values at dyadic distances 2**-4 .. 2**-40 of nodata's binade (both signs, incl. the neighbouring floats) from "
        "nodata in {-9999,-1,1,+-float32(1e20),float32(3e38),float32(-2.5e-3)}, all values and partial sums exactly "
        "representable, judged on an own exact-rational oracle and (scaled to integers) on the Lean model; downstream / upstream_sum also (40%) on integer fields of every "
        "dtype int8..int64 / uint8..uint64 (half of them 64-bit) over the whole range of the dtype - values and sums at "
        "the range ends, beyond 2**53 and (uint64) 2**63, one dominant + tiny inflows, mixed signs, mv at a range end or "
        "the default - with every true (partial) sum inside the dtype, compared exactly as integers; windows n = 0..4, how in {min,max,sum}, weights incl. 0 "
        "and negative, all four (restrict_strord, strord) combinations, masks random / by upstream area, "
        "unit='m' on 3x4 cells, thresholds uparea**b with b in {0.3,0.5,1,2} (b=1: exact ties); smooth_rivlen: "
        "max_window 0..10, lengths = multiples of lcm(window sizes)^d from few levels (ties) or many, also on long "
        "chains; regression cases for the filled-flag fix of fill 'down'. non-trivial = "
        ">= 2 valid cells, >= 1 confluence, path length >= 3; distinct = SHA-1 of (op, network, all inputs)")
HOW = {"max": 0, "min": 1, "sum": 2}
HDEN = 2 ** 30


def exact_ints(a):
    """float/int array -> list of python ints, or None if some value is not an integer"""
    out = []
    for x in np.asarray(a).ravel().tolist():
        if isinstance(x, float):
            if x != x or x in (float("inf"), float("-inf")) or not x.is_integer():
                return None
        out.append(int(x))
    return out


def upstream_counts(ds):
    """harness' own upstream cell counts (incl. the cell), brute force walks"""
    n = len(ds)
    cnt = [0] * n
    for i in range(n):
        if ds[i] == n:
            continue
        j, k = i, 0
        cnt[j] += 1
        while ds[j] != j and k <= n:
            j = ds[j]
            cnt[j] += 1
            k += 1
    return cnt


def gen_field(rng, n, nodata, p_nd, lo=-4, hi=12, positive=False):
    vals = []
    for _ in range(n):
        if rng.random() < p_nd:
            vals.append(nodata)
        else:
            v = rng.randint(1, hi) if positive else rng.randint(lo, hi)
            while v == nodata:
                v = rng.randint(1, hi) if positive else rng.randint(lo, hi)
            vals.append(v)
    return vals


def drv_err(a):
    for x in a:
        if "__err__" in x:
            return [{"kind": "model", "what": "driver error " + x["__err__"]}]
    return None


def cmp_eq(fs, impl, a, what, spec_key="spec", model_key="model", only=None, unit="cells"):
    """exact comparison impl vs spec (property) and impl vs model (correspondence)"""
    idx = range(len(impl)) if only is None else only
    bad = [i for i in idx if impl[i] != a[spec_key][i]]
    if bad:
        fs.append({"kind": "spec", "what": f"{what}: differs from the flow-path definition at {unit} {bad[:6]}",
                   "impl": impl, "spec": a[spec_key]})
    if impl != a[model_key]:
        bad = [i for i in range(len(impl)) if impl[i] != a[model_key][i]]
        fs.append({"kind": "model", "what": f"{what}: implementation != Lean model at cells {bad[:6]}",
                   "impl": impl, "model": a[model_key]})


def topo_fail(fs, a):
    if a.get("topo") != [1]:
        fs.append({"kind": "spec", "what": "cell order handed to the sweep is not downstream-first (C03 hypothesis)"})
    if "cover" in a and a["cover"] != [1]:
        fs.append({"kind": "spec", "what": "cell order handed to the sweep does not hold every cell of the network / field "
                   "size != network size (hypotheses of fill_down_eq_spec)"})
    if "cover" in a and a["cover"] == [1] and a.get("topo") == [1] and a["model"] != a["spec"]:
        # proved impossible (fill_down_eq_spec): the driver would not be the proved build
        fs.append({"kind": "model", "what": "Lean model != Lean oracle although the hypotheses of fill_down_eq_spec hold"})


class Net:
    pass


def make_net(ctx, rng, max_cells):
    N = Net()
    if rng.random() < 0.2:
        n = rng.randint(3, min(max_cells, 40))
        N.ds = gen_forest(rng, n, fanin_bias=rng.choice([0.0, 0.5]))
        N.shape = (n,)
        N.fam = "vector"
        N.flw = mk_vector(N.ds)
        N.raster = False
    else:
        N.ds, N.shape, N.fam = gen_raster_net(rng, max_cells=max_cells)
        N.flw = mk_raster(N.ds, N.shape)
        N.raster = True
    N.n = len(N.ds)
    feat = net_features(N.ds)
    N.nontriv = feat["valid"] >= 2 and feat["confluences"] >= 1 and max_path_len(N.ds) >= 3
    N.seq = canon_idx(N.flw.idxs_seq, N.n)
    N.base = {"ds": N.ds, "shape": list(N.shape), "class": "FlwdirRaster" if N.raster else "Flwdir"}
    return N


def arr(N, vals, dtype):
    return np.array(vals, dtype=dtype).reshape(N.shape)


def enlarge(ctx, rng, data, dt, n, nd=None, p=0.2):
    """with probability p shift the (non-nodata) values by a base beyond float32's 24 bits such that every sum of
    up to n+1 terms stays exact in dtype `dt` (int32 / int64 / float64)"""
    if rng.random() >= p or dt == np.float32:
        return data
    lim = 2 ** 31 - 64 if dt == np.int32 else 2 ** 52
    hi = lim // (n + 2) - 64
    if hi <= 2 ** 24:
        return data
    base = rng.randint(2 ** 24, hi)
    ctx.count("field:large-magnitude")
    return [v if (nd is not None and v == nd) else base + v for v in data]


WIDE_DTYPES = [np.int64, np.int64, np.int64, np.uint64, np.uint64, np.uint64, np.int32, np.uint32, np.int16, np.uint16,
               np.int8, np.uint8]


def exact_arr(N, vals, dtype):
    """integer field of the given dtype holding exactly `vals` (python ints of any magnitude the dtype can hold)"""
    a = np.array([int(v) for v in vals], dtype=dtype).reshape(N.shape)
    assert a.dtype == np.dtype(dtype) and a.ravel().tolist() == [int(v) for v in vals], "harness: field not representable"
    return a


def _any_value(rng, lo, hi, bits):
    """a value anywhere in [lo, hi]: the range ends, around powers of two (2**24, 2**31, 2**53, 2**63 ...), random widths"""
    u = rng.random()
    if u < 0.2:
        v = rng.choice([lo, lo + 1, hi, hi - 1, hi // 2, hi // 2 + 1])
    elif u < 0.45:
        v = (1 << rng.randint(1, bits)) + rng.randint(-3, 3)
        v = -v if (lo < 0 and rng.random() < 0.5) else v
    elif u < 0.85:
        v = rng.getrandbits(rng.randint(1, bits))
        v = -v if (lo < 0 and rng.random() < 0.5) else v
    else:
        v = rng.randint(lo, hi)
    return min(max(v, lo), hi)


def gen_wide_field(ctx, rng, N, dt, nd, p_nd):
    """Integer field that uses the WHOLE range of dtype `dt` (int8 ... int64, uint8 ... uint64; for the 64-bit types far
    beyond the 53 bits a binary64 holds) such that every sum over the direct upstream cells of a cell - and every
    partial sum, in any order, also on top of the missing value a flagged cell holds - still fits the dtype: per cell j
    with k inflowing cells a total magnitude T_j <= max(dtype) - |nd| - k is drawn (at the range end / log-uniform /
    random width / small) and split into k parts (random cuts; uniform, or one dominant part) with one common or (signed
    types) mixed signs. Cells whose value enters no sum (pits, cells outside the network) take any value of the range
    incl. both ends. Returns python ints; guard asserted."""
    info = np.iinfo(dt)
    lo, hi, bits = int(info.min), int(info.max), int(info.bits) - (1 if info.min < 0 else 0)
    n = N.n
    inflow = [[] for _ in range(n)]
    for i, d in enumerate(N.ds):
        if d != n and d != i:
            inflow[d].append(i)
    data = [None] * n

    def avoid(v):
        # a value that is not the missing value, moved towards zero (keeps every magnitude bound)
        if v != nd:
            return v
        if v > 0:
            return v - 1
        if v < 0:
            return v + 1
        return 1
    style = rng.choice(["end", "end", "log", "log", "width", "mixed-styles", "small"])
    for j in range(n):
        U = inflow[j]
        k = len(U)
        if k == 0:
            continue
        B = hi - abs(nd) * (1 if p_nd > 0 else 0) - k      # budget for sum |v|; k spare for the steps `avoid` may add
        B = max(B, 0)
        st = style if style != "mixed-styles" else rng.choice(["end", "log", "width", "small"])
        if st == "end":
            T = max(B - rng.choice([0, 0, 1, 2, rng.randint(0, 1000)]), 0)
        elif st == "log":
            T = min(B, rng.randint(1 << (bits - 1), 1 << bits) >> rng.randint(0, max(bits - 50, 3) if bits > 53 else bits - 1))
        elif st == "width":
            T = min(B, rng.getrandbits(rng.randint(1, bits)))
        else:
            T = min(B, rng.randint(0, 40))
        # split T into k non-negative parts
        if k == 1:
            parts = [T]
        else:
            if rng.random() < 0.5:
                cuts = sorted(rng.randint(0, T) for _ in range(k - 1))
            else:       # one dominant part, the others comparatively tiny (they vanish in a rounded accumulation)
                small = min(T, 1 << rng.randint(1, 12))
                cuts = sorted(rng.randint(0, small) for _ in range(k - 1))
            parts = [b - a for a, b in zip([0] + cuts, cuts + [T])]
            rng.shuffle(parts)
        if lo < 0:
            sg = rng.choice(["+", "-", "mixed"])
            parts = [p if sg == "+" else -p if sg == "-" else rng.choice([p, -p]) for p in parts]
        for u, p in zip(U, parts):
            data[u] = avoid(p)
    for i in range(n):
        if data[i] is None:
            data[i] = avoid(_any_value(rng, lo, hi, bits))
        if p_nd > 0 and rng.random() < p_nd:
            data[i] = nd
    # the guard (declarative): on top of a missing value, all magnitudes flowing into one cell fit the dtype
    for j in range(n):
        tot = sum(abs(data[u]) for u in inflow[j] if data[u] != nd) + (abs(nd) if p_nd > 0 else 0)
        assert tot <= hi, "harness: wide field outside the no-wrap domain"
    assert all(lo <= v <= hi for v in data)
    return data


def wide_nodata(rng, dt, p_nd):
    """missing value for a wide field: representable in the dtype; at a range end only for fields without empty cells
    (a flagged cell accumulates later inflows on top of it)"""
    info = np.iinfo(dt)
    lo, hi = int(info.min), int(info.max)
    cand = [0, 1, rng.randint(lo // 2, hi // 2)]
    if lo < 0:
        cand += [-1]
    if lo <= -9999:
        cand += [-9999, -9999]
    if p_nd == 0:
        cand += [lo, hi, hi]
    return rng.choice(cand)


# ---------------------------------------------------------------------------------------------
def case_downstream_wide(ctx, rng, N):
    """downstream on fields of every integer dtype over its whole range (64-bit: beyond 2**53 / 2**63), and on float
    fields holding large exactly representable integers: the operator copies, so every value must arrive unchanged"""
    if rng.random() < 0.75:
        dt = rng.choice(WIDE_DTYPES)
        info = np.iinfo(dt)
        lo, hi, bits = int(info.min), int(info.max), int(info.bits) - (1 if info.min < 0 else 0)
        data = [_any_value(rng, lo, hi, bits) for _ in range(N.n)]
        field = exact_arr(N, data, dt)
    else:
        dt = rng.choice([np.float64, np.float32])
        data = [int(dt(_any_value(rng, -2 ** 100, 2 ** 100, 100))) for _ in range(N.n)]
        field = np.array([float(v) for v in data], dtype=dt).reshape(N.shape)
        assert exact_ints(field) == data
    out = N.flw.downstream(field)
    impl = exact_ints(out)
    same_dtype = out.dtype == field.dtype
    ctx.count("op:downstream(wide:" + np.dtype(dt).name + ")")
    ctx.count("downstream:result-dtype-" + ("same" if same_dtype else "differs(observed)"))

    def judge(ans):
        e = drv_err(ans)
        if e:
            return e
        fs = []
        if impl is None:
            return [{"kind": "spec", "what": "downstream: non-integer output"}]
        # own oracle, exact python ints: value of the downstream cell (the cell's own outside the network / at pits)
        want = [data[N.ds[i]] if N.ds[i] != N.n else data[i] for i in range(N.n)]
        bad = [i for i in range(N.n) if impl[i] != want[i]]
        if bad:
            fs.append({"kind": "spec", "what": f"downstream({np.dtype(dt).name}): not the value of the downstream cell at cells {bad[:6]}",
                       "impl": impl, "expected": want})
        cmp_eq(fs, impl, ans[0], "downstream")
        return fs
    ctx.add({"op": "downstream", **N.base, "data": data, "dtype": np.dtype(dt).name},
            [("c14_downstream", {"ds": N.ds, "data": data})], judge, nontrivial=N.nontriv)


def case_upstream_sum_wide(ctx, rng, N):
    """upstream_sum on integer fields over the whole range of their dtype, every true sum inside the dtype; compared
    exactly (python ints / Lean Int) with the sum over the direct upstream cells"""
    dt = rng.choice(WIDE_DTYPES)
    p_nd = rng.choice([0.0, 0.0, 0.0, 0.1, 0.3])
    nd = wide_nodata(rng, dt, p_nd)
    data = gen_wide_field(ctx, rng, N, dt, nd, p_nd)
    field = exact_arr(N, data, dt)
    default_mv = nd == -9999 and rng.random() < 0.5      # the documented default of the `mv` argument
    out = N.flw.upstream_sum(field) if default_mv else N.flw.upstream_sum(field, mv=nd)
    impl = exact_ints(out)
    name = f"upstream_sum({np.dtype(dt).name})"
    # own oracle (exact): sum over the direct upstream cells (those that hold a value)
    want = [0] * N.n
    for i, d in enumerate(N.ds):
        if d != N.n and d != i and data[i] != nd:
            want[d] += data[i]
    big = max([abs(v) for v in want] + [0])
    ctx.count("op:upstream_sum(wide:" + np.dtype(dt).name + ")" + ("(nodata)" if nd in data else ""))
    if big > 2 ** 53:
        ctx.count("upstream_sum:sums-beyond-2**53")
    if big >= 2 ** 63:
        ctx.count("upstream_sum:sums-beyond-2**63")
    if np.dtype(dt).itemsize < 8 and big >= int(np.iinfo(dt).max) - 1100:
        ctx.count("upstream_sum:sums-at-range-end(narrow dtype)")
    ctx.count("upstream_sum:result-dtype-" + ("same" if out.dtype == field.dtype else "differs(observed)"))

    def judge(ans):
        e = drv_err(ans)
        if e:
            return e
        a = ans[0]
        fs = []
        if impl is None:
            return [{"kind": "spec", "what": name + ": non-integer output"}]
        only = [i for i in range(N.n) if a["fixed"][i] == 1 and N.ds[i] != N.n]
        # where the property fixes the value (neither the cell nor its downstream cell is empty) the Lean oracle and
        # the harness' own sum must agree; the implementation is compared with both
        bad = [i for i in only if a["spec"][i] != want[i]]
        if bad:
            fs.append({"kind": "model", "what": f"{name}: Lean oracle != harness' own exact sum at cells {bad[:6]}"})
        bad = [i for i in only if impl[i] != want[i]]
        if bad:
            fs.append({"kind": "spec", "what": f"{name}: not the exact sum over the direct upstream cells at cells {bad[:6]} "
                       f"(off by {[impl[i] - want[i] for i in bad[:6]]})", "impl": impl, "expected": want})
        cmp_eq(fs, impl, a, name, only=only)
        if impl != a["exact"]:
            bad = [i for i in range(N.n) if impl[i] != a["exact"][i]]
            fs.append({"kind": "model", "what": f"{name}: implementation != closed form (flag + later inflows) at cells {bad[:6]}",
                       "impl": impl, "exact": a["exact"]})
        return fs
    ctx.add({"op": "upstream_sum", **N.base, "data": data, "mv": nd, "mv_passed": not default_mv, "dtype": np.dtype(dt).name},
            [("c14_upstream_sum", {"ds": N.ds, "data": data, "nodata": nd})], judge, nontrivial=N.nontriv)


def case_downstream(ctx, rng, N):
    if rng.random() < 0.4:
        return case_downstream_wide(ctx, rng, N)
    dt = rng.choice([np.int32, np.float64])
    data = enlarge(ctx, rng, [rng.randint(-5, 20) for _ in range(N.n)], dt, 0)
    out = N.flw.downstream(arr(N, data, dt))
    impl = exact_ints(out)

    def judge(ans):
        e = drv_err(ans)
        if e:
            return e
        fs = []
        if impl is None:
            return [{"kind": "spec", "what": "downstream: non-integer output"}]
        cmp_eq(fs, impl, ans[0], "downstream")
        return fs
    ctx.count("op:downstream")
    ctx.add({"op": "downstream", **N.base, "data": data}, [("c14_downstream", {"ds": N.ds, "data": data})],
            judge, nontrivial=N.nontriv)


def case_upstream_sum(ctx, rng, N):
    if rng.random() < 0.4:
        return case_upstream_sum_wide(ctx, rng, N)
    nd = rng.choice([-9999, -1, 0])
    p_nd = rng.choice([0.0, 0.15, 0.3, 0.5])
    dt = rng.choice([np.int32, np.float64])
    data = enlarge(ctx, rng, gen_field(rng, N.n, nd, p_nd), dt, N.n, nd)
    out = N.flw.upstream_sum(arr(N, data, dt), mv=nd)
    impl = exact_ints(out)

    def judge(ans):
        e = drv_err(ans)
        if e:
            return e
        a = ans[0]
        fs = []
        if impl is None:
            return [{"kind": "spec", "what": "upstream_sum: non-integer output"}]
        # the property fixes the value where neither the cell nor its downstream cell is empty
        only = [i for i in range(N.n) if a["fixed"][i] == 1 and N.ds[i] != N.n]
        cmp_eq(fs, impl, a, "upstream_sum", only=only)
        # full domain (missing values included): the closed form proved in `upstream_sum_exact`
        if impl != a["exact"]:
            bad = [i for i in range(N.n) if impl[i] != a["exact"][i]]
            fs.append({"kind": "model", "what": f"upstream_sum: implementation != closed form (flag + later inflows) at cells {bad[:6]}",
                       "impl": impl, "exact": a["exact"]})
        return fs
    ctx.count("op:upstream_sum" + ("(nodata)" if nd in data else ""))
    ctx.count("upstream_sum:cells-with-empty-downstream-cell",
              sum(1 for i in range(N.n) if N.ds[i] not in (N.n, i) and data[i] != nd and data[N.ds[i]] == nd))
    ctx.add({"op": "upstream_sum", **N.base, "data": data, "mv": nd},
            [("c14_upstream_sum", {"ds": N.ds, "data": data, "nodata": nd})], judge, nontrivial=N.nontriv)


# ---------------------------------------------------------------------------------------------
# fillnodata on float fields holding VALID values very close to (but different from) the nodata value
F32_BIG = float(np.float32(1e20))                  # 100000002004087734272 = 0x56BC76 * 2**43
NEAR_NODATA = [-9999.0, -9999.0, -1.0, 1.0, F32_BIG, -F32_BIG, float(np.float32(3e38)), float(np.float32(-2.5e-3))]


def _representable(fr, dt):
    """is the rational `fr` exactly a finite value of float dtype `dt`"""
    try:
        f = float(fr)
    except OverflowError:
        return False
    if f != f or f in (float("inf"), float("-inf")) or Fraction(f) != fr:
        return False
    with np.errstate(over="ignore"):
        g = float(dt(f))
    return g == f


def _pow2_scale(vals):
    """the power of two S (a Fraction) with all v * S integers, not all of them even"""
    e = max(v.denominator.bit_length() - 1 for v in vals)
    assert all(v.denominator & (v.denominator - 1) == 0 for v in vals)
    if e > 0:
        return Fraction(2 ** e)
    nz = [abs(v.numerator) for v in vals if v != 0]
    t = min(((x & -x).bit_length() - 1 for x in nz), default=0)
    return Fraction(1, 2 ** t)


def fill_oracle(ds, data, nd, direction, how):
    """harness' own declarative oracle for fillnodata on exact values (Fractions): 'up' = value of the nearest valid
    cell on the downstream path; 'down' = min/max/sum of the nearest valid values upstream (through empty cells)"""
    n = len(ds)
    out = list(data)
    if direction == "up":
        for i in range(n):
            if ds[i] == n or data[i] != nd:
                continue
            j, k = i, 0
            while ds[j] != j and data[j] == nd and k <= n:
                j, k = ds[j], k + 1
            out[i] = data[j]
        return out
    depth = [0] * n
    for i in range(n):
        j, k = i, 0
        while ds[i] != n and ds[j] != j and k <= n:
            j, k = ds[j], k + 1
        depth[i] = k
    got = [None if (data[i] == nd or ds[i] == n) else data[i] for i in range(n)]     # value carried downstream
    for i in sorted(range(n), key=lambda c: -depth[c]):       # upstream cells first
        d = ds[i]
        if d == n or d == i or got[i] is None or data[d] != nd:
            continue
        if got[d] is None:
            got[d] = got[i]
        else:
            got[d] = max(got[d], got[i]) if how == "max" else min(got[d], got[i]) if how == "min" else got[d] + got[i]
    return [out[i] if (ds[i] == n or data[i] != nd or got[i] is None) else got[i] for i in range(n)]


def case_fill_near(ctx, rng, N):
    """fillnodata (both directions, min/max/sum) on float32 / float64 fields in which valid cells hold values at dyadic
    distances 2**-4 .. 2**-40 (relative to the binade of nodata, both signs; incl. the neighbouring floats) from the
    nodata value, nodata in {-9999, -1, 1, float32(1e20) (+-), float32(3e38), float32(-2.5e-3)}. Every value and every
    partial sum is exactly representable in the dtype (asserted), so the expectation is exact: an empty cell is a cell
    EQUAL to nodata. Judged on the harness' own oracle (exact rationals) and, scaled by a power of two to integers, on
    the Lean model and oracle."""
    direction = rng.choice(["up", "down", "down"])
    how = rng.choice(["min", "max", "sum"])
    dt = rng.choice([np.float64, np.float64, np.float32])
    nd_f = rng.choice(NEAR_NODATA)
    nd = Fraction(nd_f)
    mant = 24 if dt == np.float32 else 53
    M = Fraction(2) ** (int(np.floor(np.log2(abs(nd_f)))))        # binade of |nodata|
    assert M <= abs(nd) < 2 * M
    # ordinary values: small integers (in units of 1, or of M/16 so that sums with the near-nodata values stay exact)
    big = abs(nd) >= 2 ** 20 or abs(nd) < Fraction(1, 16)
    unit = M / 16 if (big and (how == "sum" or direction == "up" or rng.random() < 0.5)) else Fraction(1)
    p_nd = rng.choice([0.3, 0.5, 0.7])
    p_near = rng.choice([0.15, 0.3, 0.5])
    ks = [k for k in range(4, 41) if _representable(nd + M / 2 ** k, dt) and _representable(nd - M / 2 ** k, dt)]
    # half of the draws from the fine end (the neighbouring floats of nodata in float32, <= 2**-30 in float64)
    fine = [k for k in ks if k >= (mant - 4 if dt == np.float32 else 28)]
    style = rng.choice(["any", "fine", "finest"])
    data = []
    n_near = 0
    for i in range(N.n):
        u = rng.random()
        if u < p_nd:
            data.append(nd)
        elif u < p_nd + (1 - p_nd) * p_near:
            k = rng.choice(ks) if (style == "any" or not fine) else rng.choice(fine) if style == "fine" else ks[-1]
            data.append(nd + rng.choice([-1, 1]) * M / 2 ** k)
            n_near += 1
        else:
            v = rng.randint(-4, 12) * unit
            data.append(v if v != nd else v + unit)
    if how == "sum" and direction == "down":
        # exactness of every partial sum: all values are multiples of 1/S; their magnitudes add up to < 2**mant / S
        S0 = _pow2_scale(data + [nd])
        if sum(abs(v * S0) for v in data if v != nd) >= 2 ** mant:
            dt, mant = np.float64, 53
            ctx.count("fill(near-nodata):sum-moved-to-float64")
        assert sum(abs(v * S0) for v in data if v != nd) < 2 ** mant, "harness: near-nodata sum field outside the exact domain"
    assert all(_representable(v, dt) for v in data + [nd]) and all(v != nd or True for v in data)
    field = np.array([float(v) for v in data], dtype=dt).reshape(N.shape)
    assert [Fraction(float(x)) for x in field.ravel().tolist()] == data, "harness: field not representable"
    S = _pow2_scale(data + [nd])
    data_i = [int(v * S) for v in data]
    nd_i = int(nd * S)
    assert all(Fraction(a) == v * S for a, v in zip(data_i, data)) and Fraction(nd_i) == nd * S
    if direction == "up":
        out = N.flw.fillnodata(field, float(nd_f), direction="up")
        req = [("c14_fill_up", {"ds": N.ds, "seq": N.seq, "data": data_i, "nodata": nd_i})]
        name = "fillnodata(up)"
    else:
        out = N.flw.fillnodata(field, float(nd_f), direction="down", how=how)
        req = [("c14_fill_down", {"ds": N.ds, "seq": N.seq, "data": data_i, "nodata": nd_i, "how": HOW[how]})]
        name = f"fillnodata(down,{how})"
    raw = np.asarray(out).ravel().tolist()
    finite = all(x == x and x not in (float("inf"), float("-inf")) for x in raw)
    impl = [Fraction(float(x)) for x in raw] if finite else None
    want = fill_oracle(N.ds, data, nd, direction, how)
    filled = impl is not None and sum(1 for i in range(N.n) if impl[i] != data[i])
    ctx.count("op:" + name)
    ctx.count("op:" + name + "(near-nodata values:" + np.dtype(dt).name + ")")
    ctx.count("fill(near-nodata):nodata=" + repr(nd_f))
    ctx.count("fill(near-nodata):valid-cells-near-nodata", n_near)
    ctx.count("fill(near-nodata):valid-cells-within-1e-6-relative", sum(1 for v in data if v != nd and abs(v - nd) <= abs(nd) / 10 ** 6))
    ctx.count("fill:cells-filled", int(filled or 0))
    same_dtype = out.dtype == field.dtype

    def judge(ans):
        e = drv_err(ans)
        if e:
            return e
        a = ans[0]
        fs = []
        if impl is None:
            return [{"kind": "spec", "what": name + ": non-finite output on a finite field", "impl": raw}]
        bad = [i for i in range(N.n) if impl[i] != want[i]]
        if bad:
            fs.append({"kind": "spec", "what": f"{name} [{np.dtype(dt).name}, nodata={nd_f!r}]: differs from the flow-path definition "
                       f"(empty = EQUAL to nodata; values near nodata are values) at cells {bad[:6]}",
                       "impl": [float(x) for x in impl], "expected": [float(x) for x in want]})
        if not same_dtype:
            fs.append({"kind": "model", "what": f"{name}: result dtype {out.dtype} != field dtype"})
        topo_fail(fs, a)
        if any((x * S).denominator != 1 for x in impl):
            if not bad:
                fs.append({"kind": "model", "what": name + ": output outside the lattice of the field although equal to the oracle"})
            return fs
        cmp_eq(fs, [int(x * S) for x in impl], a, name + f" [scaled by {float(S)!r}]")
        if [int(x * S) for x in want] != a["spec"]:
            fs.append({"kind": "model", "what": name + ": harness' own oracle != Lean oracle on the scaled field"})
        return fs
    ctx.add({"op": name, **N.base, "data": [float(v) for v in data], "nodata": float(nd_f), "dtype": np.dtype(dt).name,
             "scale": float(S), "data_scaled": data_i, "nodata_scaled": nd_i}, req, judge,
            nontrivial=N.nontriv and bool(filled) and n_near > 0)


def case_fill(ctx, rng, N):
    if rng.random() < 0.3:
        return case_fill_near(ctx, rng, N)
    direction = rng.choice(["up", "down", "down"])
    nd = rng.choice([-9999, -1, 0])
    p_nd = rng.choice([0.3, 0.5, 0.8])
    dt = rng.choice([np.int32, np.float64])
    how = rng.choice(["min", "max", "sum"])
    # small values of both signs around nodata in {-1, 0}: partial sums / minima regularly coincide
    # with the nodata value (they are values all the same - fix 49571fc)
    data = enlarge(ctx, rng, gen_field(rng, N.n, nd, p_nd, lo=-4, hi=rng.choice([4, 12])), dt, N.n, nd, p=0.12)
    if direction == "up":
        out = N.flw.fillnodata(arr(N, data, dt), nd, direction=rng.choice(["up", "UP"]))
        req = [("c14_fill_up", {"ds": N.ds, "seq": N.seq, "data": data, "nodata": nd})]
        name = "fillnodata(up)"
    else:
        out = N.flw.fillnodata(arr(N, data, dt), nd, direction="down", how=how)
        req = [("c14_fill_down", {"ds": N.ds, "seq": N.seq, "data": data, "nodata": nd, "how": HOW[how]})]
        name = f"fillnodata(down,{how})"
    impl = exact_ints(out)
    filled = impl is not None and sum(1 for i in range(N.n) if impl[i] != data[i])
    ctx.count("op:" + name)
    ctx.count("fill:cells-filled", int(filled or 0))

    def judge(ans):
        e = drv_err(ans)
        if e:
            return e
        a = ans[0]
        fs = []
        if impl is None:
            return [{"kind": "spec", "what": name + ": non-integer output"}]
        topo_fail(fs, a)
        cmp_eq(fs, impl, a, name)
        return fs
    ctx.add({"op": name, **N.base, "data": data, "nodata": nd, "dtype": np.dtype(dt).name}, req, judge,
            nontrivial=N.nontriv and bool(filled))


def strord_option(ctx, rng, N):
    """one of the four (restrict_strord, strord) combinations -> (kwargs, strord used by the code)"""
    combo = rng.choice(["F-none", "T-none", "T-given", "F-given"])
    ctx.count("strord:" + combo)
    given = [rng.randint(1, 3) if N.ds[i] != N.n else 0 for i in range(N.n)]
    if combo == "F-none":
        return {}, None, combo
    if combo == "T-none":
        return {"restrict_strord": True}, ints(N.flw.stream_order()), combo
    if combo == "T-given":
        return {"restrict_strord": True, "strord": arr(N, given, np.int32)}, given, combo
    return {"restrict_strord": False, "strord": arr(N, given, np.int32)}, None, combo


def case_window(ctx, rng, N):
    from pyflwdir import core
    n = rng.randint(0, 4)
    usmain_np = N.flw.idxs_us_main
    usmain = canon_idx(usmain_np, N.n)
    mode = rng.choice(["none", "strahler", "random"])
    strord = None
    if mode == "strahler":
        strord = ints(N.flw.stream_order())
    elif mode == "random":
        strord = [rng.randint(1, 3) for _ in range(N.n)]
    so = None if strord is None else np.array(strord, dtype=np.int32)
    impl = []
    for i in range(N.n):
        impl += canon_idx(core._window(i, n, N.flw.idxs_ds, usmain_np, strord=so, mv=N.flw._mv), N.n)
    upa = upstream_counts(N.ds)
    nslots = sum(1 for x in impl if x != N.n)
    ctx.count("op:_window")
    ctx.count(f"window:n={n}")
    ctx.count("window:cells-in-windows", nslots)

    def judge(ans):
        e = drv_err(ans)
        if e:
            return e
        fs = []
        cmp_eq(fs, impl, ans[0], f"_window(n={n})", unit="window slots (cell*(2n+1)+slot)")
        if ans[0]["usmain_ok"] != [1]:
            fs.append({"kind": "spec", "what": "idxs_us_main: entry is not an inflow cell"})
        if usmain != ans[1]["model"]:
            fs.append({"kind": "model", "what": "idxs_us_main != Lean model of main_upstream on brute-force upstream counts",
                       "impl": usmain, "model": ans[1]["model"]})
        if ans[1]["ok"] != [1]:
            # proved impossible (C14.main_upstream_ok): the driver would not be the proved build
            fs.append({"kind": "model", "what": "Lean model of main_upstream returned an ill-formed main-stem array"})
        if ans[0]["nodup"] != [1]:
            # conclusion of C14.window_nodup on the windows the implementation returned (= the model's)
            fs.append({"kind": "spec" if impl == ans[0]["model"] else "model",
                       "what": f"_window(n={n}): a window repeats a cell or holds an out-of-range index"})
        return fs
    ctx.add({"op": "_window", **N.base, "n": n, "strord": strord},
            [("c14_window", {"ds": N.ds, "usmain": usmain, "strord": strord, "n": n}),
             ("c14_main_upstream", {"ds": N.ds, "uparea": upa, "upa_min": 0})],
            judge, nontrivial=N.nontriv and n > 0)


def pairs_expected(num, den):
    return [float(Fraction(p, q)) for p, q in zip(num, den)]


def case_moving(ctx, rng, N, median):
    n = rng.randint(0, 4)
    nd = rng.choice([-9999, -1])
    p_nd = rng.choice([0.0, 0.2, 0.5])
    data = gen_field(rng, N.n, nd, p_nd, lo=-3, hi=15)
    kw, strord, combo = strord_option(ctx, rng, N)
    usmain = canon_idx(N.flw.idxs_us_main, N.n)
    weights = None
    if not median and rng.random() < 0.5:
        weights = [rng.choice([0, 1, 1, 2, 3, -1]) for _ in range(N.n)]
    # NaN as the nodata value (the kernels test it with isnan): same field with the empty cells holding NaN
    nan_nd = rng.random() < 0.25
    data_np = arr(N, data, np.float64)
    nd_arg = float(nd)
    if nan_nd:
        data_np = np.where(data_np == nd, np.nan, data_np)
        nd_arg = float("nan")
        ctx.count("window:nodata=NaN")
    if median:
        out = N.flw.moving_median(data_np, n, nodata=nd_arg, **kw)
        op, name = "c14_moving_median", "moving_median"
        args = {"ds": N.ds, "usmain": usmain, "strord": strord, "data": data, "n": n, "nodata": nd}
    else:
        w = None if weights is None else arr(N, weights, np.float64)
        out = N.flw.moving_average(data_np, n, weights=w, nodata=nd_arg, **kw)
        op, name = "c14_moving_average", "moving_average"
        args = {"ds": N.ds, "usmain": usmain, "strord": strord, "weights": weights, "data": data, "n": n, "nodata": nd}
    impl = [(float(nd) if (nan_nd and x != x) else float(x)) for x in np.asarray(out).ravel().tolist()]
    ctx.count("op:" + name + ("(weights)" if weights is not None else "") + ("(restrict_strord)" if strord is not None else ""))
    ctx.count(f"window:n={n}")

    def judge(ans):
        e = drv_err(ans)
        if e:
            return e
        a = ans[0]
        fs = []
        spec = pairs_expected(a["spec.num"], a["spec.den"])
        model = pairs_expected(a["model.num"], a["model.den"])
        impl_j = impl
        if nan_nd:
            # with NaN as nodata the kernels' skip test `data[idx0] == nodata` never fires, so EMPTY cells receive the
            # window statistic too (with a numeric nodata they stay empty). The property speaks about the windows, not
            # about what an empty cell gets: judged at the cells that hold a value, observed (counted) at the others
            filled = sum(1 for i in range(N.n) if data[i] == nd and impl[i] != float(nd))
            ctx.count("window:nodata=NaN:empty-cells-filled(observed)", filled)
            impl_j = [impl[i] if data[i] != nd else model[i] for i in range(N.n)]
            spec = [spec[i] if data[i] != nd else model[i] for i in range(N.n)]
        bad = [i for i in range(N.n) if impl_j[i] != spec[i]]
        if bad:
            fs.append({"kind": "spec", "what": f"{name}(n={n},{combo}): differs from the value over the flow-path window at cells {bad[:6]}",
                       "impl": impl, "spec": spec})
        if impl_j != model:
            fs.append({"kind": "model", "what": f"{name}: implementation != Lean model", "impl": impl, "model": model})
        if a["usmain_ok"] != [1]:
            fs.append({"kind": "spec", "what": "idxs_us_main: entry is not an inflow cell"})
        return fs
    desc = {"op": name, **N.base, "data": data, "n": n, "nodata": nd, "nodata_is_nan": nan_nd, "weights": weights,
            "strord_option": combo, "strord": strord}
    ctx.add(desc, [(op, args)], judge, nontrivial=N.nontriv and n > 0)


def _with_jumps(rng, ds, shape):
    """replace a few links by jumps of 2-3 cells along the row / column (never creating a loop)"""
    n = len(ds)
    nrow, ncol = shape
    out = list(ds)
    for _ in range(rng.randint(1, 3)):
        cand = [i for i in range(n) if out[i] != n]
        if not cand:
            break
        i = rng.choice(cand)
        r, c = divmod(i, ncol)
        k = rng.choice([-3, -2, 2, 3])
        r1, c1 = (r, c + k) if rng.random() < 0.5 else (r + k, c)
        if not (0 <= r1 < nrow and 0 <= c1 < ncol):
            continue
        j = r1 * ncol + c1
        if out[j] == n:
            continue
        # walking down from j must not come back to i
        x, steps, ok = j, 0, True
        while out[x] != x and steps <= n:
            if x == i:
                ok = False
                break
            x = out[x]
            steps += 1
        if ok and x != i and steps <= n:
            out[i] = j
    return out


def case_stream_distance(ctx, rng, N):
    from affine import Affine
    unit = rng.choice(["cell", "m"]) if N.fam == "dem" else "cell"
    mode = rng.choice(["none", "random", "uparea"])
    mask = None
    if mode == "random":
        mask = [rng.random() < 0.25 for _ in range(N.n)]
    elif mode == "uparea":
        upa = upstream_counts(N.ds)
        thr = rng.randint(2, 6)
        mask = [u >= thr for u in upa]
    flw = N.flw
    ds_use = N.ds
    if unit == "m":
        if rng.random() < 0.35:
            # links between cells that are NOT neighbours (legal for NEXTXY rasters and vector-derived networks): jumps of
            # 2-3 cells along a row or a column keep every length an integer on the 3 x 4 grid
            ds_use = _with_jumps(rng, N.ds, N.shape)
            if ds_use != N.ds:
                ctx.count("stream_distance:non-neighbour-links")
        flw = mk_raster(ds_use, N.shape, transform=Affine(3.0, 0.0, 10.0, 0.0, -4.0, 50.0),
                        **({"ftype": "nextxy"} if ds_use != N.ds else {}))
    m = None if mask is None else arr(N, mask, bool)
    out = flw.stream_distance(mask=m, unit=unit)
    seq_use = N.seq if ds_use == N.ds else canon_idx(flw.idxs_seq, N.n)
    impl = exact_ints(out)
    dtype_ok = out.dtype == (np.int32 if unit == "cell" else np.float32)
    name = f"stream_distance({unit})"
    ctx.count("op:" + name + ("(mask)" if mask is not None else ""))

    def judge(ans):
        e = drv_err(ans)
        if e:
            return e
        a = ans[0]
        fs = []
        topo_fail(fs, a)
        if a["exact"] != [1]:
            return fs  # non-Pythagorean step: not comparable exactly (never for D8 links)
        if impl is None:
            return [{"kind": "spec", "what": name + ": non-integer length on a 3x4 grid"}]
        cmp_eq(fs, impl, a, name)
        if not dtype_ok:
            fs.append({"kind": "model", "what": f"{name}: unexpected dtype {out.dtype}"})
        return fs
    ctx.add({"op": name, **{**N.base, "ds": ds_use}, "mask": mask, "unit": unit, "cellsize": [3, 4]},
            [("c14_stream_distance", {"ds": ds_use, "seq": seq_use, "mask": mask, "real": int(unit == "m"),
                                      "ncol": N.shape[1], "xres": 3, "yres": -4})],
            judge, nontrivial=N.nontriv)


def case_hand(ctx, rng, N):
    upa = upstream_counts(N.ds)
    if rng.random() < 0.5:
        thr = rng.randint(2, 6)
        drain = [u >= thr for u in upa]
    else:
        drain = [rng.random() < 0.2 for _ in range(N.n)]
    elev = [rng.randint(0, 40) for _ in range(N.n)]
    dt = rng.choice([np.float32, np.float64, np.int32])
    if dt != np.float32 and rng.random() < 0.3:
        # elevations that need more than float32's 24 bits (exact in float64 / int32 arithmetic)
        base = rng.randint(2 ** 24, 2 ** 30 if dt == np.int32 else 2 ** 44)
        elev = [base + e * rng.choice([1, 1, 3]) for e in elev]
        ctx.count("hand:large-magnitude-elevation")
    out = N.flw.hand(arr(N, drain, bool), arr(N, elev, dt))
    impl = exact_ints(out)
    ctx.count("op:hand")

    def judge(ans):
        e = drv_err(ans)
        if e:
            return e
        fs = []
        topo_fail(fs, ans[0])
        if impl is None:
            return [{"kind": "spec", "what": "hand: non-integer output on integer elevations"}]
        cmp_eq(fs, impl, ans[0], "hand")
        return fs
    ctx.add({"op": "hand", **N.base, "drain": drain, "elevtn": elev},
            [("c14_hand", {"ds": N.ds, "seq": N.seq, "drain": drain, "elev": elev})], judge,
            nontrivial=N.nontriv and any(drain))


def case_floodplains(ctx, rng, N):
    b = rng.choice([0.3, 0.5, 1.0, 1.0, 2.0])
    if rng.random() < 0.6:
        upa = upstream_counts(N.ds)
        upa = [max(u, 1) for u in upa]
    else:
        upa = [rng.randint(1, 16) for _ in range(N.n)]
    upa_min = rng.randint(2, 7)
    elev = [rng.randint(0, 12) for _ in range(N.n)]
    dt = rng.choice([np.float32, np.float64])
    if N.raster and rng.random() < 0.35:
        # default upstream area (km2) on an object that may have served main-stem queries before:
        # the cells flagged must still be those of the definition with the km2 upstream area
        from affine import Affine
        ca = rng.choice([2, 6, 12])  # cell area in km2 (projected): dx * dy = ca * 1e6 exactly
        flw = mk_raster(N.ds, N.shape, transform=Affine(1000.0 * ca, 0.0, 0.0, 0.0, -1000.0, 0.0), latlon=False)
        pre = rng.choice(["none", "moving_average", "idxs_us_main", "classic", "upstream_area"])
        if pre == "moving_average":
            flw.moving_average(np.ones(N.shape), n=1)
        elif pre == "idxs_us_main":
            flw.idxs_us_main
        elif pre == "classic":
            flw.stream_order(type="classic")
        elif pre == "upstream_area":
            flw.upstream_area()
        upa = [max(u, 1) * ca for u in upstream_counts(N.ds)]
        upa_min = upa_min * ca
        out = flw.floodplains(arr(N, elev, dt), upa_min=upa_min, b=b)
        ctx.count(f"floodplains:default-uparea:after-{pre}")
    else:
        out = N.flw.floodplains(arr(N, elev, dt), uparea=arr(N, upa, np.float64), upa_min=upa_min, b=b)
    impl = ints(out)
    # the parameter: the float32 value the implementation stores for uparea ** b
    hnum = []
    for u in upa:
        h = Fraction(float(np.float32(np.float64(u) ** b))) * HDEN
        assert h.denominator == 1
        hnum.append(int(h))
    ctx.count("op:floodplains")
    ctx.count(f"floodplains:b={b}")
    ctx.count("floodplains:flagged-non-stream", sum(1 for i in range(N.n) if impl[i] == 1 and upa[i] < upa_min))
    ctx.count("floodplains:unflagged", sum(1 for i in range(N.n) if impl[i] == 0))

    def judge(ans):
        e = drv_err(ans)
        if e:
            return e
        fs = []
        topo_fail(fs, ans[0])
        cmp_eq(fs, impl, ans[0], f"floodplains(b={b})")
        if out.dtype != np.int8:
            fs.append({"kind": "model", "what": f"floodplains: unexpected dtype {out.dtype}"})
        return fs
    ctx.add({"op": "floodplains", **N.base, "elevtn": elev, "uparea": upa, "upa_min": upa_min, "b": b},
            [("c14_floodplains", {"ds": N.ds, "seq": N.seq, "elev": elev, "uparea": upa, "upa_min": upa_min,
                                  "hnum": hnum, "hden": HDEN})], judge,
            nontrivial=N.nontriv and any(u >= upa_min for u in upa))


def make_chain(rng):
    """a long main stem with a few one-cell tributaries (vector network): windows reach their full width"""
    m = rng.randint(6, 14)
    ds = [max(i - 1, 0) for i in range(m)]
    for _ in range(rng.randint(0, 3)):
        ds.append(rng.randint(0, m - 1))
    N = Net()
    N.ds, N.n, N.shape, N.fam, N.raster = ds, len(ds), (len(ds),), "chain", False
    N.flw = mk_vector(ds)
    N.nontriv = len(ds) > m
    N.seq = canon_idx(N.flw.idxs_seq, N.n)
    N.base = {"ds": ds, "shape": [len(ds)], "class": "Flwdir"}
    return N


def case_smooth_rivlen(ctx, rng, N):
    if rng.random() < 0.4:
        N = make_chain(rng)
        ctx.count("smooth_rivlen:chain-network")
    mw = rng.choice([0, 2, 3, 4, 5, 6, 6, 7, 7, 10])
    n = mw // 2
    # values are multiples of K = lcm(window sizes)^d so that the means written back stay integers
    # (then every float operation of the implementation is exact); the driver reports when they do not
    K = 2520 ** 2 if mw >= 8 else 60 ** 3
    nd = -9999
    upa = upstream_counts(N.ds)
    thr = rng.choice([0, 1, 2])
    # half of the cases draw from few levels, so that window means tie with each other and with
    # min_rivlen (the strict comparisons `>` of the kernel are then decisive)
    ties = rng.random() < 0.5
    hi = rng.choice([3, 4]) if ties else 20
    riv = [nd if (N.ds[i] == N.n or upa[i] <= thr or rng.random() < 0.1) else K * rng.randint(1, hi) for i in range(N.n)]
    min_len = K * (rng.randint(2, 3) if ties else rng.randint(2, 16))
    ctx.count("smooth_rivlen:few-levels(ties)" if ties else "smooth_rivlen:many-levels")
    usmain = canon_idx(N.flw.idxs_us_main, N.n)
    out = N.flw.smooth_rivlen(arr(N, riv, np.float64), min_rivlen=float(min_len), max_window=mw, nodata=float(nd))
    impl = [Fraction(float(x)) for x in np.asarray(out).ravel().tolist()]
    changed = sum(1 for i in range(N.n) if impl[i] != riv[i])
    ctx.count("op:smooth_rivlen")
    ctx.count(f"smooth_rivlen:max_window={mw}")
    ctx.count("smooth_rivlen:cells-changed", changed)

    def judge(ans):
        e = drv_err(ans)
        if e:
            return e
        a = ans[0]
        fs = []
        model = [Fraction(p, q) for p, q in zip(a["model.num"], a["model.den"])]
        exact = a["exact"] == [1]
        ctx.count("smooth_rivlen:exact" if exact else "smooth_rivlen:inexact(tolerance)")

        def same(x, y):
            return x == y if exact else abs(x - y) <= abs(y) * Fraction(1, 10 ** 9)
        bad = [i for i in range(N.n) if not same(impl[i], model[i])]
        if bad and not exact:
            # outside the exact-arithmetic domain the float means of the implementation round; two window means that
            # are equal (or nearly so) as rationals can then compare either way in the kernel's strict `>` tests and the
            # run takes another branch - not judged (the clauses below still are); exact cases are compared with `==`
            ctx.count("smooth_rivlen:inexact-mismatch(not judged: rounding may flip a strict comparison)")
            bad = []
        if bad:
            fs.append({"kind": "model", "what": f"smooth_rivlen(max_window={mw}): implementation != Lean model at cells {bad[:6]}",
                       "impl": [float(x) for x in impl], "model": [float(x) for x in model]})
        # the natural properties (theorems about the model), evaluated on the implementation's output
        bad = [i for i in range(N.n) if riv[i] == nd and impl[i] != nd]
        if bad:
            fs.append({"kind": "spec", "what": f"smooth_rivlen: nodata cells changed {bad[:6]}"})
        bad = [i for i in range(N.n) if a["touch"][i] == 0 and impl[i] != riv[i]]
        if bad:
            fs.append({"kind": "spec", "what": f"smooth_rivlen: cells outside every window changed {bad[:6]}"})
        if n <= 1 and changed:
            fs.append({"kind": "spec", "what": "smooth_rivlen: max_window < 4 must be the identity"})
        # hypotheses of smooth_rivlen_total_checked, supplied by the implementation (order, main stem)
        if a["topo"] != [1]:
            fs.append({"kind": "spec", "what": "cell order of the network is not downstream-first (C03 hypothesis)"})
        if a["cover"] != [1]:
            fs.append({"kind": "spec", "what": "cell order does not hold every cell of the network / field size != network size "
                       "(hypotheses of smooth_rivlen_total_topo)"})
        if usmain != ans[1]["model"]:
            fs.append({"kind": "model", "what": "idxs_us_main != Lean model of main_upstream on brute-force upstream counts",
                       "impl": usmain, "model": ans[1]["model"]})
        if a["topo"] == [1] and a["cover"] == [1] and a["usmain_ok"] == [1] and a["nodup"] != [1]:
            # proved impossible (C14.window_nodup_checked): the driver would not be the proved build
            fs.append({"kind": "model", "what": "duplicate / out-of-range window although topo, cover and usmain_ok hold"})
        if a["nodup"] != [1]:
            fs.append({"kind": "spec", "what": "smooth_rivlen: a window has duplicate or out-of-range cells (hypothesis of smooth_rivlen_total)"})
        else:
            s_in = sum(Fraction(v) for v in riv if v != nd)
            s_out = sum(impl[i] for i in range(N.n) if riv[i] != nd)
            if not same(s_out, s_in):
                fs.append({"kind": "spec", "what": f"smooth_rivlen: total length not conserved ({float(s_in)} -> {float(s_out)})"})
        if a["usmain_ok"] != [1]:
            fs.append({"kind": "spec", "what": "idxs_us_main: entry is not an inflow cell"})
        return fs
    ctx.add({"op": "smooth_rivlen", **N.base, "rivlen": riv, "min_rivlen": min_len, "max_window": mw, "nodata": nd},
            [("c14_smooth_rivlen", {"ds": N.ds, "usmain": usmain, "seq": N.seq, "rivlen": riv, "min_rivlen": min_len,
                                    "max_window": mw, "nodata": nd}),
             ("c14_main_upstream", {"ds": N.ds, "uparea": upa, "upa_min": 0})], judge,
            nontrivial=N.nontriv and changed > 0)


def case_errors(ctx, rng, N):
    ctx.count("op:errors")
    ctx.evaluations += 1
    data = arr(N, [1] * N.n, np.int32)
    which = rng.choice(["direction", "unit", "size"])
    try:
        if which == "direction":
            N.flw.fillnodata(data, -9999, direction="sideways")
        elif which == "unit" and N.raster:
            N.flw.stream_distance(unit="km")
        else:
            N.flw.downstream(np.ones(N.n + 1))
        got = "returns"
    except Exception as e:  # noqa: BLE001
        got = exc_class(e)
    if got != "ValueError":
        ctx.fail({"op": "errors", **N.base, "which": which}, "spec", f"invalid {which} must raise ValueError, got {got}")


def regression_cases(ctx):
    """fixed finding (49571fc): fill 'down' with how='sum' took a partial sum equal to nodata for an
    empty cell. Star 1,2,3 -> 0, data [nd,5,-3,2] / [nd,2,-3,5], nd = -1 must both give 4 at cell 0;
    2,3 -> 1 -> 0 <- 4 with data [nd,nd,2,-3,7]: the filled value -1 = nd at cell 1 is passed on (cell 0 = 6)."""
    for ds, data, nd, how, expect0 in [([0, 0, 0, 0], [-1, 5, -3, 2], -1, "sum", 4),
                                       ([0, 0, 0, 0], [-1, 2, -3, 5], -1, "sum", 4),
                                       ([0, 0, 1, 1, 0], [0, 0, 3, -3, 7], 0, "sum", 7),
                                       ([0, 0, 1, 1, 0], [-1, -1, 2, -3, 7], -1, "sum", 6)]:
        n = len(ds)
        flw = mk_vector(ds)
        seq = canon_idx(flw.idxs_seq, n)
        out = flw.fillnodata(np.array(data, dtype=np.int32), nd, direction="down", how=how)
        impl = ints(out)
        ctx.count("regression:filldown-filled-flag")

        def judge(ans, impl=impl, expect0=expect0, how=how):
            e = drv_err(ans)
            if e:
                return e
            fs = []
            if impl[0] != expect0:
                fs.append({"kind": "spec", "what": f"fillnodata(down,{how}): cell 0 = {impl[0]}, the merge of the "
                           f"nearest valid values upstream is {expect0} (a value equal to nodata was taken for empty)",
                           "impl": impl})
            cmp_eq(fs, impl, ans[0], f"fillnodata(down,{how})")
            return fs
        ctx.add({"op": f"fillnodata(down,{how})", "ds": ds, "class": "Flwdir", "data": data, "nodata": nd},
                [("c14_fill_down", {"ds": ds, "seq": seq, "data": data, "nodata": nd, "how": HOW[how]})],
                judge, nontrivial=False)


def excluded_points(ctx):
    """The input class `upstream_sum_def` excludes by hypothesis (a cell whose downstream cell is
    empty), exhibited on the real code and recorded in the evidence. Not a failure: the property
    does not define upstream_sum on fields with missing values."""
    from pyflwdir.flwdir import Flwdir
    g = Flwdir(idxs_ds=np.array([0, 0, 1, 1], dtype=np.int32))
    b = ints(g.upstream_sum(np.array([-9999, 1, 2, 3]), mv=-9999))
    ctx.notes.append("observation (upstream_sum, cell whose downstream cell is empty): 2,3->1->0, data [mv,1,2,3]: "
                     f"cell 1 = {b[1]} (neither mv=-9999 nor the sum 5)")


def run(ctx):
    rng = ctx.rng
    regression_cases(ctx)
    excluded_points(ctx)
    nnet = (250 if ctx.tier == "quick" else 8000) * ctx.escalate
    max_cells = 56 if ctx.tier == "quick" else 400
    for k in range(nnet):
        N = make_net(ctx, rng, max_cells)
        ctx.count("family:" + N.fam)
        menu = ["downstream", "upstream_sum", "upstream_sum", "fill", "fill", "window", "average", "average",
                "median", "smooth", "smooth"]
        if N.raster:
            menu += ["distance", "distance", "hand", "floodplains", "floodplains"]
        picks = rng.sample(menu, 5)
        if rng.random() < 0.1:
            picks.append("errors")
        for p in picks:
            if p == "downstream":
                case_downstream(ctx, rng, N)
            elif p == "upstream_sum":
                case_upstream_sum(ctx, rng, N)
            elif p == "fill":
                case_fill(ctx, rng, N)
            elif p == "window":
                case_window(ctx, rng, N)
            elif p == "average":
                case_moving(ctx, rng, N, median=False)
            elif p == "median":
                case_moving(ctx, rng, N, median=True)
            elif p == "smooth":
                case_smooth_rivlen(ctx, rng, N)
            elif p == "distance":
                case_stream_distance(ctx, rng, N)
            elif p == "hand":
                case_hand(ctx, rng, N)
            elif p == "floodplains":
                case_floodplains(ctx, rng, N)
            else:
                case_errors(ctx, rng, N)
        if len(ctx.cases) > 400:
            ctx.flush()
    if ctx.tier == "thorough":
        exhaustive_tiny(ctx)


def exhaustive_tiny(ctx):
    """every loop-free network on 4 cells (with or without one missing cell), one random field each
    per operator family"""
    rng = ctx.rng
    n = 4
    cnt = 0
    for ds in itertools.product(range(n + 1), repeat=n):
        ds = list(ds)
        if any(d != n and ds[d] == n for d in ds) or sum(1 for d in ds if d != n) < 2:
            continue
        # loop-free?
        ok = True
        for i in range(n):
            j, k = i, 0
            while ds[j] != n and ds[j] != j and k <= n:
                j, k = ds[j], k + 1
            ok = ok and k <= n
        if not ok:
            continue
        N = Net()
        N.ds, N.shape, N.fam, N.n, N.raster = ds, (2, 2), "tiny", n, True
        N.flw = mk_raster(ds, (2, 2))
        N.nontriv = False
        N.seq = canon_idx(N.flw.idxs_seq, n)
        N.base = {"ds": ds, "shape": [2, 2], "class": "FlwdirRaster"}
        case_fill(ctx, rng, N)
        case_upstream_sum(ctx, rng, N)
        case_window(ctx, rng, N)
        case_moving(ctx, rng, N, median=bool(cnt % 2))
        case_stream_distance(ctx, rng, N)
        case_hand(ctx, rng, N)
        case_floodplains(ctx, rng, N)
        case_smooth_rivlen(ctx, rng, N)
        cnt += 1
        if len(ctx.cases) > 400:
            ctx.flush()
    ctx.count("exhaustive:networks-on-4-cells", cnt)
