"""C11 - paths and snapping: correspondence of FlwdirRaster.path / FlwdirRaster.snap / Flwdir.path /
main_upstream / index(xy) with the Lean model of core._trace, core.path, core.snap,
core.main_upstream, gis_utils.distance (projected), coords_to_idxs (eq), and with the declarative
specification evaluated in Lean (least stopping index, iterates of the next-cell map, sum of step
lengths, argmax certificate for the main upstream cell, point-in-cell test)."""
import signal
from fractions import Fraction

import math
import numpy as np
from common import (gen_raster_net, gen_forest, gen_funcgraph, gen_shape, gen_dem_net, mk_raster, mk_vector,
                    canon_idx, ints, net_features)

OPS = ["path(down)", "path(up)", "snap(down)", "snap(up)", "path(xy)", "snap(xy)", "Flwdir.path",
       "main_upstream(uparea)", "idxs_us_main", "index(xy)"]
RULE = ("random networks on rasters <= 56 cells (quick) / <= 400 (thorough) and vector networks <= 40 / 120 nodes: "
        "D8 networks from random DEMs, arbitrary forests, D8 and arbitrary functional graphs with loops (always with a "
        "max_length or a guaranteed stop); direction up/down; unit cell / m on projected non-square Pythagorean cells "
        "(exact) and on geographic or square grids (implementation's step lengths as parameters); masks incl. flagged "
        "start cells; max_length none / exactly on a step boundary / a quarter step off / zero / negative; starts by "
        "index or by coordinates (interior points and, on dyadic transforms, cell edges and points 2**-20 / 2**-30 / 2**-40 "
        "of a cell inside the edge on every side); geographic rasters (unit m and "
        "unit cell) are placed anywhere between longitude -360 and 360: inside -180..180, across the antimeridian on "
        "either side (columns continuing east of 180 / west of -180), 0..360-convention windows east of 180 and their "
        "mirror west of -180, cells of 1/8 .. 5 degrees, latitudes -80..80. non-trivial = some path of "
        ">= 2 cells stops for a reason other than 'pit / no next cell'; distinct = SHA-1 of the case description; "
        "thorough adds the exhaustive universe of all functional graphs on <= 4 nodes x all masks x 6 max_length values; "
        "round trip (unit m, no exact arithmetic needed): on loop-free networks over grids with irrational step lengths "
        "(square cells of 0.1 .. 1000 m, non-square non-Pythagorean cells, geographic cells of 1/120 .. 5 degrees) the "
        "implementation's own full path from a start cell is taken, its prefix lengths are accumulated left to right in "
        "binary64 from gis_utils.distance of consecutive cells, and path / snap are called again with max_length equal "
        "to exactly such a prefix length (and to the reported total length): the result must be exactly that prefix")

SC = 4            # common denominator of the exact disciplines (cell units, Pythagorean cells)
KTAB = 80         # table mode: lengths are scaled by 2**KTAB
# (xres, yres) with rational hypotenuse; all exactly representable, 4*value is an integer
PYTH = [(3.0, -4.0), (4.0, -3.0), (3.0, 4.0), (0.75, -1.0), (6.0, -8.0), (-3.0, -4.0), (1.5, -2.0), (5.0, -12.0), (12.0, 5.0)]
DYADIC = [(1.0, -1.0), (0.5, -0.5), (2.0, -1.0), (1.0, 1.0), (0.25, -0.5), (4.0, -2.0)]
GEO = [(0.25, -0.25), (0.5, -0.25), (0.125, -0.25), (1.0, -1.0), (0.25, 0.25), (2.0, -2.0), (1.0, 1.0), (5.0, -2.5)]
# round-trip family: projected cells whose step lengths are irrational / not binary64 multiples of each other
# (diagonals of square cells, non-square non-Pythagorean cells, decimal resolutions), and geographic cells that are
# not dyadic (1/120, 1/1200, 0.1 degree) besides the dyadic ones above
RT_PROJ = [(1.0, -1.0), (0.1, -0.1), (30.0, -30.0), (100.0, -50.0), (0.3, 0.3), (25.0, -25.0), (1000.0, -1000.0),
           (0.5, -0.5), (90.0, -90.0), (2.0, -1.0), (1.0 / 3.0, -1.0 / 3.0), (10.0, -10.0), (50.0, 100.0), (0.1, -0.3),
           (-1.0, -1.0), (12.5, -12.5), (7.0, -3.0)]
RT_GEO = [(1.0 / 120.0, -1.0 / 120.0), (1.0 / 1200.0, -1.0 / 1200.0), (0.1, -0.1), (1.0 / 120.0, 1.0 / 120.0), (0.05, -0.1)]
RT_MAXPROBE = 14


class Hang(Exception):
    pass


def _alarm(signum, frame):
    raise Hang()


class StopRun(Exception):
    pass


def call_impl(ctx, desc, fn, what):
    """call the implementation on an input inside the property's domain: an exception or a trace that
    does not end is a failure of the property on this input (not a broken check). Returns None then."""
    try:
        return guarded(fn)
    except Hang:
        ctx.evaluations += 1
        ctx.fail(desc, "spec", what + " did not end although a stop condition is guaranteed (pit, mask or max_length)")
        ctx.count("impl-hang")
        if ctx.hist["impl-hang"] >= 3:
            raise StopRun()
    except Exception as e:  # noqa: BLE001
        ctx.evaluations += 1
        ctx.fail(desc, "spec", what + f" raised {type(e).__name__}: {str(e)[:120]} on valid cells / mask / max_length")
        ctx.count("impl-raises")
    return None


def guarded(fn, secs=10):
    """run fn(); a trace that does not end (possible only if the implementation lost a stop
    condition) is turned into an exception instead of hanging the check"""
    old = signal.signal(signal.SIGALRM, _alarm)
    signal.alarm(secs)
    try:
        return fn()
    finally:
        signal.alarm(0)
        signal.signal(signal.SIGALRM, old)


# ----------------------------------------------------------------------------------------
# generators
# ----------------------------------------------------------------------------------------
def gen_d8_funcgraph(rng, shape, p_nodata=0.1):
    """D8 functional graph with loops: every valid cell drains to a random valid neighbour or itself"""
    nrow, ncol = shape
    n = nrow * ncol
    valid = [rng.random() >= p_nodata for _ in range(n)]
    if sum(valid) < 2:
        valid = [True] * n
    ds = [n] * n
    for i in range(n):
        if not valid[i]:
            continue
        r, c = divmod(i, ncol)
        cands = []
        for dr in (-1, 0, 1):
            for dc in (-1, 0, 1):
                r1, c1 = r + dr, c + dc
                if (dr or dc) and 0 <= r1 < nrow and 0 <= c1 < ncol and valid[r1 * ncol + c1]:
                    cands.append(r1 * ncol + c1)
        if not cands or rng.random() < 0.12:
            ds[i] = i
        else:
            ds[i] = rng.choice(cands)
    if not any(ds[i] == i for i in range(n)):
        i = rng.choice([k for k in range(n) if valid[k]])
        ds[i] = i
    return ds


def gen_slope_net(rng, shape, p_nodata=0.08):
    """loop-free D8 network with long paths: steepest descent on a tilted plane plus small noise"""
    nrow, ncol = shape
    n = nrow * ncol
    ar, ac = rng.choice([(3, 1), (1, 3), (2, 2), (-3, 1), (1, -3), (0, 2), (2, 0)])
    elev = [ar * (i // ncol) + ac * (i % ncol) + rng.randint(0, 2) for i in range(n)]
    valid = [rng.random() >= p_nodata for _ in range(n)] if rng.random() < 0.5 else [True] * n
    if sum(valid) < 2:
        valid = [True] * n
    ds = [n] * n
    for i in range(n):
        if not valid[i]:
            continue
        r, c = divmod(i, ncol)
        best = i
        for dr in (-1, 0, 1):
            for dc in (-1, 0, 1):
                r1, c1 = r + dr, c + dc
                if (dr or dc) and 0 <= r1 < nrow and 0 <= c1 < ncol:
                    j = r1 * ncol + c1
                    if valid[j] and (elev[j], j) < (elev[best], best):
                        best = j
        ds[i] = best
    return ds


def is_d8(ds, ncol):
    n = len(ds)
    for i, d in enumerate(ds):
        if d == n:
            continue
        if abs(d // ncol - i // ncol) > 1 or abs(d % ncol - i % ncol) > 1:
            return False
    return True


def has_loop(ds):
    n = len(ds)
    for i in range(n):
        if ds[i] == n:
            continue
        j, k = i, 0
        while ds[j] != j and k <= n:
            j = ds[j]
            k += 1
        if k > n:
            return True
    return False


def own_uparea(ds):
    """number of cells draining through each cell (loop-free networks), harness' own count"""
    n = len(ds)
    up = [0] * n
    for i in range(n):
        if ds[i] == n:
            continue
        j, k = i, 0
        up[j] += 1
        while ds[j] != j and k <= n:
            j = ds[j]
            up[j] += 1
            k += 1
    return up


def step_exact(i, j, ncol, xres, yres):
    """generator-side length of a D8 step on Pythagorean cells (Fraction), used only to place max_length"""
    dr = abs(j // ncol - i // ncol)
    dc = abs(j % ncol - i % ncol)
    fx, fy = abs(Fraction(xres)), abs(Fraction(yres))
    if dr == 0:
        return fx * dc
    if dc == 0:
        return fy * dr
    sq = (fx * dc) ** 2 + (fy * dr) ** 2
    num, den = sq.numerator, sq.denominator
    rn, rd = int(round(num ** 0.5)), int(round(den ** 0.5))
    if rn * rn == num and rd * rd == den:
        return Fraction(rn, rd)
    return None


def walk(nxt, s, k):
    """first k+1 cells of the walk from s (stops at pits / missing)"""
    n = len(nxt)
    out = [s]
    while len(out) <= k:
        c = out[-1]
        if c >= n or nxt[c] == c or nxt[c] == n:
            break
        out.append(nxt[c])
    return out


def pick_start(rng, nxt, pool):
    """start cell, biased towards cells with a long walk ahead"""
    cands = [rng.choice(pool) for _ in range(4)]
    if rng.random() < 0.7:
        return max(cands, key=lambda s: len(walk(nxt, s, 12)))
    return cands[0]


def terminates(nxt, s, mask, bound):
    n = len(nxt)
    c = s
    for _ in range(bound):
        if mask is not None and mask[c]:
            return True
        if nxt[c] == c or nxt[c] == n:
            return True
        c = nxt[c]
    return False


def gen_geo_origin(rng, nrow, ncol, xres, yres):
    """(x0, y0, placement) of a geographic raster with dyadic cell sizes. A geographic grid is not confined to
    longitudes -180..180: regional grids continue across the antimeridian (172E..184E), global model grids use the
    0..360 convention; the mirror images west of -180 are generated too. The west edge is an integer or lies a whole
    number of columns from the antimeridian, so every cell edge and every eighth of a cell is an exact binary64."""
    w, h = ncol * abs(xres), nrow * abs(yres)
    cw = int(math.ceil(w))
    u = rng.random()
    if u < 0.3:
        place, west = "lon:-180..180", float(rng.randint(-180, 180 - cw))
    elif u < 0.5:
        k = rng.randint(0, ncol - 1)          # k columns west of 180, at least one column east of it
        place, west = "lon:across+180", 180.0 - k * abs(xres)
    elif u < 0.7:
        place, west = "lon:180..360", float(rng.randint(180, 360 - cw))
    elif u < 0.85:
        k = rng.randint(1, ncol)              # k columns west of -180
        place, west = "lon:across-180", -180.0 - k * abs(xres)
    else:
        place, west = "lon:-360..-180", float(rng.randint(-360, -180 - cw))
    south = float(rng.randint(-80, 80 - int(math.ceil(h))))
    x0 = west if xres > 0 else west + w
    y0 = south if yres > 0 else south + h
    return x0, y0, place


# ----------------------------------------------------------------------------------------
def run(ctx):
    rng = ctx.rng
    quick = ctx.tier == "quick"
    ncase = (400 if quick else 6000) * ctx.escalate
    max_cells = 56 if quick else 400
    try:
        for k in range(ncase):
            u = rng.random()
            if u < 0.8:
                _raster_case(ctx, rng, max_cells)
            elif u < 0.92:
                _vector_case(ctx, rng, 40 if quick else 120)
            else:
                _main_upstream_case(ctx, rng, 30 if quick else 100)
            if rng.random() < 0.15:
                _roundtrip_case(ctx, rng, max_cells)
            if len(ctx.cases) > 300:
                ctx.flush()
        if not quick:
            _exhaustive(ctx)
            ctx.exhaustive = True
    except StopRun:
        ctx.notes.append("generation stopped early: the implementation repeatedly failed to end a trace")


def _gen_net(rng, max_cells):
    """(ds, shape, family)"""
    u = rng.random()
    if u < 0.2:
        shape = gen_shape(rng, max_cells=max_cells)
        return gen_d8_funcgraph(rng, shape), shape, "d8loops"
    if u < 0.3:
        shape = gen_shape(rng, max_cells=max_cells)
        ds = gen_funcgraph(rng, shape[0] * shape[1])
        if not any(ds[i] == i for i in range(len(ds))):
            v = [i for i in range(len(ds)) if ds[i] != len(ds)]
            ds[rng.choice(v)] = rng.choice(v)
            p = rng.choice(v)
            ds[p] = p
        return ds, shape, "funcgraph"
    if u < 0.55:
        shape = gen_shape(rng, max_cells=max_cells)
        return gen_slope_net(rng, shape), shape, "slope"
    return gen_raster_net(rng, max_cells=max_cells)


def _raster_case(ctx, rng, max_cells):
    from affine import Affine
    from pyflwdir import gis_utils
    ds, shape, fam = _gen_net(rng, max_cells)
    nrow, ncol = shape
    n = len(ds)
    valid = [i for i in range(n) if ds[i] != n]
    loops = has_loop(ds)
    d8 = is_d8(ds, ncol)
    direction = rng.choice(["down", "down", "up"])
    # ---- unit / transform
    unit = rng.choice(["cell", "m", "m"])
    latlon = False
    geo_bad = []
    if unit == "m":
        g = rng.random()
        if d8 and g < 0.6:
            kind = "pyth"
            xres, yres = rng.choice(PYTH)
        elif g < 0.85:
            kind = "geo"
            latlon = True
            xres, yres = rng.choice(GEO)
        else:
            kind = "square"
            xres, yres = rng.choice(DYADIC)
    else:
        kind = "cell"
        if rng.random() < 0.3:
            latlon = True                     # geographic raster traced in cell units
            xres, yres = rng.choice(GEO)
        else:
            xres, yres = rng.choice(PYTH + DYADIC)
    if latlon:
        x0, y0, place = gen_geo_origin(rng, nrow, ncol, xres, yres)
    else:
        x0 = rng.randint(-8, 8) * 0.5
        y0 = rng.randint(-8, 8) * 0.5
    transform = Affine(xres, 0.0, x0, 0.0, yres, y0)
    dtype = rng.choice([np.int32, np.int32, np.int64, np.uint32])
    try:
        flw = mk_raster(ds, shape, dtype=dtype, transform=transform, latlon=latlon)
    except ValueError:
        ctx.count("ctor-rejected")
        return
    ctx.count("family:" + fam)
    ctx.count("dir:" + direction)
    ctx.count("unit:" + kind)
    if latlon:
        ctx.count(place)
    reqs = []
    checks = []   # callables(ans list) -> failures
    base = {"ds": ds, "shape": list(shape), "transform": [xres, 0.0, x0, 0.0, yres, y0], "latlon": latlon,
            "dtype": np.dtype(dtype).name}
    # ---- next-cell array
    if direction == "down":
        nxt = list(ds)
    else:
        r0 = call_impl(ctx, {"op": "idxs_us_main", **base}, lambda: (flw.idxs_us_main, flw.upstream_area()), "idxs_us_main")
        if r0 is None:
            return
        nxt = canon_idx(r0[0], n)
        upa_impl = ints(r0[1])
        upa_impl = [0 if ds[i] == n else upa_impl[i] for i in range(n)]
        upa_spec = upa_impl if loops else own_uparea(ds)
        _req_main_upstream(reqs, checks, ds, upa_impl, upa_spec, 0, nxt, "idxs_us_main")
    # ---- step lengths (generator side, to place max_length; exact Fractions or floats)
    if kind == "cell":
        steplen = lambda i: Fraction(1)
        stepargs = {"stepmode": 0, "one": SC}
        scale = SC
    elif kind == "pyth":
        steplen = lambda i: step_exact(i, nxt[i], ncol, xres, yres)
        stepargs = {"stepmode": 1, "ncol": ncol, "xres": int(Fraction(xres) * SC), "yres": int(Fraction(yres) * SC)}
        scale = SC
    else:
        tabf = [0.0] * n
        for i in range(n):
            if nxt[i] != n and nxt[i] != i:
                tabf[i] = float(gis_utils.distance(i, nxt[i], ncol, latlon, transform))
                # the step length is a parameter of the model, so it is checked here against an independent
                # reference: metric lengths at the mean latitude of the two cell centres (either sign of yres)
                if latlon:
                    r0, r1 = i // ncol, nxt[i] // ncol
                    dc = abs(nxt[i] % ncol - i % ncol)
                    lat = math.radians(y0 + ((r0 + r1) / 2.0 + 0.5) * yres)
                    dmy = 111132.92 - 559.82 * math.cos(2 * lat) + 1.175 * math.cos(4 * lat) - 0.0023 * math.cos(6 * lat)
                    dmx = 111412.84 * math.cos(lat) - 93.5 * math.cos(3 * lat) + 0.118 * math.cos(5 * lat)
                    ref = math.hypot(dmy * yres * abs(r1 - r0), dmx * xres * dc)
                    if abs(tabf[i] - ref) > 1e-9 * max(1.0, ref) and not geo_bad:
                        geo_bad.append((i, nxt[i], tabf[i], ref))
        steplen = lambda i: tabf[i]
        tab = [Fraction(x) * 2 ** KTAB for x in tabf]
        assert all(t.denominator == 1 for t in tab)
        stepargs = {"stepmode": 2, "steps": [int(t) for t in tab]}
        scale = 2 ** KTAB
    exact = kind in ("cell", "pyth")
    if geo_bad:
        i, j, got, ref = geo_bad[0]
        ctx.fail({"op": "distance", "transform": [xres, 0.0, x0, 0.0, yres, y0], "shape": list(shape), "idx0": i, "idx1": j}, "spec",
                 f"geographic step length {i}->{j} is {got!r} but the metric length at the mean latitude of the two cell centres is {ref!r}")
    # ---- starts
    nstart = 1 if not exact else rng.randint(1, 4)
    pool = valid if rng.random() < 0.9 else list(range(n))
    starts = [pick_start(rng, nxt, pool) for _ in range(nstart)]
    # ---- mask
    mask = None
    mm = rng.random()
    if mm < 0.55:
        p = rng.choice([0.05, 0.15, 0.4])
        mask = [rng.random() < p for _ in range(n)]
        if rng.random() < 0.25:
            mask[starts[0]] = True          # start cell flagged
        elif rng.random() < 0.5:
            w = walk(nxt, starts[0], rng.randint(1, 6))
            mask[w[-1]] = True              # a cell on the path
    # ---- max_length
    ml = None
    mlkind = "none"
    g = rng.random()
    need_ml = loops and not all(terminates(nxt, s, mask, n + 2) for s in starts)
    if g < 0.6 or need_ml:
        w = walk(nxt, starts[0], rng.choice([0, 1, 1, 2, 2, 3, 4, 5, 6, 8]))
        if exact:
            cum = sum((steplen(c) for c in w[:-1]), Fraction(0))
            g2 = rng.random()
            if g2 < 0.45:
                ml, mlkind = cum, "boundary"
            elif g2 < 0.65:
                ml, mlkind = cum + Fraction(rng.choice([1, 2, 3]), 4), "above"
            elif g2 < 0.85:
                ml, mlkind = cum - Fraction(rng.choice([1, 2, 3]), 4), "below"
            elif g2 < 0.93:
                ml, mlkind = Fraction(0), "zero"
            else:
                ml, mlkind = Fraction(rng.randint(0, 60), 4), "random"
            if need_ml and ml > 40:
                ml = Fraction(rng.randint(0, 160), 4)
        else:
            cum = 0.0
            for c in w[:-1]:
                cum += steplen(c)
            last = w[-1]
            nx = steplen(last) if (nxt[last] != n and nxt[last] != last) else steplen(w[-2]) if len(w) > 1 else 1000.0
            ml, mlkind = cum + 0.5 * nx, "safe-mid"
            ml = float(ml)
    ctx.count("max_length:" + mlkind)
    if ml is not None and exact:
        ml_arg, ml_py = int(ml * SC), float(ml)
        assert Fraction(ml_py) == ml
    elif ml is not None:
        ml_py = ml
        f = Fraction(ml) * scale
        assert f.denominator == 1
        ml_arg = int(f)
    else:
        ml_arg = ml_py = None
    # fuel for the model: enough for every terminating trace
    fuel = n + 2
    if ml is not None:
        pos = [steplen(i) for i in range(n) if nxt[i] != n and nxt[i] != i]
        mn = min([p for p in pos if p is not None and p > 0] or [1])
        fuel += int(max(0, ml_py) / float(mn)) + 3
    if fuel > 4000:
        ctx.count("skipped:fuel")
        return
    # ---- start coordinates
    via = "idxs"
    if rng.random() < 0.3:
        via = "xy"
        edge_ok = (xres, yres) in DYADIC or (latlon and (xres, yres) in GEO)
        xs, ys = [], []
        for s in starts:
            r, c = divmod(s, ncol)
            fx = Fraction(rng.randint(0 if edge_ok else 1, 7), 8)
            fy = Fraction(rng.randint(0 if edge_ok else 1, 7), 8)
            if edge_ok:
                # points a hair inside the cell on either side of each axis: 2**-20 / 2**-30 / 2**-40 of a cell from the
                # west / east (north / south) edge, where that coordinate is an exact binary64 (else the eighth is kept)
                near = []
                for ax, (org, k, res) in enumerate(((x0, c, xres), (y0, r, yres))):
                    if rng.random() < 0.5:
                        e = Fraction(1, 2 ** rng.choice([20, 30, 40]))
                        f = e if rng.random() < 0.5 else 1 - e
                        v = Fraction(org) + (k + f) * Fraction(res)
                        if Fraction(float(v)) == v:
                            near.append(("xy"[ax], f))
                            if ax == 0:
                                fx = f
                            else:
                                fy = f
                        else:
                            ctx.count("xy-start:near-edge-not-representable")
                for axn, f in near:
                    ctx.count("xy-start:near-edge:%s:%s-2^-%d" % (axn, "low" if f < Fraction(1, 2) else "high",
                                                                  (f if f < Fraction(1, 2) else 1 - f).denominator.bit_length() - 1))
            x = Fraction(x0) + (c + fx) * Fraction(xres)
            y = Fraction(y0) + (r + fy) * Fraction(yres)
            assert Fraction(float(x)) == x and Fraction(float(y)) == y
            xs.append(x)
            ys.append(y)
        xy = (np.array([float(x) for x in xs]), np.array([float(y) for y in ys]))
        if latlon:
            ctx.count("xy-start:east-of-180" if any(x > 180 for x in xs) else
                      "xy-start:west-of--180" if any(x < -180 for x in xs) else "xy-start:within-180")
        try:
            idx_impl = ints(flw.index(*xy))
        except Exception as e:
            idx_impl = "raises " + type(e).__name__
        _req_cellof(reqs, checks, nrow, ncol, x0, y0, xres, yres, xs, ys, starts, idx_impl)
        start_kw = {"xy": xy}
        base["xy"] = [[float(x) for x in xs], [float(y) for y in ys]]
    else:
        idt = rng.choice([np.int64, np.int32, "list"])
        start_kw = {"idxs": list(starts) if idt == "list" else np.array(starts, dtype=idt)}
    ctx.count("via:" + via)
    mask_np = None if mask is None else np.array(mask, dtype=bool).reshape(shape)
    kw = dict(mask=mask_np, max_length=ml_py, unit="cell" if kind == "cell" else "m", direction=direction)
    desc = {"op": "path+snap", **base, "starts": starts, "via": via, "mask": None if mask is None else [int(b) for b in mask],
            "max_length": ml_py, "unit": kw["unit"], "direction": direction}
    r1 = call_impl(ctx, desc, lambda: flw.path(**start_kw, **kw), "path")
    if r1 is None:
        return
    r2 = call_impl(ctx, desc, lambda: flw.snap(**start_kw, **kw), "snap")
    if r2 is None:
        return
    (paths, dist), (sidx, sdist) = r1, r2
    impl_paths = [canon_idx(p, n) for p in paths]
    dtype_ok = all(p.dtype == flw.idxs_ds.dtype for p in paths)
    _add_trace(ctx, desc, reqs, checks, nxt, starts, mask, ml_arg, fuel, stepargs, scale, exact,
               impl_paths, [float(x) for x in dist], canon_idx(sidx, n), sdist, dtype_ok, n)



def _roundtrip_case(ctx, rng, max_cells):
    """metamorphic round trip, unit 'm', step lengths that do not add exactly in binary64: the implementation's own
    full path p_0 .. p_L from a start cell, c_0 = 0.0, c_k = fl(c_(k-1) + distance(p_(k-1), p_k)) (left to right, the
    step lengths the library itself uses); path / snap called again with max_length = c_k must return exactly
    p_0 .. p_k with length c_k: the step that reaches c_k does not EXCEED it, the next (positive) step does. No real
    arithmetic is involved: c_k is by construction the travelled length after k steps."""
    from affine import Affine
    from pyflwdir import gis_utils
    for _ in range(6):
        if rng.random() < 0.5:
            shape = gen_shape(rng, max_cells=max_cells)
            ds, fam = gen_slope_net(rng, shape), "slope"
        else:
            ds, shape, fam = gen_raster_net(rng, max_cells=max_cells)
        if not has_loop(ds):
            break
    else:
        ctx.count("roundtrip:skipped-loops")
        return
    nrow, ncol = shape
    n = len(ds)
    valid = [i for i in range(n) if ds[i] != n]
    if not valid:
        return
    g = rng.random()
    latlon = g < 0.35
    if latlon:
        if rng.random() < 0.5:
            xres, yres = rng.choice(GEO)
            x0, y0, _place = gen_geo_origin(rng, nrow, ncol, xres, yres)
        else:
            xres, yres = rng.choice(RT_GEO)
            west = float(rng.randint(-180, 179 - int(math.ceil(ncol * abs(xres)))))
            south = float(rng.randint(-80, 79 - int(math.ceil(nrow * abs(yres)))))
            x0 = west if xres > 0 else west + ncol * abs(xres)
            y0 = south if yres > 0 else south + nrow * abs(yres)
        grid = "geo"
    else:
        xres, yres = rng.choice(RT_PROJ)
        x0 = rng.choice([0.0, 0.0, 1000.0, -250.5, 634512.3])
        y0 = rng.choice([0.0, 4.0, 5200000.0, -17.25])
        grid = "square" if abs(xres) == abs(yres) else "nonsquare"
    transform = Affine(xres, 0.0, x0, 0.0, yres, y0)
    dtype = rng.choice([np.int32, np.int32, np.int64, np.uint32])
    try:
        flw = mk_raster(ds, shape, dtype=dtype, transform=transform, latlon=latlon)
    except ValueError:
        ctx.count("ctor-rejected")
        return
    base = {"ds": ds, "shape": list(shape), "transform": [xres, 0.0, x0, 0.0, yres, y0], "latlon": latlon,
            "dtype": np.dtype(dtype).name}
    direction = rng.choice(["down", "down", "up"])
    if direction == "down":
        nxt = list(ds)
    else:
        r0 = call_impl(ctx, {"op": "idxs_us_main", **base}, lambda: flw.idxs_us_main, "idxs_us_main")
        if r0 is None:
            return
        nxt = canon_idx(r0, n)
    starts = []
    for _ in range(rng.randint(1, 3)):
        s = pick_start(rng, nxt, valid)
        if s not in starts:
            starts.append(s)
    mask = None
    if rng.random() < 0.3:
        mask = [rng.random() < 0.05 for _ in range(n)]
        w = walk(nxt, starts[0], 12)
        if len(w) > 3 and rng.random() < 0.6:
            mask[w[rng.randint(3, len(w) - 1)]] = True
    mask_np = None if mask is None else np.array(mask, dtype=bool).reshape(shape)
    ctx.count("roundtrip:grid:" + grid)
    ctx.count("roundtrip:dir:" + direction)
    for s in starts:
        idxs = np.array([s], dtype=rng.choice([np.int64, np.int32]))
        kw = dict(idxs=idxs, mask=mask_np, unit="m", direction=direction)
        desc = {"op": "path+snap roundtrip", **base, "start": s, "mask": None if mask is None else [int(b) for b in mask],
                "unit": "m", "direction": direction}
        r = call_impl(ctx, desc, lambda: flw.path(**kw), "path")
        if r is None:
            return
        full = canon_idx(r[0][0], n)
        total = float(r[1][0])
        L = len(full) - 1
        steps = [float(gis_utils.distance(full[k], full[k + 1], ncol, latlon, transform)) for k in range(L)]
        cum = [0.0]
        for d in steps:
            cum.append(cum[-1] + d)         # left to right, binary64: the travelled length after each step
        fs = []
        if any(full[k + 1] != nxt[full[k]] for k in range(L)):
            fs.append({"kind": "spec", "what": "round trip: the full path does not follow the next-cell map", "path": full})
        if not all(d > 0.0 and math.isfinite(d) for d in steps):
            ctx.count("roundtrip:skipped-nonpositive-step")
            continue
        if cum[-1] != total:
            # the reported length is the left-to-right binary64 sum of the step lengths the library itself reports
            fs.append({"kind": "spec", "what": "round trip: reported path length is not the left-to-right sum of "
                       "gis_utils.distance over the consecutive cells of the path", "reported": total, "sum": cum[-1],
                       "steps": steps, "path": full})
        ks = list(range(L + 1))
        if len(ks) > RT_MAXPROBE:
            ks = sorted(set(rng.sample(ks, RT_MAXPROBE - 2) + [0, L]))
        probes = [(k, cum[k], "prefix") for k in ks] + [(L, total, "reported-total")]
        nprobe = 0
        for k, ml, why in probes:
            d1 = dict(desc, max_length=ml, prefix_cells=k + 1, max_length_is=why)
            r1 = call_impl(ctx, d1, lambda: flw.path(max_length=ml, **kw), "path")
            if r1 is None:
                return
            r2 = call_impl(ctx, d1, lambda: flw.snap(max_length=ml, **kw), "snap")
            if r2 is None:
                return
            nprobe += 1
            got = canon_idx(r1[0][0], n)
            gdist = float(r1[1][0])
            want = full[:k + 1]
            if got != want and len(fs) < 3:
                fs.append({"kind": "spec", "what": f"round trip: max_length is bit for bit the travelled length after {k} steps of the "
                           f"implementation's own path ({why}), but path() returns {len(got)} cells instead of the {k + 1} cells of that "
                           "prefix (a step that does not make the travelled length exceed max_length was refused, or one that does was taken)",
                           "max_length": ml, "impl": got, "expected": want, "steps": steps[:k + 1], "full_path": full})
            elif got == want and gdist != cum[k] and len(fs) < 3:
                fs.append({"kind": "spec", "what": "round trip: length of the prefix differs from the left-to-right sum of its step lengths",
                           "max_length": ml, "impl": gdist, "expected": cum[k], "path": got})
            sidx = canon_idx(r2[0], n)
            sd = float(np.asarray(r2[1]).ravel()[0])
            if sidx != [got[-1]] and len(fs) < 3:
                fs.append({"kind": "spec", "what": "round trip: snap cell is not the last cell of path() for the same arguments",
                           "max_length": ml, "snap": sidx, "path": got})
            elif sd != float(np.float32(gdist)) and len(fs) < 3:
                fs.append({"kind": "spec", "what": "round trip: snap distance is not the float32 value of the path length",
                           "max_length": ml, "snap": sd, "path": gdist})
        ctx.count("roundtrip:probes", nprobe)
        ctx.count("roundtrip:pathlen:" + ("1" if L == 0 else "2-3" if L <= 2 else "4-8" if L <= 7 else "9+"))
        inexact = any(Fraction(cum[k]) + Fraction(steps[k]) != Fraction(cum[k + 1]) for k in range(L))
        ctx.count("roundtrip:sum-rounds" if inexact else "roundtrip:sum-exact")
        if fs:
            desc = dict(desc, max_length=fs[0].get("max_length"))
        ctx.add(desc, [], lambda ans, fs=fs: fs, nontrivial=L >= 2 and inexact)


def _stop_reasons(nxt, mask, impl_paths, n):
    out = []
    for p in impl_paths:
        last = p[-1] if p else n
        if last >= n:
            out.append("invalid")
        elif mask is not None and mask[last]:
            out.append("mask")
        elif nxt[last] == last or nxt[last] == n:
            out.append("pit")
        else:
            out.append("maxlen")
    return out


def _add_trace(ctx, desc, reqs, checks, nxt, starts, mask, ml_arg, fuel, stepargs, scale, exact,
               impl_paths, impl_dist, impl_snap, impl_sdist, dtype_ok, n):
    reasons = _stop_reasons(nxt, mask, impl_paths, n)
    for r, p in zip(reasons, impl_paths):
        ctx.count("stop:" + r)
        ctx.count("pathlen:" + ("1" if len(p) == 1 else "2-3" if len(p) <= 3 else "4+"))
    nontriv = any(len(p) >= 2 and r in ("mask", "maxlen") for r, p in zip(reasons, impl_paths))
    args = {"nxt": nxt, "starts": starts, "mask": mask, "max_length": ml_arg, "fuel": fuel, **stepargs}
    pos = len(reqs)
    reqs = reqs + [("c11_trace", args)]
    sd32 = [float(x) for x in np.asarray(impl_sdist).ravel()]
    sdist_dtype_ok = np.asarray(impl_sdist).dtype == np.float32

    def split(flat, lens):
        out, k = [], 0
        for l in lens:
            out.append(flat[k:k + l])
            k += l
        return out

    def close(x, ref_scaled, tol_rel):
        ref = Fraction(ref_scaled, scale)
        return abs(Fraction(x) - ref) <= Fraction(tol_rel) * max(Fraction(1), abs(ref))

    def judge(ans):
        fs = []
        for c in checks:
            fs.extend(c(ans))
        a = ans[pos]
        if "__err__" in a:
            return fs + [{"kind": "model", "what": "driver error " + a["__err__"]}]
        if a["spec.ok"] != [1] * len(starts) or a["model.ok"] != [1] * len(starts):
            fs.append({"kind": "model", "what": "model/spec trace ran out of fuel (harness fuel bound too small?)",
                       "model.ok": a["model.ok"], "spec.ok": a["spec.ok"]})
            return fs
        if exact and a["exact"] != [1]:
            fs.append({"kind": "model", "what": "projected step length not a perfect square (generator discipline broken)"})
            return fs
        spec_paths = split(a["spec.paths"], a["spec.plen"])
        model_paths = split(a["model.paths"], a["model.plen"])
        if impl_paths != spec_paths:
            bad = [k for k in range(len(starts)) if k >= len(impl_paths) or impl_paths[k] != spec_paths[k]][:3]
            fs.append({"kind": "spec", "what": f"path differs from [iter^k start | k <= least stopping index] for start #{bad}",
                       "impl": impl_paths, "spec": spec_paths})
        if impl_paths != model_paths:
            fs.append({"kind": "model", "what": "path: implementation != Lean model", "impl": impl_paths, "model": model_paths})
        if exact:
            idist = [Fraction(x) * scale for x in impl_dist]
            if [int(x) if x.denominator == 1 else x for x in idist] != a["spec.dist"]:
                fs.append({"kind": "spec", "what": "path length differs from the sum of the step lengths",
                           "impl": impl_dist, "spec_scaled_by_%d" % scale: a["spec.dist"]})
            if [int(x) if x.denominator == 1 else x for x in idist] != a["model.dist"]:
                fs.append({"kind": "model", "what": "dist: implementation != Lean model", "impl": impl_dist,
                           "model_scaled_by_%d" % scale: a["model.dist"]})
            sdist_s = [Fraction(x) * scale for x in sd32]
            if sdist_s != [Fraction(v) for v in a["spec.sdist"]]:
                fs.append({"kind": "spec", "what": "snap distance differs from the sum of the step lengths",
                           "impl": sd32, "spec_scaled_by_%d" % scale: a["spec.sdist"]})
            if sdist_s != [Fraction(v) for v in a["model.sdist"]]:
                fs.append({"kind": "model", "what": "snap dist: implementation != Lean model"})
        else:
            for k in range(len(starts)):
                if not close(impl_dist[k], a["spec.dist"][k], 1e-12):
                    fs.append({"kind": "spec", "what": "path length differs from the sum of the (implementation's own) step lengths by more than 1e-12 rel",
                               "impl": impl_dist[k], "spec": float(Fraction(a["spec.dist"][k], scale))})
                if not close(impl_dist[k], a["model.dist"][k], 1e-12):
                    fs.append({"kind": "model", "what": "dist: implementation != Lean model (tolerance 1e-12 rel)"})
                if sd32[k] != float(np.float32(impl_dist[k])):
                    fs.append({"kind": "spec", "what": "snap distance is not the float32 value of the path length",
                               "snap": sd32[k], "path": impl_dist[k]})
        if impl_snap != a["spec.snap"]:
            fs.append({"kind": "spec", "what": "snap does not return the last cell of the specified path",
                       "impl": impl_snap, "spec": a["spec.snap"]})
        if impl_snap != a["model.snap"]:
            fs.append({"kind": "model", "what": "snap: implementation != Lean model", "impl": impl_snap, "model": a["model.snap"]})
        if impl_snap != [p[-1] for p in impl_paths]:
            fs.append({"kind": "spec", "what": "snap cell is not the last cell of path() for the same arguments",
                       "snap": impl_snap, "paths": impl_paths})
        if not dtype_ok:
            fs.append({"kind": "model", "what": "path arrays do not carry the index dtype of the network"})
        if not sdist_dtype_ok:
            fs.append({"kind": "model", "what": "snap distances are not float32"})
        return fs

    ctx.add(desc, reqs, judge, nontrivial=nontriv)


def _req_main_upstream(reqs, checks, ds, upa_model, upa_spec, upa_min, impl, label):
    pos = len(reqs)
    reqs.append(("c11_main_upstream", {"ds": ds, "uparea": upa_model, "upa_min": upa_min, "impl": impl}))
    pos2 = None
    if upa_spec is not upa_model and upa_spec != upa_model:
        pos2 = len(reqs)
        reqs.append(("c11_main_upstream", {"ds": ds, "uparea": upa_spec, "upa_min": upa_min, "impl": impl}))

    def chk(ans):
        a = ans[pos]
        if "__err__" in a:
            return [{"kind": "model", "what": "driver error " + a["__err__"]}]
        fs = []
        b = a if pos2 is None else ans[pos2]
        if "__err__" in b:
            return [{"kind": "model", "what": "driver error " + b["__err__"]}]
        if b["spec.impl_ok"] != [1]:
            fs.append({"kind": "spec", "what": f"{label}: some cell's main upstream cell is not an inflowing cell with the largest upstream area",
                       "impl": impl, "uparea": upa_spec})
        if a["spec.model_ok"] != [1]:
            fs.append({"kind": "model", "what": "model main_upstream fails its own certificate"})
        if impl != a["model"]:
            fs.append({"kind": "model", "what": f"{label}: implementation != Lean model", "impl": impl, "model": a["model"]})
        return fs
    checks.append(chk)


def _req_cellof(reqs, checks, nrow, ncol, x0, y0, xres, yres, xs, ys, cells, idx_impl):
    den = 1
    for v in [Fraction(x0), Fraction(y0), Fraction(xres), Fraction(yres)] + list(xs) + list(ys):
        den = den * v.denominator // math.gcd(den, v.denominator)      # python ints: 2**43 and beyond
    sc = lambda v: int(Fraction(v) * den)
    pos = len(reqs)
    reqs.append(("c11_cellof", {"nrow": nrow, "ncol": ncol, "x0": sc(x0), "y0": sc(y0), "xres": sc(xres), "yres": sc(yres),
                                "xs": [sc(x) for x in xs], "ys": [sc(y) for y in ys]}))

    def chk(ans):
        a = ans[pos]
        if "__err__" in a:
            return [{"kind": "model", "what": "driver error " + a["__err__"]}]
        fs = []
        if a["model"] != list(cells) or a["spec.inside"] != [1] * len(cells):
            fs.append({"kind": "model", "what": "model cellOf disagrees with the cell the point was generated in",
                       "model": a["model"], "cells": list(cells)})
        if idx_impl != list(cells):
            fs.append({"kind": "spec", "what": "index(x, y) is not the cell containing the point",
                       "impl": idx_impl, "cell": list(cells)})
        if idx_impl != a["model"]:
            fs.append({"kind": "model", "what": "index(xy): implementation != Lean model", "impl": idx_impl, "model": a["model"]})
        return fs
    checks.append(chk)


def _vector_case(ctx, rng, max_nodes):
    n = rng.randint(2, max_nodes)
    if rng.random() < 0.7:
        ds, fam = gen_forest(rng, n, fanin_bias=rng.choice([0.0, 0.5])), "vforest"
    else:
        ds, fam = gen_funcgraph(rng, n), "vfuncgraph"
        if not any(ds[i] == i for i in range(n)):
            v = [i for i in range(n) if ds[i] != n]
            p = rng.choice(v)
            ds[p] = p
    valid = [i for i in range(n) if ds[i] != n]
    loops = has_loop(ds)
    dtype = rng.choice([np.int32, np.int64, np.uint32])
    try:
        flw = mk_vector(ds, dtype=dtype)
    except ValueError:
        ctx.count("ctor-rejected")
        return
    ctx.count("family:" + fam)
    direction = rng.choice(["down", "up"])
    ctx.count("dir:" + direction)
    ctx.count("unit:vector")
    reqs, checks = [], []
    if direction == "down":
        nxt = list(ds)
    else:
        r0 = call_impl(ctx, {"op": "idxs_us_main", "ds": ds}, lambda: (flw.idxs_us_main, flw.upstream_area()), "idxs_us_main")
        if r0 is None:
            return
        nxt = canon_idx(r0[0], n)
        upa_impl = [Fraction(float(x)) for x in np.asarray(r0[1]).ravel()]
        upa_impl = [0 if ds[i] == n else int(upa_impl[i]) for i in range(n)]
        upa_spec = upa_impl if loops else own_uparea(ds)
        _req_main_upstream(reqs, checks, ds, upa_impl, upa_spec, 0, nxt, "idxs_us_main")
    starts = [pick_start(rng, nxt, valid) for _ in range(rng.randint(1, 4))]
    mask = None
    if rng.random() < 0.55:
        p = rng.choice([0.05, 0.15, 0.4])
        mask = [rng.random() < p for _ in range(n)]
        if rng.random() < 0.25:
            mask[starts[0]] = True
        elif rng.random() < 0.5:
            mask[walk(nxt, starts[0], rng.randint(1, 6))[-1]] = True
    ml = None
    mlkind = "none"
    need_ml = loops and not all(terminates(nxt, s, mask, n + 2) for s in starts)
    if rng.random() < 0.6 or need_ml:
        w = walk(nxt, starts[0], rng.randint(0, 8))
        cum = Fraction(len(w) - 1)
        g2 = rng.random()
        if g2 < 0.45:
            ml, mlkind = cum, "boundary"
        elif g2 < 0.65:
            ml, mlkind = cum + Fraction(rng.choice([1, 2, 3]), 4), "above"
        elif g2 < 0.85:
            ml, mlkind = cum - Fraction(rng.choice([1, 2, 3]), 4), "below"
        elif g2 < 0.93:
            ml, mlkind = Fraction(0), "zero"
        else:
            ml, mlkind = Fraction(rng.randint(0, 60), 4), "random"
    ctx.count("max_length:" + mlkind)
    ml_py = None if ml is None else float(ml)
    ml_arg = None if ml is None else int(ml * SC)
    fuel = n + 2 + (0 if ml is None else int(max(0, ml_py)) + 3)
    mask_np = None if mask is None else np.array(mask, dtype=bool)
    desc = {"op": "Flwdir.path", "ds": ds, "dtype": np.dtype(dtype).name, "starts": starts,
            "mask": None if mask is None else [int(b) for b in mask], "max_length": ml_py, "direction": direction}
    r1 = call_impl(ctx, desc, lambda: flw.path(idxs=np.array(starts), mask=mask_np, max_length=ml_py, direction=direction),
                   "Flwdir.path")
    if r1 is None:
        return
    paths, dist = r1
    impl_paths = [canon_idx(p, n) for p in paths]
    dtype_ok = all(p.dtype == flw.idxs_ds.dtype for p in paths)
    # Flwdir has no snap(): the snap part of the request is compared with the last cell of the path
    _add_trace(ctx, desc, reqs, checks, nxt, starts, mask, ml_arg, fuel, {"stepmode": 0, "one": SC}, SC, True,
               impl_paths, [float(x) for x in dist], [p[-1] for p in impl_paths],
               np.array([float(x) for x in dist], dtype=np.float32), dtype_ok, n)


def _main_upstream_case(ctx, rng, max_nodes):
    """public main_upstream(uparea=...) with arbitrary areas (ties, zeros, negatives, halves)"""
    n = rng.randint(2, max_nodes)
    ds = gen_forest(rng, n, fanin_bias=rng.choice([0.0, 0.5, 0.8])) if rng.random() < 0.8 else gen_funcgraph(rng, n)
    if not any(ds[i] == i for i in range(n)):
        v = [i for i in range(n) if ds[i] != n]
        p = rng.choice(v)
        ds[p] = p
    try:
        flw = mk_vector(ds, dtype=rng.choice([np.int32, np.int64, np.uint32]))
    except ValueError:
        ctx.count("ctor-rejected")
        return
    hi = rng.choice([2, 4, 50])
    if rng.random() < 0.5:
        upa = [rng.randint(-1, hi) for _ in range(n)]
        arr = np.array(upa, dtype=rng.choice([np.int32, np.int64]))
        scaled = upa
    else:
        upa = [Fraction(rng.randint(-2, 2 * hi), 2) for _ in range(n)]
        arr = np.array([float(x) for x in upa], dtype=rng.choice([np.float32, np.float64]))
        scaled = [int(x * 2) for x in upa]
    r0 = call_impl(ctx, {"op": "main_upstream", "ds": ds, "uparea": [float(x) for x in arr]},
                   lambda: flw.main_upstream(uparea=arr), "main_upstream")
    if r0 is None:
        return
    impl = canon_idx(r0, n)
    feat = net_features(ds)
    ctx.count("family:main_upstream")
    reqs, checks = [], []
    _req_main_upstream(reqs, checks, ds, scaled, scaled, 0, impl, "main_upstream(uparea)")
    desc = {"op": "main_upstream", "ds": ds, "uparea_x2" if arr.dtype.kind == "f" else "uparea": scaled}

    def judge(ans):
        fs = []
        for c in checks:
            fs.extend(c(ans))
        return fs
    ctx.add(desc, reqs, judge, nontrivial=feat["confluences"] >= 1)


def _exhaustive(ctx):
    """all functional graphs on 2..4 nodes (with missing values, >= 1 pit) x all masks x max_length in
    {None, 0, 1, 1.5, 2, 3} x both directions, every valid start; non-terminating combinations are skipped"""
    import itertools
    for n in (2, 3, 4):
        for ds in itertools.product(range(n + 1), repeat=n):
            ds = list(ds)
            if not any(ds[i] == i for i in range(n)):
                continue
            if any(ds[i] != n and ds[ds[i]] == n for i in range(n)):
                continue                      # a valid cell must drain to a valid cell
            valid = [i for i in range(n) if ds[i] != n]
            if len(valid) < 1:
                continue
            flw = mk_vector(ds, dtype=np.int32)
            for direction in ("down", "up"):
                if direction == "down":
                    nxt = list(ds)
                else:
                    r0 = call_impl(ctx, {"op": "idxs_us_main", "ds": ds}, lambda: flw.idxs_us_main, "idxs_us_main")
                    if r0 is None:
                        continue
                    nxt = canon_idx(r0, n)
                for mbits in range(2 ** n):
                    mask = None if mbits == 0 else [bool(mbits >> i & 1) for i in range(n)]
                    if mask is not None and any(mask[i] and ds[i] == n for i in range(n)):
                        continue
                    for ml in (None, 0.0, 1.0, 1.5, 2.0, 3.0):
                        starts = [s for s in valid if ml is not None or terminates(nxt, s, mask, n + 2)]
                        if not starts:
                            continue
                        mask_np = None if mask is None else np.array(mask, dtype=bool)
                        desc = {"op": "Flwdir.path", "ds": ds, "starts": starts, "mask": None if mask is None else [int(b) for b in mask],
                                "max_length": ml, "direction": direction, "exhaustive": True}
                        r1 = call_impl(ctx, desc, lambda: flw.path(idxs=np.array(starts), mask=mask_np, max_length=ml,
                                                                   direction=direction), "Flwdir.path")
                        if r1 is None:
                            continue
                        paths, dist = r1
                        impl_paths = [canon_idx(p, n) for p in paths]
                        ctx.count("family:exhaustive")
                        _add_trace(ctx, desc, [], [], nxt, starts, mask, None if ml is None else int(ml * SC),
                                   n + 8, {"stepmode": 0, "one": SC}, SC, True, impl_paths, [float(x) for x in dist],
                                   [p[-1] for p in impl_paths], np.array([float(x) for x in dist], dtype=np.float32), True, n)
                        if len(ctx.cases) > 2000:
                            ctx.flush()
