"""C18 - sub-basins (stream order, minimum area, Pfafstetter): correspondence of
FlwdirRaster.subbasins_streamorder / subbasins_area / subbasins_pfafstetter with the Lean model (eq)
and evaluation of the proven-sound certificate predicates on the implementation's output (spec)."""
import json
import os
import subprocess
import sys

if __name__ == "__main__":  # started as the compiled-mode worker (see _jit_worker)
    sys.path.insert(0, os.path.dirname(os.path.dirname(os.path.abspath(__file__))))
import numpy as np
from common import (gen_raster_net, gen_shape, mk_raster, canon_idx, ints, net_features, max_path_len,
                    topo_of)

OPS = ["subbasins_streamorder", "subbasins_area", "subbasins_pfafstetter(depth=1,2,3)",
       "stream_order(classic)", "_tributaries"]
RULE = ("random loop-free networks on rasters <= 56 cells (quick) / <= 400 (thorough): D8 networks from random "
        "DEMs, arbitrary forests, nested 'comb' trees (main stems with many tributaries) and 'star' confluences "
        "(3-5 inflows with prescribed sub-basin sizes around area_min feeding a reach that ends at a non-pit "
        "outlet); stream orders = "
        "Strahler (default and explicit), classic, random; thresholds min_sto in -3..4, area_min 0..half the "
        "largest area incl. values equal to an upstream area; upstream areas = cell counts (many ties), "
        "accumulated random cell areas in quarters (few ties), arbitrary fields; cell order = order_cells('sort') or, "
        "for a quarter of the networks, order_cells('walk') (the op reports whether the order is sorted by the distance to "
        "the pit, the hypothesis of theorem area_size); upa_min None/0/a value of the "
        "field; depths 1..3; index dtypes int32/int64/uint32. non-trivial = >= 2 valid cells, >= 1 confluence, "
        "path length >= 3; distinct = SHA-1 of (op, network, parameters). Pfafstetter additionally on 10 (quick) / 100 "
        "(thorough) 'long combs' (x escalation): one main stem of 104..130 cells with more than 100 direct tributaries "
        "of 1 cell, a few of 2-3 cells (chains/forks; one, two or three tied area levels, spread over the stem or "
        "clustered at its head/foot so that an inter-basin stem of level 2 or 3 again has > 100 tied tributaries), "
        "260..650 cells numbered as a 2..5 x N raster (stem along a row, either direction) or shuffled; upstream area "
        "= cell counts (default / explicit), one area for all cells, or random cell areas; judged like every other "
        "network (certificates on the implementation's output, which hold for every tie order; model equality when "
        "untied). thorough: additionally 700 networks (+ 35 long combs) in a "
        "child process with Numba compilation enabled (same generators and judges)")
JIT = os.environ.get("PF_JIT", "0") == "1"
SCALE = 4  # areas are multiples of 1/4: exact in float64, sent to the model as integers


# ------------------------------------------------------------------------------------------
# generators
# ------------------------------------------------------------------------------------------
def gen_comb(rng, n):
    """nested comb: a main stem with tributaries that are combs themselves (many confluences on one
    stem, which is what the Pfafstetter 'four largest tributaries' selection needs). Returns ds on
    n nodes under a random relabelling; a few nodes stay nodata."""
    perm = list(range(n))
    rng.shuffle(perm)
    nvalid = min(n, max(3, n - rng.randint(0, max(0, n // 8))))
    ds = [n] * n
    used = [0]

    def new():
        v = perm[used[0]]
        used[0] += 1
        return v

    def grow(root, budget, level):
        # stem upstream of root
        stem = [root]
        ln = rng.randint(1, max(1, min(budget, 3 + budget // 3)))
        for _ in range(ln):
            if used[0] >= nvalid:
                return
            v = new()
            ds[v] = stem[-1]
            stem.append(v)
        budget -= ln
        while budget > 0 and used[0] < nvalid:
            at = rng.choice(stem)
            v = new()
            ds[v] = at
            b = rng.randint(0, max(0, budget // 2)) if level < 3 else 0
            budget -= 1 + b
            if b > 0:
                grow(v, b, level + 1)

    npits = rng.choice([1, 1, 1, 2, 3])
    for _ in range(npits):
        if used[0] >= nvalid:
            break
        p = new()
        ds[p] = p
        grow(p, max(1, (nvalid - used[0]) // (npits if npits > 1 else 1)), 0)
    return ds


def gen_star(rng, max_cells):
    """star confluence feeding a downstream reach: pit <- reach longer than the threshold A (so the
    reach above it is cut from the pit basin and ends at a NON-pit outlet) <- short reach <- confluence
    d with 3-5 inflows: a long main stem and 2-4 tributaries whose sub-basin sizes are prescribed
    around A (at least two of them > A). Whether the last tributaries / the main stem may still be
    cut depends on what the earlier cuts left of d's sub-basin: the `upa_out` bookkeeping.
    Returns (ds, shape, A)."""
    while True:
        A = rng.randint(2, 5)
        l_down = A + rng.randint(1, 3)
        l_gap = rng.randint(1, max(1, A - 1))
        l_main = rng.randint(A + 2, 2 * A + 4)
        ntrib = rng.randint(2, 4)
        sizes = [A + rng.randint(1, 2), A + rng.randint(1, 2)] + [A + rng.randint(-1, 2) for _ in range(ntrib - 2)]
        sizes = [min(s, l_main - 1) for s in sizes]
        rng.shuffle(sizes)
        extra = [rng.randint(1, A) for _ in range(rng.randint(0, 2))]     # small side branches on the main stem
        need = 1 + l_down + l_gap + l_main + sum(sizes) + sum(extra)
        if need <= max_cells:
            break
    ncol = rng.randint(3, 8)
    nrow = -(-need // ncol) + rng.randint(0, 1)
    while nrow * ncol > max_cells:
        ncol -= 1
        nrow = -(-need // ncol)
    n = nrow * ncol
    perm = list(range(n))
    rng.shuffle(perm)
    ds = [n] * n
    used = [0]

    def new(parent):
        v = perm[used[0]]
        used[0] += 1
        ds[v] = v if parent is None else parent
        return v

    def chain(root, ln):
        cells, cur = [], root
        for _ in range(ln):
            cur = new(cur)
            cells.append(cur)
        return cells

    def blob(root, size):
        """sub-basin of `size` cells draining to root: a chain, sometimes with a fork"""
        first = new(root)
        cells = [first]
        for _ in range(size - 1):
            at = cells[-1] if rng.random() < 0.7 else rng.choice(cells)
            cells.append(new(at))
        return first

    pit = new(None)
    down = chain(pit, l_down)
    gap = chain(down[-1], l_gap)
    d = gap[-1]
    order = ["main"] + ["trib"] * len(sizes)
    rng.shuffle(order)                      # cell numbering (and so the order within seq) varies
    main = None
    it = iter(sizes)
    for what in order:
        if what == "main":
            main = chain(d, l_main)
        else:
            blob(d, next(it))
    for e in extra:
        blob(rng.choice(main[:-1]), e)
    return ds, (nrow, ncol), A


def gen_longcomb(rng):
    """long comb: ONE main stem of 104..130 cells below a pit with more than 100 direct tributaries -
    every stem cell (but a short tail at the head and 0-2 gaps) carries a small tributary, some a
    second one. Tributary sizes are tied: all 1 ('flat'), or two / three levels (a few tributaries
    of 2 / 3 cells - chains or forks - among the single cells), so that the 'four largest' are, as
    a rule, not determined (tie between the 4th and the 5th largest). The larger tributaries are
    spread over the stem or clustered in a short window at its head / its foot: then an inter-basin
    stem of the next Pfafstetter level again has more than 100 (tied) tributaries.
    Cell numbering: column = stem position, row = slot (a 2..5 x N raster with the stem along one
    row, flowing west or east, tributaries across; chains are true D8 links) or a random relabelling.
    Returns (ds, shape, info)."""
    place = rng.choice(["spread", "spread", "head", "foot"])
    S = rng.randint(104, 130) if place == "spread" else rng.randint(118, 130)
    tail = rng.choice([0, 0, 1, 2, 3])
    bearing = list(range(S - tail))          # stem positions (0 = pit) with a tributary
    for _ in range(rng.randint(0, 2)):
        if len(bearing) > 102:
            bearing.remove(rng.choice(bearing))
    mode = rng.choice(["flat", "two", "three", "three"])
    if mode == "flat":
        bigs = []
    elif mode == "two":
        bigs = [rng.choice([2, 3])] * rng.randint(1, 8)
    else:
        bigs = [3] * rng.randint(0, 5) + [2] * rng.randint(1, 6)
    size = {k: 1 for k in bearing}
    if place == "spread":
        where = rng.sample(bearing, len(bigs))
    else:
        w = len(bearing) - 102              # >= 12: the rest of the stem keeps more than 100 tributaries
        window = bearing[-w:] if place == "head" else bearing[:w]
        u = rng.random()
        if u < 0.3:       # the four largest are determined: the tie is met on an inter-basin stem at the 2nd level
            mode, bigs = "four", rng.choice([[2] * 4, [3] * 4, [3, 3, 2, 2], [3, 2, 2, 2]])
        elif u < 0.6:     # ... determined at two levels: four of 3 cells at the end, four of 2 cells next to them
            mode, bigs = "nested", [3] * 4 + [2] * 4
        if mode == "nested":
            outer, inner = (window[w // 2:], window[:w // 2]) if place == "head" else (window[:w // 2], window[w // 2:])
            where = rng.sample(outer, 4) + rng.sample(inner, 4)
        else:
            where = rng.sample(window, len(bigs))
    for k, b in zip(where, bigs):
        size[k] = b
    second = set(rng.sample(bearing, rng.randint(1, 60))) if rng.random() < 0.3 else set()
    up_rows = max(size.values())
    r0 = up_rows                                # row of the stem
    nrow = up_rows + 1 + (1 if second else 0)
    cells = {}                                  # (row, col) -> downstream (row, col)
    for k in range(S):
        cells[(r0, k)] = (r0, k - 1) if k > 0 else (r0, 0)
    for k, b in size.items():
        cells[(r0 - 1, k)] = (r0, k)
        fork = b == 3 and rng.random() < 0.4
        for j in range(2, b + 1):
            cells[(r0 - j, k)] = (r0 - 1, k) if fork else (r0 - j + 1, k)
    for k in second:
        cells[(r0 + 1, k)] = (r0, k)
    flip_r, flip_c = rng.random() < 0.5, rng.random() < 0.5
    n = nrow * S
    perm = None
    if rng.random() < 0.35:
        perm = list(range(n))
        rng.shuffle(perm)

    def cid(rc):
        r, c = rc
        i = (nrow - 1 - r if flip_r else r) * S + (S - 1 - c if flip_c else c)
        return i if perm is None else perm[i]

    ds = [n] * n
    for rc, to in cells.items():
        ds[cid(rc)] = cid(to)
    shape = (nrow, S) if rng.random() < 0.8 else (S, nrow)       # the latter: same links, other raster shape
    info = {"mode": mode, "place": place, "ntrib": len(size) + len(second),
            "numbering": "raster" if perm is None else "shuffled"}
    return ds, shape, info


def gen_net(rng, max_cells):
    u = rng.random()
    if u < 0.12:
        ds, shape, A = gen_star(rng, max_cells)
        gen_net.hint = A
        return ds, shape, "star"
    gen_net.hint = None
    if u < 0.45:
        shape = gen_shape(rng, max_cells=max_cells)
        n = shape[0] * shape[1]
        return gen_comb(rng, n), shape, "comb"
    return gen_raster_net(rng, max_cells=max_cells)


def accumulate(ds, area):
    n = len(ds)
    up = [area[i] if ds[i] != n else 0 for i in range(n)]
    for i in reversed(topo_of(ds)):
        if ds[i] != i:
            up[ds[i]] += up[i]
    return up


def gen_area_field(rng, ds):
    """(kind, cell areas scaled by SCALE or None, upstream area scaled by SCALE, nodata -> -9999*SCALE)"""
    n = len(ds)
    kind = rng.choice(["count", "count", "weighted", "weighted", "weighted", "arbitrary"])
    if kind == "count":
        area = [SCALE] * n
    elif kind == "weighted":
        hi = rng.choice([3, 12, 40, 0])
        if hi == 0:   # cell areas whose differences need more than float32's 24 bits (all sums exact in float64)
            area = [(1 << 26) + rng.randint(0, 1 << 20) for _ in range(n)]
        else:
            area = [rng.randint(1, hi) for _ in range(n)]
    else:
        up = [rng.randint(0, 20) * rng.choice([1, SCALE]) if ds[i] != n else -9999 * SCALE for i in range(n)]
        return kind, None, up
    up = accumulate(ds, area)
    up = [up[i] if ds[i] != n else -9999 * SCALE for i in range(n)]
    return kind, area, up


def has_tie(ds, up):
    n = len(ds)
    vals = [up[i] for i in range(n) if ds[i] != n]
    return len(set(vals)) != len(vals)


def to_float(vals):
    return np.array([v / SCALE for v in vals], dtype=np.float64)


# ------------------------------------------------------------------------------------------
def run(ctx):
    rng = ctx.rng
    ncase = (400 if ctx.tier == "quick" else 5000) * ctx.escalate
    if getattr(ctx, "jit_worker", False):
        ncase = 700
    elif ctx.tier == "thorough" and not JIT:
        _jit_worker(ctx)
    max_cells = 56 if ctx.tier == "quick" else 400
    for k in range(ncase):
        ds, shape, fam = gen_net(rng, max_cells)
        n = len(ds)
        feat = net_features(ds)
        nontriv = feat["valid"] >= 2 and feat["confluences"] >= 1 and max_path_len(ds) >= 3
        ctx.count("family:" + fam)
        dt = rng.choice([np.int32, np.int32, np.int64, np.uint32])
        try:
            flw = mk_raster(ds, shape, dtype=dt)
        except ValueError:
            ctx.count("ctor-rejected")
            continue
        order = "sort"
        if rng.random() < 0.25:     # the breadth-first order of order_cells("walk"): also sorted by distance to the pit
            flw.order_cells(method="walk")
            order = "walk"
        ctx.count("order:" + order)
        seq = canon_idx(flw.idxs_seq, n)
        base = {"ds": ds, "shape": list(shape), "dtype": np.dtype(dt).name, "jit": JIT, "order": order}
        env = {"flw": flw, "ds": ds, "n": n, "seq": seq, "shape": shape, "base": base, "nontriv": nontriv,
               "hint": gen_net.hint}
        _streamorder(ctx, rng, env)
        _area(ctx, rng, env)
        _pfaf(ctx, rng, env)
        if rng.random() < 0.25:
            _kernels(ctx, rng, env)
        if len(ctx.cases) > 300:
            ctx.flush()
    # long combs (a main stem with more than 100 tributaries): Pfafstetter only
    nlong = 700 // 20 if getattr(ctx, "jit_worker", False) else (10 if ctx.tier == "quick" else 100) * ctx.escalate
    for k in range(nlong):
        ds, shape, info = gen_longcomb(rng)
        n = len(ds)
        ctx.count("family:longcomb")
        ctx.count("longcomb:%s/%s/%s" % (info["mode"], info["place"], info["numbering"]))
        dt = rng.choice([np.int32, np.int32, np.int64, np.uint32])
        flw = mk_raster(ds, shape, dtype=dt)
        order = "sort"
        if rng.random() < 0.25:
            flw.order_cells(method="walk")
            order = "walk"
        ctx.count("order:" + order)
        seq = canon_idx(flw.idxs_seq, n)
        base = {"ds": ds, "shape": list(shape), "dtype": np.dtype(dt).name, "jit": JIT, "order": order}
        env = {"flw": flw, "ds": ds, "n": n, "seq": seq, "shape": shape, "base": base, "nontriv": True,
               "hint": None, "longcomb": info}
        _pfaf(ctx, rng, env)
        if len(ctx.cases) > 40:
            ctx.flush()


def _jit_worker(ctx):
    """thorough tier: the same generators and judges once more in a child process with Numba
    compilation enabled (the kernels users actually run; type inference and argsort differ there).
    The child drives the Lean driver itself and reports failures and counters."""
    env = dict(os.environ)
    env.pop("NUMBA_DISABLE_JIT", None)
    env["PF_JIT"] = "1"
    p = subprocess.run([sys.executable, os.path.abspath(__file__), str(ctx.seed), ctx.tier],
                       env=env, stdout=subprocess.PIPE, stderr=subprocess.PIPE, timeout=3000)
    if p.returncode != 0:
        raise RuntimeError("compiled-mode worker failed: " + p.stderr.decode()[-1500:])
    out = json.loads(p.stdout.decode().strip().splitlines()[-1])
    ctx.failures += out["failures"]
    ctx.evaluations += out["evaluations"]
    ctx.impl_validated += out["impl_validated"]
    ctx.panics += out["panics"]
    ctx.nontrivial |= set(out["nontrivial"])
    for k, v in out["hist"].items():
        ctx.count("jit/" + k, v)
    ctx.notes.append("compiled-mode (Numba) worker: %d cases" % out["evaluations"])


def _err(a):
    return [{"kind": "model", "what": "driver error " + a["__err__"]}]


# ------------------------------------------------------------------------------------------
# stream-order sub-basins
# ------------------------------------------------------------------------------------------
def _streamorder(ctx, rng, env):
    flw, ds, n, seq, shape = env["flw"], env["ds"], env["n"], env["seq"], env["shape"]
    kind = rng.choice(["default", "strahler", "strahler", "classic", "random"])
    if kind == "default":
        # strord=None: the method computes the Strahler order itself; the expected order is the harness' own (an object
        # that has answered queries / been edited before must not fall back on an order of an earlier network)
        from common import strahler_of
        strord_arg = None
        strord = strahler_of(ds)
    elif kind == "strahler":
        strord = ints(flw.stream_order())
        strord_arg = np.array(strord, dtype=np.uint8).reshape(shape)
    elif kind == "classic":
        strord = ints(flw.stream_order(type="classic"))
        strord_arg = np.array(strord, dtype=np.uint8).reshape(shape)
    else:
        strord = [rng.randint(0, 3) for _ in range(n)]
        strord_arg = np.array(strord, dtype=np.uint8).reshape(shape)
    min_sto = rng.choice([-3, -2, -2, -1, 0, 1, 1, 2, 2, 3, 4])
    mask = None
    if rng.random() < 0.35:
        mask = [rng.random() < 0.75 for _ in range(n)]
    mask_arg = None if mask is None else np.array(mask, dtype=bool).reshape(shape)
    kw = {}
    if min_sto != -2 or rng.random() < 0.5:
        kw["min_sto"] = min_sto
    lab, idxs = flw.subbasins_streamorder(strord=strord_arg, mask=mask_arg, **kw)
    impl_l, impl_o = ints(lab), canon_idx(idxs, n)
    eff_mask = mask   # `mask[idx0] == False`: honoured in interpreted and compiled mode
    ctx.count("so:strord=" + kind)
    ctx.count("so:outlets", len(impl_o))
    ctx.count("so:nonpit-outlets", sum(1 for o in impl_o if ds[o] != o))
    if mask is not None:
        ctx.count("so:mask-passed")
    desc = {"op": "subbasins_streamorder", **env["base"], "strord": strord if strord_arg is not None else None,
            "min_sto": min_sto, "mask": mask}
    dtype_ok = lab.dtype.kind == "i" and lab.shape == tuple(shape)

    def judge(ans):
        a = ans[0]
        if "__err__" in a:
            return _err(a)
        fs = []
        if a["topo"] != [1]:
            fs.append({"kind": "spec", "what": "cell order handed to the kernel is not downstream-first (C03 hypothesis)"})
        if sorted(impl_o) != a["spec.outlets"] or len(set(impl_o)) != len(impl_o):
            fs.append({"kind": "spec", "what": "stream-order outlets differ from {order >= min_sto and (pit or order changes downstream)}",
                       "impl": sorted(impl_o), "spec": a["spec.outlets"]})
        if a["impl.sub_ok"] != [1]:
            fs.append({"kind": "spec", "what": "stream-order sub-basin map is not the first-outlet partition of its outlets",
                       "impl_labels": impl_l, "impl_idxs": impl_o})
        if a["impl.ids_ok"] != [1]:
            fs.append({"kind": "spec", "what": "k-th returned outlet does not carry label k+1",
                       "impl_labels": impl_l, "impl_idxs": impl_o})
        if impl_l != a["model.labels"] or impl_o != a["model.idxs"]:
            fs.append({"kind": "model", "what": "subbasins_streamorder: implementation != Lean model",
                       "impl": [impl_l, impl_o], "model": [a["model.labels"], a["model.idxs"]]})
        if a["self.sub_ok"] != [1]:
            fs.append({"kind": "model", "what": "certificate rejects the model's own output"})
        if not dtype_ok:
            fs.append({"kind": "spec", "what": f"label map dtype/shape: {lab.dtype} {lab.shape}"})
        return fs

    ctx.add(desc, [("c18_streamorder", {"ds": ds, "seq": seq, "strord": strord, "mask": eff_mask,
                                       "min_sto": min_sto, "impl_labels": impl_l, "impl_idxs": impl_o})],
            judge, nontrivial=env["nontriv"])


# ------------------------------------------------------------------------------------------
# minimum-area sub-basins
# ------------------------------------------------------------------------------------------
def _area(ctx, rng, env):
    flw, ds, n, seq, shape = env["flw"], env["ds"], env["n"], env["seq"], env["shape"]
    kind, area, up = gen_area_field(rng, ds)
    hint = env.get("hint")
    if hint is not None and rng.random() < 0.85:     # star family: unit cells, threshold = prescribed A
        kind, area = "count", [SCALE] * n
        up = [v if ds[i] != n else -9999 * SCALE for i, v in enumerate(accumulate(ds, area))]
    vals = sorted({up[i] for i in range(n) if ds[i] != n})
    top = max(vals)
    u = rng.random()
    if hint is not None and kind == "count" and u < 0.9:
        amin = hint * SCALE - rng.choice([0, 0, 0, 1, 2])
        ctx.count("area:star-threshold")
    elif u < 0.35:
        amin = rng.choice(vals)                      # equal to an upstream area: `>` is strict
    elif u < 0.45:
        amin = 0
    else:
        amin = rng.randint(0, max(1, top // 2))
    as_int = kind != "weighted" and all(v % SCALE == 0 for v in up) and amin % SCALE == 0 and rng.random() < 0.3
    if as_int:
        up_arg = np.array([v // SCALE for v in up], dtype=np.int64).reshape(shape)
        amin_arg = amin // SCALE
    else:
        up_arg = to_float(up).reshape(shape)
        amin_arg = amin / SCALE
    usmain = canon_idx(flw.idxs_us_main, n)
    lab, idxs = flw.subbasins_area(amin_arg, uparea=up_arg)
    impl_l, impl_o = ints(lab), canon_idx(idxs, n)
    ctx.count("area:field=" + kind)
    ctx.count("area:ties" if has_tie(ds, up) else "area:untied")
    ctx.count("area:outlets", len(impl_o))
    ctx.count("area:nonpit-outlets", sum(1 for o in impl_o if ds[o] != o))
    desc = {"op": "subbasins_area", **env["base"], "uparea_x4": up, "area_min_x4": amin, "field": kind,
            "cell_area_x4": area, "int_input": as_int}
    nontriv = env["nontriv"]

    def judge(ans):
        a = ans[0]
        if "__err__" in a:
            return _err(a)
        fs = []
        if a["topo"] != [1]:
            fs.append({"kind": "spec", "what": "cell order handed to the kernel is not downstream-first (C03 hypothesis)"})
        if a["usok"] != [1]:
            fs.append({"kind": "spec", "what": "idxs_us_main is not a map to inflowing cells"})
        if a["rank_sorted"] != [1]:
            fs.append({"kind": "spec", "what": "cell order handed to subbasins_area is not sorted by the distance to the pit "
                       "(hypothesis of theorem area_size; both order_cells methods should supply it)"})
        if a["acc_ok"] != [1]:
            fs.append({"kind": "model", "what": "harness: the generated upstream-area field is not the accumulation of its "
                       "non-negative cell areas (hypothesis of theorem area_size)"})
        out = {"impl_labels": impl_l, "impl_idxs": impl_o}
        if a["impl.sub_ok"] != [1]:
            fs.append({"kind": "spec", "what": "area sub-basin map is not the first-outlet partition of its outlets", **out})
        if a["impl.ids_ok"] != [1]:
            fs.append({"kind": "spec", "what": "k-th returned outlet does not carry label k+1", **out})
        if a["impl.outlets_ok"] != [1]:
            fs.append({"kind": "spec", "what": "an outlet is neither a pit nor has uparea > area_min, or a pit is missing", **out})
        if a["impl.size_ok"] != [1]:
            fs.append({"kind": "spec", "what": "a sub-basin not ending at a pit has total cell area <= area_min", **out})
        if impl_l != a["model.labels"] or impl_o != a["model.idxs"]:
            fs.append({"kind": "model", "what": "subbasins_area: implementation != Lean model",
                       "impl": [impl_l, impl_o], "model": [a["model.labels"], a["model.idxs"]]})
        if a["self.ok"] != [1]:
            fs.append({"kind": "model", "what": "certificate rejects the model's own output"})
        return fs

    ctx.add(desc, [("c18_area", {"ds": ds, "seq": seq, "usmain": usmain, "uparea": up, "area_min": amin,
                                "area": area, "impl_labels": impl_l, "impl_idxs": impl_o})],
            judge, nontrivial=nontriv)


# ------------------------------------------------------------------------------------------
# Pfafstetter
# ------------------------------------------------------------------------------------------
def _pfaf(ctx, rng, env):
    flw, ds, n, seq, shape = env["flw"], env["ds"], env["n"], env["seq"], env["shape"]
    long = env.get("longcomb")
    if long is None:
        kind, area, up = gen_area_field(rng, ds)
        default = kind == "count" and rng.random() < 0.4
    else:
        # long combs: fields that keep the ties between the tributaries (cell counts, one area for every cell);
        # sometimes random cell areas (few ties: the model comparison on a stem with > 100 tributaries)
        u = rng.random()
        if u < 0.65:
            kind, area = "count", [SCALE] * n
        elif u < 0.85:
            kind, area = "weighted", [rng.randint(1, 7)] * n
        else:
            kind, area = "weighted", [rng.randint(1, 40) for _ in range(n)]
        up = [v if ds[i] != n else -9999 * SCALE for i, v in enumerate(accumulate(ds, area))]
        default = kind == "count" and rng.random() < 0.5
    if default:
        up_arg = None
        up = [v * SCALE for v in ints(flw.upstream_area())]
    else:
        up_arg = to_float(up).reshape(shape)
    vals = sorted({up[i] for i in range(n) if ds[i] != n})
    u = rng.random()
    if long is not None and u >= 0.4 and rng.random() < 0.8:
        upa_min = vals[0]       # the smallest area: nothing masked (a larger one masks the single-cell tributaries)
        kw = {"upa_min": upa_min / SCALE}
    elif u < 0.25:
        upa_min, kw = 0, {}
    elif u < 0.4:
        upa_min, kw = None, {"upa_min": None}
    else:
        upa_min = rng.choice(vals)
        kw = {"upa_min": upa_min / SCALE}
    usmain = canon_idx(flw.idxs_us_main, n)
    pits = canon_idx(flw.idxs_pit, n)
    genuine = kind != "arbitrary"
    res = []
    for depth in (1, 2, 3):
        lab, idxs = flw.subbasins_pfafstetter(depth=depth, uparea=up_arg, **kw)
        res.append((ints(lab), canon_idx(idxs, n), lab.dtype.kind == "i" and lab.shape == tuple(shape)))
    ctx.count("pfaf:field=" + ("default" if default else kind))
    ctx.count("pfaf:upa_min=" + ("none" if upa_min is None else "zero" if upa_min == 0 else "value"))
    ctx.count("pfaf:outlets(depth3)", len(res[2][1]))
    ctx.count("pfaf:distinct-codes(depth3)", len(set(res[2][0]) - {0}))
    ctx.count("pfaf:maxdigit=%d" % max([int(c) for l in res[0][0] for c in str(l)] or [0]))
    if long is not None:
        # coverage of the family, from the arrays the implementation used: direct tributaries of the main stem of
        # the (single) pit and whether the 4th and 5th largest of them tie
        stem, on = [pits[0]], {pits[0]}
        while usmain[stem[-1]] != n and usmain[stem[-1]] not in on:
            stem.append(usmain[stem[-1]])
            on.add(stem[-1])
        tr = sorted((up[i] for i in range(n) if ds[i] != n and i not in on and ds[i] in on), reverse=True)
        big = upa_min is None or all(v >= upa_min for v in tr)
        ctx.count("longcomb:stem-tributaries>100=%d" % (len(tr) > 100 and big))
        ctx.count("longcomb:tie-4th/5th-largest=%d" % (len(tr) > 4 and tr[3] == tr[4]))
        ctx.count("longcomb:tributary-area-levels=%d" % min(4, len(set(tr))))
    desc = {"op": "subbasins_pfafstetter", **env["base"], "uparea_x4": None if default else up,
            "upa_min_x4": upa_min, "field": kind, "depths": [1, 2, 3]}
    if long is not None:
        desc["longcomb"] = long
    reqs = []
    for d, (il, io, _) in zip((1, 2, 3), res):
        reqs.append(("c18_pfaf", {"ds": ds, "seq": seq, "pits": pits, "usmain": usmain, "uparea": up,
                                  "upa_min": upa_min, "depth": d, "impl_labels": il, "impl_idxs": io,
                                  "impl_shallow": res[d - 2][0] if d > 1 else None}))

    def judge(ans):
        fs = []
        for d, a, (il, io, dtype_ok) in zip((1, 2, 3), ans, res):
            if "__err__" in a:
                fs += _err(a)
                continue
            out = {"depth": d, "impl_labels": il, "impl_idxs": io}
            if a["topo"] != [1]:
                fs.append({"kind": "spec", "what": "cell order handed to the kernel is not downstream-first (C03 hypothesis)"})
            if a["usok"] != [1]:
                fs.append({"kind": "spec", "what": "idxs_us_main is not a map to inflowing cells"})
            if (genuine and a["impl.sub_ok"] != [1]) or len(set(io)) != len(io):
                fs.append({"kind": "spec", "what": "Pfafstetter map is not the first-outlet partition of its outlets", **out})
            if a["impl.digits_ok"] != [1]:
                fs.append({"kind": "spec", "what": "a Pfafstetter code has a digit outside 1..9 or the wrong length", **out})
            if genuine and a["impl.link_ok"] != [1]:
                fs.append({"kind": "spec", "what": "Pfafstetter digits do not increase upstream / downstream digit not odd", **out})
            if genuine and a["impl.refine_ok"] != [1]:
                fs.append({"kind": "spec", "what": "code at depth d // 10 != code at depth d-1", **out, "shallow": res[d - 2][0]})
            ctx.count("pfaf:eq-compared" if a["tie"] == [0] else "pfaf:tie(certificates only)")
            ctx.count("pfaf:partition-side-condition=%d%s" % (a["model.ib_ok"][0], "" if genuine else "(arbitrary field)"))
            ctx.count("pfaf:preconditions(pfaf_ok)=%d%s" % (a["pre_ok"][0], "" if genuine else "(arbitrary field)"))
            if genuine and a["pre_ok"] != [1]:
                fs.append({"kind": "spec", "what": "preconditions of theorem pfaf_ok not met by the arrays the implementation was "
                           "run with (order downstream-first and complete, idxs_us_main total on cells with an inflow, uparea "
                           "strictly larger downstream, distinct pits)", "depth": d})
            if a["pre_ok"] == [1] and a["model.ib_ok"] != [1]:
                fs.append({"kind": "model", "what": "theorem pfaf_ok contradicted: preconditions hold but the flag is cleared", "depth": d})
            if genuine and a["model.ib_ok"] != [1]:
                fs.append({"kind": "model", "what": "side condition of theorem pfaf_partition (inter-basin outlets met in "
                           "down- to upstream order) not met by the model run on a genuine upstream-area field", "depth": d})
            if a["tie"] == [0]:
                if il != a["model.labels"] or io != a["model.idxs"]:
                    fs.append({"kind": "model", "what": "subbasins_pfafstetter: implementation != Lean model",
                               "depth": d, "impl": [il, io], "model": [a["model.labels"], a["model.idxs"]]})
            if (genuine or a["pre_ok"] == [1]) and a["self.ok"] != [1]:
                fs.append({"kind": "model", "what": "certificate rejects the model's own output (with pre_ok = 1 this would "
                           "contradict theorems pfaf_partition_total / pfaf_digits / pfaf_linkOK)", "depth": d})
            if (genuine or a["pre_ok"] == [1]) and a["self.refine_ok"] != [1]:
                fs.append({"kind": "model", "what": "model map at depth d // 10 != model map at depth d-1 (with pre_ok = 1 this "
                           "would contradict theorem pfaf_refine)", "depth": d})
            if not dtype_ok:
                fs.append({"kind": "spec", "what": "label map dtype/shape"})
        return fs

    ctx.add(desc, reqs, judge, nontrivial=env["nontriv"])


# ------------------------------------------------------------------------------------------
# the two helper kernels, directly
# ------------------------------------------------------------------------------------------
def _kernels(ctx, rng, env):
    from pyflwdir import basins, streams
    flw, ds, n, seq = env["flw"], env["ds"], env["n"], env["seq"]
    usmain = canon_idx(flw.idxs_us_main, n)
    mask = [rng.random() < 0.7 for _ in range(n)] if rng.random() < 0.6 else None
    so = streams.stream_order(flw.idxs_ds, flw.idxs_seq, flw.idxs_us_main,
                              mask=None if mask is None else np.array(mask), mv=flw._mv)
    impl_so = ints(so)
    strord = [rng.randint(0, 3) for _ in range(n)] if rng.random() < 0.5 else impl_so
    trib = canon_idx(basins._tributaries(flw.idxs_ds, flw.idxs_seq, np.array(strord, dtype=np.uint8)), n)
    desc = {"op": "stream_order(classic)+_tributaries", **env["base"], "mask": mask, "strord": strord}

    def judge(ans):
        fs = []
        for a in ans:
            if "__err__" in a:
                return _err(a)
        if impl_so != ans[0]["model"]:
            fs.append({"kind": "model", "what": "stream_order(classic): implementation != Lean model",
                       "impl": impl_so, "model": ans[0]["model"]})
        if trib != ans[1]["model"]:
            fs.append({"kind": "model", "what": "_tributaries: implementation != Lean model",
                       "impl": trib, "model": ans[1]["model"]})
        want = [i for i in seq if strord[i] > 0 and strord[i] > strord[ds[i]]]
        if trib != want:
            fs.append({"kind": "spec", "what": "_tributaries differs from {order > 0 and order > order downstream}",
                       "impl": trib, "spec": want})
        return fs

    ctx.add(desc, [("c18_stream_order_classic", {"ds": ds, "seq": seq, "usmain": usmain, "mask": mask}),
                   ("c18_tributaries", {"ds": ds, "seq": seq, "strord": strord})], judge,
            nontrivial=env["nontriv"])


if __name__ == "__main__":
    from common import Ctx
    _ctx = Ctx("C18", sys.argv[2], int(sys.argv[1]) + 7919)
    _ctx.escalate = 1
    _ctx.jit_worker = True
    run(_ctx)
    _ctx.flush()
    print(json.dumps({"failures": _ctx.failures, "evaluations": _ctx.evaluations, "hist": _ctx.hist,
                      "impl_validated": _ctx.impl_validated, "panics": _ctx.panics,
                      "nontrivial": sorted(_ctx.nontrivial)}))
