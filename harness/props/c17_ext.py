"""C17 extension - the remaining geo-reference helpers of pyflwdir/gis_utils.py:
reggrid_dx / reggrid_dy / reggrid_area (cell sizes from coordinate vectors), transform_from_bounds <-> array_bounds
round trips (+ FlwdirRaster.bounds / extent / xy against affine_to_coords), the sum over area_grid against the area
of the bounding box (all units, projected and geographic) and get_edge with arbitrary 3x3 structuring elements.

Every function is executed on the real implementation; the Lean driver returns `model.*` (loop-for-loop model,
lean/PfVerif/Model/C17_ext.lean + Model/C17.lean) and `spec.*` (declarative definitions that
lean/PfVerif/Props/C17_ext.lean relates to the model). `spec` failure = the implementation's output violates the
stated behaviour on this input; `model` failure = implementation != Lean model.

Number discipline as in c17.py: coordinates / resolutions are dyadic rationals so that the implementation's float
arithmetic is exact (np.diff, np.mean, the affine products); degree_metres_x/y and sin(radians(.)) travel as tables
of the implementation's own values; a single float product of two exact inputs is compared with the correctly
rounded rational product (exact), chains through radians()/sin() within 1e-12 relative."""
import math
import warnings
from fractions import Fraction as Fr

import numpy as np
from affine import Affine

from common import gen_shape
from props.c17 import (fr, exact, rargs, rout, targs, tdesc, close, derr, gen_transform, gen_geo, gen_global, flw_of,
                       ref_degree_metres, REL)

OPS = ["reggrid_dx", "reggrid_dy", "reggrid_area", "reggrid_area vs area_grid",
       "array_bounds(transform_from_bounds)", "transform_from_bounds(array_bounds)/FlwdirRaster.bounds/extent",
       "affine_to_coords vs FlwdirRaster.xy", "area_grid sum vs bounding box", "get_edge(structure)"]
RULE = ("coordinate vectors: regular dyadic-degree grids from affine_to_coords of geographic transforms (north-up and "
        "south-up, both hemispheres, touching the poles, global) and hand-made vectors: lengths 0 (lons), 1, 2 and more, "
        "ascending / descending, irregular spacing with an exactly representable mean step, non-square cells; "
        "round trips: axis-aligned transforms with resolutions of either sign (+-2^k, Pythagorean sizes, equal sizes), "
        "bounds with east<west / north<south, widths/heights 1..12 incl. non-dyadic quotients; area sums: projected and "
        "geographic grids incl. global, 1xN / Nx1, units m2/ha/km2/cell/unknown; get_edge: rasters 1x1 .. 8x8 incl. "
        "1xN / Nx1 / 2x2, masks of density 0.5..1, structures ones / cross / diagonal / random / empty / centre only, "
        "default argument. non-trivial = >= 2x2 cells and unequal resolutions (get_edge: an interior valid cell and an "
        "invalid cell); distinct = SHA-1 of (op, inputs)")


def quiet(f, *a, **k):
    """run the implementation with NumPy's warnings (mean of empty slice ...) silenced; (exception class | None, value)"""
    from common import exc_class
    try:
        with warnings.catch_warnings():
            warnings.simplefilter("ignore")
            with np.errstate(all="ignore"):
                return None, f(*a, **k)
    except Exception as e:  # noqa: BLE001
        return exc_class(e), None


def is_float(q):
    try:
        return Fr(float(q)) == q
    except OverflowError:
        return False


def mean_step(v):
    """exact mean of the differences (None for fewer than two entries)"""
    if len(v) < 2:
        return None
    return (v[-1] - v[0]) / (len(v) - 1)


# ---------------------------------------------------------------------------------------------------
# coordinate vectors
# ---------------------------------------------------------------------------------------------------
def gen_vectors(rng):
    """returns (lats, lons, how, T|None, shape|None): lists of Fractions (exact floats)"""
    from pyflwdir import gis_utils as gis
    u = rng.random()
    if u < 0.55:
        shape = gen_shape(rng, max_cells=56)
        if rng.random() < 0.25:
            T, shape = gen_global(rng)
            if not all(is_float(Fr(T[i])) for i in (0, 4)):
                T, _, _ = gen_geo(rng, shape)
        else:
            T, _, _ = gen_geo(rng, shape)
        xs, ys = gis.affine_to_coords(T, shape)
        return [fr(v) for v in ys], [fr(v) for v in xs], "affine_to_coords", T, shape
    # hand-made vectors
    def axis(lo, hi, kind):
        n = rng.choice([1, 1, 2, 2, 2, 3, 4, 5, 6, 9])
        if kind == "lons" and rng.random() < 0.06:
            return []
        step = Fr(rng.choice([Fr(1, 8), Fr(1, 4), Fr(1, 2), 1, 2, 3, 4, 5]))
        while step * n > hi - lo:
            step /= 2
        irregular = n >= 3 and rng.random() < 0.35
        if irregular:
            # random positive dyadic steps whose mean is an exact float
            for _ in range(50):
                steps = [step * rng.choice([Fr(1, 2), 1, 1, Fr(3, 2), 2]) for _ in range(n - 1)]
                if is_float(sum(steps) / (n - 1)) and sum(steps) + step <= hi - lo:
                    break
            else:
                steps = [step] * (n - 1)
        else:
            steps = [step] * (n - 1)
        span = sum(steps)
        where = rng.random()
        # first/last cell centres; "pole": the outer cell edge touches lo or hi (regular spacing)
        if where < 0.3:
            start = lo + step / 2
        elif where < 0.6:
            start = hi - step / 2 - span
        else:
            k = int((hi - lo - span - step) * 8)
            start = lo + step / 2 + Fr(rng.randint(0, max(k, 0)), 8)
        v = [start]
        for s in steps:
            v.append(v[-1] + s)
        if rng.random() < 0.5:
            v.reverse()
        return v
    lats = axis(Fr(-90), Fr(90), "lats")
    lons = axis(Fr(-180), Fr(360), "lons")
    return lats, lons, "hand-made", None, None


def case_reggrid(ctx, rng):
    from pyflwdir import gis_utils as gis
    lats, lons, how, T, shape = gen_vectors(rng)
    kind = rng.choice([0, 1, 2, 2])
    name = ["reggrid_dx", "reggrid_dy", "reggrid_area"][kind]
    la = np.array([exact(v) for v in lats], dtype=np.float64)
    lo = np.array([exact(v) for v in lons], dtype=np.float64)
    la0, lo0 = la.copy(), lo.copy()
    err, val = quiet(getattr(gis, name), la, lo)
    xres, yres = mean_step(lons), mean_step(lats)
    regular = all(b - a == xres for a, b in zip(lons, lons[1:])) and all(b - a == yres for a, b in zip(lats, lats[1:]))
    ctx.count(f"{name}:{how}")
    ctx.count(f"{name}:lats={min(len(lats), 3)}{'+' if len(lats) >= 3 else ''},lons={min(len(lons), 3)}{'+' if len(lons) >= 3 else ''}")
    if not regular:
        ctx.count(f"{name}:irregular-spacing")
    if lats and (max(lats) + abs(yres or 0) / 2 == 90 or min(lats) - abs(yres or 0) / 2 == -90):
        ctx.count(f"{name}:touches-pole")
    if len(lats) >= 2:
        ctx.count(f"{name}:" + ("descending" if lats[0] > lats[-1] else "ascending") + "-lats")
    desc = {"op": name, "lats": [float(v) for v in lats], "lons": [float(v) for v in lons], "from": how}
    if T is not None:
        desc["transform"], desc["shape"] = tdesc(T), list(shape)
    req = {**rargs("lats", lats), **rargs("lons", lons), "kind": kind}
    pre = []
    if kind in (0, 1):
        f = gis.degree_metres_x if kind == 0 else gis.degree_metres_y
        vals_ = [float(v) for v in np.atleast_1d(f(la))] if len(lats) else []
        for v, m in zip(lats, vals_):
            ry, rx = ref_degree_metres(float(v))
            ref = rx if kind == 0 else ry
            if abs(m - ref) > 1e-9 * 111e3:
                pre.append({"kind": "spec", "what": f"degree_metres at latitude {float(v)}: got {m!r}, reference series {ref!r}"})
                break
        req.update({**rargs("key", lats), **rargs("val", [fr(v) for v in vals_])})
    else:
        keys = []
        if xres is not None and yres is not None:
            h = abs(yres) / 2
            for v in lats:
                keys += [v - h, v + h]
            keys = sorted(set(keys))
        vals_ = [float(np.sin(np.radians(np.float64(exact(k))))) for k in keys]
        req.update({**rargs("key", keys), **rargs("val", [fr(v) for v in vals_]),
                    **rargs("pi180", [fr(np.radians(np.float64(1.0)))])})
    # reggrid_area on the axes of a raster = area_grid(latlon=True) of that raster (>= 2 rows and columns)
    same_as_area_grid = None
    if kind == 2 and T is not None and shape[0] >= 2 and shape[1] >= 2 and err is None:
        e2, ag = quiet(gis.area_grid, T, shape, True, "m2")
        if e2 is None:
            ag = np.asarray(ag, dtype=np.float64)
            same_as_area_grid = bool(ag.shape == np.shape(val) and np.all(np.abs(ag - val) <= 1e-12 * np.abs(ag)))
            ctx.count("reggrid_area:compared-with-area_grid")
    exact_cmp = kind in (0, 1)

    def judge(ans):
        a = ans[0]
        if derr(a):
            return derr(a)
        fs = list(pre)
        if err is not None:
            return fs + [{"kind": "spec", "what": f"{name} raised {err} on coordinate vectors of lengths {len(lats)}, {len(lons)}"}]
        arr = np.asarray(val)
        if arr.shape != (len(lats), len(lons)):
            return fs + [{"kind": "spec", "what": f"{name}: result shape {arr.shape}, expected {(len(lats), len(lons))}"}]
        if not (np.array_equal(la, la0) and np.array_equal(lo, lo0)):
            fs.append({"kind": "spec", "what": f"{name} modified its coordinate arguments"})
        flat = [float(v) for v in arr.ravel()]
        for nm, kd in (("spec", "spec"), ("model", "model")):
            if a[nm + ".nan"] == [1]:
                # fewer than two coordinates: the resolution is undefined. The code as it is answers NaN in every cell
                # (modelled: `model` clause); the property text asks nothing of this case (no `spec` clause)
                if kd == "spec":
                    continue
                ok = all(math.isnan(v) for v in flat)
                want = "NaN in every cell (coordinate vector with fewer than two entries)"
            else:
                g = rout(a, nm + ".grid")
                if len(g) != len(flat):
                    ok = False
                elif exact_cmp:
                    ok = all(v == float(q) for v, q in zip(flat, g))
                else:
                    ok = all((not math.isnan(v)) and close(fr(v), q, REL) for v, q in zip(flat, g))
                want = ("metric cell size at the row's latitude x resolution of the coordinate vector" if kd == "spec"
                        else "Lean model") + f": {[float(q) for q in g[:6]]}"
            if not ok:
                fs.append({"kind": kd, "what": f"{name}: cells {flat[:6]} differ from {want}"})
        if same_as_area_grid is False:
            fs.append({"kind": "spec", "what": "reggrid_area(affine_to_coords(T)) != area_grid(T, latlon=True)"})
        return fs

    ctx.add(desc, [("c17x_reggrid", req)], judge,
            nontrivial=len(lats) >= 2 and len(lons) >= 2 and xres != yres)


# ---------------------------------------------------------------------------------------------------
# transform_from_bounds <-> array_bounds, FlwdirRaster.bounds / extent, affine_to_coords vs xy
# ---------------------------------------------------------------------------------------------------
def case_roundtrip_t(ctx, rng):
    from pyflwdir import gis_utils as gis
    while True:
        shape = gen_shape(rng, max_cells=56)
        T, cls, latlon = gen_transform(rng, shape)
        if cls in ("exact", "pyth", "equal", "geo"):
            break
    nrow, ncol = shape
    b = [float(v) for v in gis.array_bounds(nrow, ncol, T)]
    Tb = gis.transform_from_bounds(*b, ncol, nrow)
    back = [float(v) for v in Tb[:6]]
    flw = flw_of(shape, T, latlon)
    fb, fe = [float(v) for v in flw.bounds], [float(v) for v in flw.extent]
    xa, ya = gis.affine_to_coords(T, shape)
    xs, ys = flw.xy(np.arange(nrow * ncol))
    xs, ys = np.asarray(xs).reshape(shape), np.asarray(ys).reshape(shape)
    axes_ok = bool(np.all(xs == np.asarray(xa)[None, :]) and np.all(ys == np.asarray(ya)[:, None]))
    ctx.count("roundtrip:transform->bounds->transform:" + cls)
    ctx.count("roundtrip:signs:" + ("+" if T[0] > 0 else "-") + ("+" if T[4] > 0 else "-"))
    desc = {"op": "transform_from_bounds(array_bounds(T))", "transform": tdesc(T), "shape": list(shape)}

    def judge(ans):
        a = ans[0]
        if derr(a):
            return derr(a)
        fs = []
        if [fr(v) for v in b] != rout(a, "model.bounds"):
            fs.append({"kind": "model", "what": "array_bounds: implementation != Lean model", "impl": b})
        if fb != b or [fr(v) for v in fe] != rout(a, "model.extent"):
            fs.append({"kind": "spec", "what": "FlwdirRaster.bounds / extent are not array_bounds(shape, transform) / its "
                       "[xmin, xmax, ymin, ymax] reordering", "bounds": fb, "extent": fe})
        if [fr(v) for v in back] != rout(a, "model.back"):
            fs.append({"kind": "model", "what": "transform_from_bounds(array_bounds(T)): implementation != Lean model",
                       "impl": back})
        if [fr(v) for v in back] != rout(a, "spec.back"):
            fs.append({"kind": "spec", "what": "transform_from_bounds(*array_bounds(h, w, T), w, h) != T", "impl": back})
        if not axes_ok:
            fs.append({"kind": "spec", "what": "affine_to_coords axes are not the x / y coordinates FlwdirRaster.xy returns "
                       "for the cells of each column / row"})
        return fs

    ctx.add(desc, [("c17x_roundtrip", {"kind": 0, **targs(T), "width": ncol, "height": nrow})], judge,
            nontrivial=nrow * ncol >= 2 and abs(T[0]) != abs(T[4]))


def case_roundtrip_b(ctx, rng):
    from pyflwdir import gis_utils as gis
    width, height = rng.randint(1, 12), rng.randint(1, 12)
    west, south = Fr(rng.randint(-800, 800), 8), Fr(rng.randint(-800, 800), 8)
    dx, dy = Fr(rng.randint(1, 400), 8), Fr(rng.randint(1, 400), 8)
    if rng.random() < 0.5:   # whole dyadic cells: every step exact
        dx, dy = width * Fr(rng.choice([Fr(1, 4), Fr(1, 2), 1, 2, 3])), height * Fr(rng.choice([Fr(1, 4), Fr(1, 2), 1, 3, 5]))
    east, north = west + dx, south + dy
    flip = rng.random()
    if flip < 0.15:
        west, east = east, west
    elif flip < 0.3:
        south, north = north, south
    args = [west, south, east, north]
    T = gis.transform_from_bounds(*[exact(v) for v in args], width, height)
    impl = [float(v) for v in T[:6]]
    back = [float(v) for v in gis.array_bounds(height, width, T)]
    qa, qe = (east - west) / width, (south - north) / height
    all_exact = is_float(qa) and is_float(qe)
    ctx.count("roundtrip:bounds->transform->bounds:" + ("exact" if all_exact else "rounded-quotient"))
    desc = {"op": "array_bounds(transform_from_bounds(bounds))", "bounds": [float(v) for v in args], "width": width,
            "height": height}

    def judge(ans):
        a = ans[0]
        if derr(a):
            return derr(a)
        fs = []
        # one correctly rounded division per coefficient: exact comparison with the rounded rational
        if impl != [float(q) for q in rout(a, "model.t")]:
            fs.append({"kind": "model", "what": "transform_from_bounds: implementation != Lean model", "impl": impl,
                       "model": [float(q) for q in rout(a, "model.t")]})
        for nm, kd in (("spec.back", "spec"), ("model.back", "model")):
            want = rout(a, nm)
            scale = max(abs(float(v)) for v in args) + abs(float(dx)) + abs(float(dy))
            if all_exact:
                ok = [fr(v) for v in back] == want
            else:
                ok = all(abs(v - float(q)) <= 8 * 2.0 ** -52 * scale for v, q in zip(back, want))
            if not ok:
                fs.append({"kind": kd, "what": "array_bounds(h, w, transform_from_bounds(W, S, E, N, w, h)) != (W, S, E, N)"
                           if kd == "spec" else "array_bounds(transform_from_bounds(..)): implementation != Lean model",
                           "impl": back, "want": [float(q) for q in want]})
        return fs

    ctx.add(desc, [("c17x_roundtrip", {"kind": 1, **rargs("args", args), "width": width, "height": height})], judge,
            nontrivial=abs(qa) != abs(qe))


# ---------------------------------------------------------------------------------------------------
# area_grid: the 2-D grid and its sum against the bounding box
# ---------------------------------------------------------------------------------------------------
def case_area_sum(ctx, rng):
    from pyflwdir import gis_utils as gis
    glob = rng.random() < 0.2
    if glob:
        T, shape = gen_global(rng)
        cls, latlon = "geo", True
    else:
        while True:
            shape = gen_shape(rng, max_cells=56)
            T, cls, latlon = gen_transform(rng, shape)
            if cls in ("exact", "pyth", "equal", "geo"):
                break
        if latlon and rng.random() < 0.3:
            latlon = False
    nrow, ncol = shape
    unit = rng.choice(["m2", "m2", "ha", "km2", "cell", "Ha", "mile2"])
    ucode = {"m2": 0, "ha": 1, "km2": 2, "cell": 3}.get(unit.lower(), 9)
    err, val = quiet(gis.area_grid, T, shape, latlon, unit)
    ctx.count("area-sum:" + ("geo" if latlon else "proj") + ":" + unit.lower() + (":global" if glob else ""))
    if nrow == 1 or ncol == 1:
        ctx.count("area-sum:1xN/Nx1")
    desc = {"op": "area_grid(...).sum()", "transform": tdesc(T), "shape": list(shape), "latlon": latlon, "unit": unit}
    req = {**targs(T), "nrow": nrow, "ncol": ncol, "latlon": int(latlon), "unit": ucode}
    if latlon:
        e, f = fr(T[4]), fr(T[5])
        keys = [f + j * e for j in range(nrow + 1)]
        if not all(is_float(k) for k in keys):
            ctx.count("area-sum:skipped-non-dyadic-edges")
            return
        vals_ = [float(np.sin(np.radians(np.float64(float(k))))) for k in keys]
        req.update({**rargs("sinkey", keys), **rargs("sinval", [fr(v) for v in vals_]),
                    **rargs("pi180", [fr(np.radians(np.float64(1.0)))])})

    def judge(ans):
        a = ans[0]
        if derr(a):
            return derr(a)
        st = a["status"][0]
        if ucode == 9:
            fs = []
            if err != "ValueError":
                fs.append({"kind": "spec", "what": f"unknown unit must raise ValueError, got {err or 'returns'}"})
            if st != 2:
                fs.append({"kind": "model", "what": "model accepts an unknown unit"})
            return fs
        if err is not None or st != 0:
            return [{"kind": "spec" if err else "model", "what": f"area_grid: implementation {err or 'returns'}, model status {st}"}]
        arr = np.asarray(val)
        if arr.shape != tuple(shape):
            return [{"kind": "spec", "what": f"area grid has shape {arr.shape}, raster {tuple(shape)}"}]
        fs = []
        flat = [Fr(float(v)) for v in arr.ravel()]
        if any(math.isnan(float(v)) or math.isinf(float(v)) for v in arr.ravel()):
            return [{"kind": "spec", "what": "area grid contains NaN/inf"}]
        total = sum(flat)
        grid = rout(a, "model.grid")
        if ucode == 3 or not latlon:
            want = [Fr(float(np.float32(float(q)))) for q in grid] if ucode != 3 else grid
            if flat != want:
                fs.append({"kind": "model", "what": "area_grid cells: implementation != Lean model (float32 of the quotient)",
                           "impl": [float(v) for v in flat[:6]], "model": [float(q) for q in grid[:6]]})
            rel = Fr(0) if want == grid else Fr(2, 10 ** 7)
        else:
            if not all(close(v, q, REL) for v, q in zip(flat, grid)) or len(flat) != len(grid):
                fs.append({"kind": "model", "what": "area_grid cells: implementation != Lean model",
                           "impl": [float(v) for v in flat[:6]], "model": [float(q) for q in grid[:6]]})
            rel = Fr(1, 10 ** 11)
        for nm, kd in (("spec.sum", "spec"), ("model.sum", "model")):
            q = rout(a, nm)[0]
            if abs(total - q) > rel * abs(q):
                fs.append({"kind": kd, "what": "sum over the area grid " + repr(float(total)) + " is not "
                           + ("the area of the bounding box " if kd == "spec" else "the Lean model's sum ") + repr(float(q))})
        return fs

    ctx.add(desc, [("c17x_area_sum", req)], judge, nontrivial=nrow * ncol >= 2 and abs(T[0]) != abs(T[4]))


# ---------------------------------------------------------------------------------------------------
# get_edge
# ---------------------------------------------------------------------------------------------------
STRUCTS = {
    "ones": [1] * 9,
    "cross": [0, 1, 0, 1, 1, 1, 0, 1, 0],
    "diagonal": [1, 0, 1, 0, 1, 0, 1, 0, 1],
    "empty": [0] * 9,
    "centre": [0, 0, 0, 0, 1, 0, 0, 0, 0],
    "no-centre": [1, 1, 1, 1, 0, 1, 1, 1, 1],
}


def case_edge(ctx, rng):
    from pyflwdir import gis_utils as gis
    u = rng.random()
    if u < 0.1:
        nrow, ncol = 1, rng.randint(1, 8)
    elif u < 0.2:
        nrow, ncol = rng.randint(1, 8), 1
    elif u < 0.3:
        nrow, ncol = rng.choice([(2, 2), (2, 5), (5, 2), (3, 3)])
    else:
        nrow, ncol = rng.randint(3, 8), rng.randint(3, 8)
    p = rng.choice([0.5, 0.8, 0.9, 0.97, 1.0])
    m = [rng.random() < p for _ in range(nrow * ncol)]
    sname = rng.choice(["ones", "ones", "cross", "cross", "diagonal", "empty", "centre", "no-centre", "random", "default"])
    st = [rng.random() < 0.5 for _ in range(9)] if sname == "random" else [bool(v) for v in STRUCTS.get(sname, STRUCTS["ones"])]
    a = np.array(m, dtype=bool).reshape(nrow, ncol)
    a0 = a.copy()
    if sname == "default":
        err, val = quiet(gis.get_edge, a)
    else:
        err, val = quiet(gis.get_edge, a, np.array(st, dtype=bool).reshape(3, 3))
    ctx.count("get_edge:structure=" + sname)
    ctx.count("get_edge:" + ("interior" if nrow >= 3 and ncol >= 3 else "border-only") + "-raster")
    interior_valid = any(m[r * ncol + c] for r in range(1, nrow - 1) for c in range(1, ncol - 1))
    desc = {"op": "get_edge", "shape": [nrow, ncol], "a": [int(v) for v in m], "structure": sname, "st": [int(v) for v in st]}

    def judge(ans):
        a_ = ans[0]
        if derr(a_):
            return derr(a_)
        if err is not None:
            return [{"kind": "spec", "what": f"get_edge raised {err} on a valid boolean raster"}]
        out = np.asarray(val)
        if out.shape != (nrow, ncol) or out.dtype != np.bool_:
            return [{"kind": "spec", "what": f"get_edge result: shape {out.shape}, dtype {out.dtype}"}]
        fs = []
        if not np.array_equal(a, a0):
            fs.append({"kind": "spec", "what": "get_edge modified its input mask"})
        got = [int(v) for v in out.ravel()]
        if got != a_["spec.edge"]:
            fs.append({"kind": "spec", "what": "edge cells are not exactly the valid cells on the raster border or with an "
                       "invalid cell in the structuring element's window", "impl": got, "spec": a_["spec.edge"]})
        if got != a_["model.edge"]:
            fs.append({"kind": "model", "what": "get_edge: implementation != Lean model", "impl": got, "model": a_["model.edge"]})
        return fs

    ctx.add(desc, [("c17x_edge", {"nrow": nrow, "ncol": ncol, "a": [int(v) for v in m], "st": [int(v) for v in st]})], judge,
            nontrivial=interior_valid and not all(m))


def run(ctx):
    rng = ctx.rng
    n = (40 if ctx.tier == "quick" else 600) * ctx.escalate
    for k in range(n):
        case_reggrid(ctx, rng)
        case_reggrid(ctx, rng)
        case_roundtrip_t(ctx, rng)
        case_roundtrip_b(ctx, rng)
        case_area_sum(ctx, rng)
        case_edge(ctx, rng)
        case_edge(ctx, rng)
        if len(ctx.cases) > 400:
            ctx.flush()
