"""C11_fn - translator tie for `while`-loop trace kernels (`core._trace`), hooked under C11 (also serves C13).

(a) translator self-test (every run; a failure is a BROKEN check, never a VIOLATION): synthetic `while` functions that
    use every construct of fragment 3 (`harness/extract_while.py`) are translated, the emitted defs are EVALUATED BY
    LEAN (`lake env lean --run`; the driver never imports `Generated`) and compared with Python's own evaluation of
    the same source on random inputs, incl. fuel values that are too small (the Lean def must answer `none` exactly
    when the Python loop evaluates its condition more than `fuel` times); functions outside the fragment must be refused.
(b) in the same Lean run the def generated from the real `core._trace` is evaluated on ~100 random networks (vector
    networks with and without loops in cell units; D8 rasters on Pythagorean 3:4 cells with exact metric lengths,
    `gis_utils.distance` instantiated by the model's projected closed form `Pf.distProj`) and compared with the
    interpreted real kernel -> `model` failure on a difference (op `c11fn.gen`).
(c) differential through the driver (`c11fn.trace`): the real kernel vs the hand-written model selected by the code's own
    flags (`genStep`) and vs the declarative least-stopping-index specification (`specTrace`): implementation != spec
    -> `spec` failure (replayable failing input), == spec but != model -> `model` failure.
`core._trace` is a private helper: its absence is "site not comparable in this tree" (counted, skipped).
"""
import ast
import os
import subprocess
import sys
import types
import warnings

import numpy as np

HERE = os.path.dirname(os.path.abspath(__file__))
sys.path.insert(0, os.path.dirname(HERE))
import extract_while  # noqa: E402
from extract_while import (ARRI, ARRN, BOOL, INT, LEN, NAT, OPAQUE, OPTB, OPTL, OPTN)  # noqa: E402
from common import LEAN_DIR, REPO, gen_forest, gen_funcgraph  # noqa: E402

OPS = ["core._trace"]
RULE = ("C11_fn: translator self-test (4 synthetic while-kernels x 25 random inputs evaluated by Lean vs Python incl. "
        "insufficient fuel; 30+ functions outside the fragment refused); Lean evaluation of the def generated from "
        "core._trace vs the interpreted kernel on 100 random networks (cell units, exact metric lengths); differential "
        "of core._trace vs model (genStep) and vs the least-stopping-index specification through the driver")
SC = 4   # common denominator of the lengths (quarter cells)

# ----------------------------------------------------------------------------------------
# (a) synthetic sources
# ----------------------------------------------------------------------------------------
SYN_OK = '''
import numpy as np
import pf_syn_ext as ext

def w_walk(idx0, nxt, vals, mv, lim):
    """`while True`, break, continue, list, int state, augmented assignment, a parameter carried by the loop"""
    out = []
    k = 0
    tot = 0
    while True:
        out.append(idx0)
        j = nxt[idx0]
        if j == mv or j == idx0:
            break
        k += 1
        if k >= 12:
            break
        if vals[j] < 0:
            idx0 = j
            continue
        tot = tot + vals[j] * 2 - k
        if tot > lim:
            pass
            break
        idx0 = j
    return np.array(out, dtype=nxt.dtype), tot, k, idx0

def w_len(idx0, nxt, ncol=None, mask=None, max_length=None, real=False, tr=None, mv=-1):
    idxs = []
    dist = 0.0
    d = 2.0
    n = 0
    while (mask is None or not mask[idx0]) and n < 20:
        n = n + 1
        idx1 = nxt[idx0]
        if idx1 == mv:
            break
        elif idx1 == idx0:
            idxs.append(idx1)
            break
        if real and ncol is not None:
            d = ext.length(idx0, idx1, ncol, real, tr) + 1.0
        else:
            d = d + 0.0
        if max_length is not None:
            if dist + d >= max_length:
                break
        dist += d
        idx0 = idx1
        idxs.append(idx0)
    return idxs, dist - 1.0, n, d

def w_count(n, b):
    c = 0
    while n > 0:
        n = n // b
        c += 1
    return c

def w_single(at, b):
    while at % b == 0 and at > 0:
        at = at // b
    return at
'''
SYN_OK_SPECS = [
    ("w_walk", {"idx0": NAT, "nxt": ARRN, "vals": ARRI, "mv": NAT, "lim": INT}, {}),
    ("w_len", {"idx0": NAT, "nxt": ARRN, "ncol": OPTN, "mask": OPTB, "max_length": OPTL, "real": BOOL, "tr": OPAQUE,
               "mv": NAT}, {("ext", "length"): LEN}),
    ("w_count", {}, {}),
    ("w_single", {}, {}),
]
_BADK = {"idx0": NAT, "nxt": ARRN, "vals": ARRI, "mv": NAT, "mask": OPTB, "max_length": OPTL, "ncol": OPTN,
         "tr": OPAQUE, "real": BOOL, "dist": LEN, "ext": NAT}
_BADX = {("ext", "length"): LEN}
SYN_BAD = '''
import numpy as np
import pf_syn_ext as ext
_K = 3

def b_for(idx0, nxt, mv):
    for i in range(3):
        idx0 = nxt[idx0]
    return idx0

def b_nested(idx0, nxt, mv):
    while idx0 != mv:
        while nxt[idx0] != idx0:
            idx0 = nxt[idx0]
        break
    return idx0

def b_while_else(idx0, nxt, mv):
    while nxt[idx0] != idx0:
        idx0 = nxt[idx0]
    else:
        idx0 = mv
    return idx0

def b_return_in_loop(idx0, nxt, mv):
    while True:
        if nxt[idx0] == idx0:
            return idx0
        idx0 = nxt[idx0]
    return idx0

def b_two_loops(idx0, nxt, mv):
    while nxt[idx0] != idx0:
        idx0 = nxt[idx0]
    while nxt[idx0] != mv:
        idx0 = nxt[idx0]
    return idx0

def b_stmt_after(idx0, nxt, mv):
    while nxt[idx0] != idx0:
        idx0 = nxt[idx0]
    idx0 = idx0 + 1
    return idx0

def b_no_return(idx0, nxt, mv):
    while nxt[idx0] != idx0:
        idx0 = nxt[idx0]

def b_list_read(idx0, nxt, mv):
    out = []
    out.append(idx0)
    while nxt[idx0] != idx0:
        idx0 = out[0]
    return idx0

def b_array_write(idx0, nxt, mv):
    while nxt[idx0] != idx0:
        nxt[idx0] = idx0
    return idx0

def b_unlisted_call(idx0, nxt, mv):
    while nxt[idx0] != idx0:
        idx0 = ext.other(idx0)
    return idx0

def b_builtin_call(idx0, nxt, mv):
    while nxt[idx0] != idx0:
        idx0 = len(nxt)
    return idx0

def b_ext_shadowed(idx0, nxt, ext):
    d = 0.0
    while nxt[idx0] != idx0:
        d = ext.length(idx0, idx0)
        idx0 = nxt[idx0]
    return d

def b_ext_keyword(idx0, nxt, mv):
    d = 0.0
    while nxt[idx0] != idx0:
        d = ext.length(idx0, j=idx0)
        idx0 = nxt[idx0]
    return d

def b_ext_two_signatures(idx0, nxt, mv):
    d = 0.0
    while nxt[idx0] != idx0:
        d = ext.length(idx0, idx0) + ext.length(idx0)
        idx0 = nxt[idx0]
    return d

def b_ext_array_arg(idx0, nxt, mv):
    d = 0.0
    while nxt[idx0] != idx0:
        d = ext.length(nxt, idx0)
        idx0 = nxt[idx0]
    return d

def b_mix_int_len(idx0, nxt, mv):
    d = 0.0
    while nxt[idx0] != idx0:
        d = d + 1
        idx0 = nxt[idx0]
    return d

def b_len_mul(idx0, nxt, mv):
    d = 1.0
    while nxt[idx0] != idx0:
        d = d * 2.0
        idx0 = nxt[idx0]
    return d

def b_len_div(idx0, nxt, mv):
    d = 1.0
    while nxt[idx0] != idx0:
        d = d / 2.0
        idx0 = nxt[idx0]
    return d

def b_frac_float(idx0, nxt, mv):
    d = 0.0
    while nxt[idx0] != idx0:
        d = d + 0.5
        idx0 = nxt[idx0]
    return d

def b_len_vs_int(idx0, nxt, dist):
    while nxt[idx0] != idx0 and dist > 3:
        idx0 = nxt[idx0]
    return idx0

def b_truthy(idx0, nxt, mv):
    while idx0:
        idx0 = nxt[idx0]
    return idx0

def b_tuple_target(idx0, nxt, mv):
    j = idx0
    while nxt[idx0] != idx0:
        idx0, j = nxt[idx0], idx0
    return j

def b_opt_unguarded(idx0, nxt, mask=None):
    while not mask[idx0]:
        idx0 = nxt[idx0]
    return idx0

def b_opt_unguarded_len(idx0, nxt, dist, max_length=None):
    while dist > max_length:
        idx0 = nxt[idx0]
    return idx0

def b_guard_wrong_polarity(idx0, nxt, mask=None):
    while mask is not None or mask[idx0]:
        idx0 = nxt[idx0]
    return idx0

def b_guard_wrong_branch(idx0, nxt, mask=None):
    while nxt[idx0] != idx0:
        if mask is None:
            if mask[idx0]:
                break
        idx0 = nxt[idx0]
    return idx0

def b_guard_other_name(idx0, nxt, dist, mask=None, max_length=None):
    while mask is not None and dist > max_length:
        idx0 = nxt[idx0]
    return idx0

def b_opt_assigned(idx0, nxt, ncol=None):
    while nxt[idx0] != idx0:
        ncol = idx0
        idx0 = nxt[idx0]
    return idx0

def b_is_on_non_optional(idx0, nxt, mv):
    while idx0 is not None:
        idx0 = nxt[idx0]
    return idx0

def b_local_carried(idx0, nxt, mv):
    k = 0
    while nxt[idx0] != idx0:
        if k > 0:
            idx0 = prev
        prev = nxt[idx0]
        k += 1
    return idx0

def b_local_after_loop(idx0, nxt, mv):
    while nxt[idx0] != idx0:
        j = nxt[idx0]
        idx0 = j
    return j

def b_type_change(idx0, nxt, mv):
    k = 0
    while nxt[idx0] != idx0:
        k = 1.0
        idx0 = nxt[idx0]
    return k

def b_no_state(idx0, nxt, mv):
    while True:
        break
    return idx0

def b_param_rebound_before(idx0, nxt, mv):
    idx0 = nxt[idx0]
    while nxt[idx0] != idx0:
        idx0 = nxt[idx0]
    return idx0

def b_append_to_array(idx0, nxt, mv):
    while nxt[idx0] != idx0:
        nxt.append(idx0)
        idx0 = nxt[idx0]
    return idx0

def b_append_value(idx0, nxt, vals):
    out = []
    while nxt[idx0] != idx0:
        out.append(vals[idx0])
        idx0 = nxt[idx0]
    return out

def b_list_literal(idx0, nxt, mv):
    out = [idx0]
    while nxt[idx0] != idx0:
        idx0 = nxt[idx0]
        out.append(idx0)
    return out

def b_list_reset_in_loop(idx0, nxt, mv):
    out = []
    while nxt[idx0] != idx0:
        out = []
        idx0 = nxt[idx0]
    return out

def b_try(idx0, nxt, mv):
    while nxt[idx0] != idx0:
        try:
            idx0 = nxt[idx0]
        except IndexError:
            break
    return idx0

def b_global(idx0, nxt, mv):
    while nxt[idx0] != _K:
        idx0 = nxt[idx0]
    return idx0

def b_listcomp(idx0, nxt, mv):
    out = [i for i in range(3)]
    while nxt[idx0] != idx0:
        idx0 = nxt[idx0]
    return idx0

def b_nat_sub(idx0, nxt, mv):
    while nxt[idx0] != idx0:
        idx0 = idx0 - 1
    return idx0

def b_value_as_index(idx0, nxt, vals):
    while nxt[idx0] != idx0:
        idx0 = nxt[vals[idx0]]
    return idx0

def b_store_value_in_index(idx0, nxt, vals):
    while nxt[idx0] != idx0:
        idx0 = vals[idx0]
    return idx0

def b_np_array_of_scalar(idx0, nxt, mv):
    while nxt[idx0] != idx0:
        idx0 = nxt[idx0]
    return np.array(idx0)

def b_walrus(idx0, nxt, mv):
    while (j := nxt[idx0]) != idx0:
        idx0 = j
    return idx0

def b_reserved_name(idx0, nxt, optGetN):
    while nxt[idx0] != idx0:
        idx0 = nxt[idx0]
    return idx0
'''
SYN_BAD_NAMES = [l.split("(")[0][4:] for l in SYN_BAD.splitlines() if l.startswith("def b_")]

LEAN_MAIN_PRELUDE = '''
class Fmt (α : Type) where fmt : α → String
instance : Fmt Int := ⟨toString⟩
instance : Fmt Nat := ⟨toString⟩
instance : Fmt Bool := ⟨fun b => if b then "1" else "0"⟩
instance {α : Type} [Fmt α] : Fmt (List α) := ⟨fun a => " ".intercalate (a.map Fmt.fmt)⟩
instance {α β : Type} [Fmt α] [Fmt β] : Fmt (α × β) := ⟨fun p => Fmt.fmt p.1 ++ " | " ++ Fmt.fmt p.2⟩
instance {α : Type} [Fmt α] : Fmt (Option α) := ⟨fun o => match o with | none => "NONE" | some x => Fmt.fmt x⟩
'''


def lint(x):
    x = int(x)
    return f"({x})" if x < 0 else str(x)


def larg(kind, v):
    if kind == ARRI:
        return "(#[" + ", ".join(lint(x) for x in v) + "] : Array Int)"
    if kind == ARRN:
        return "(#[" + ", ".join(str(int(x)) for x in v) + "] : Array Nat)"
    if kind == OPTB:
        if v is None:
            return "(none : Option (Array Bool))"
        return "(some (#[" + ", ".join("true" if x else "false" for x in v) + "] : Array Bool))"
    if kind == OPTN:
        return "(none : Option Nat)" if v is None else f"(some {int(v)} : Option Nat)"
    if kind == OPTL:
        return "(none : Option Int)" if v is None else f"(some ({lint(v)}) : Option Int)"
    if kind == BOOL:
        return "true" if v else "false"
    if kind == NAT:
        return f"({int(v)} : Nat)"
    if kind == OPAQUE:
        return v
    return f"({lint(v)} : Int)"


def lean_eval(defs_text, calls):
    """calls: [lean expression] -> per call None (`none`) or a list of int lists (one per component)"""
    lines = [f"  IO.println (\"R \" ++ Fmt.fmt ({c}))" for c in calls]
    chunks = [lines[i:i + 40] for i in range(0, len(lines), 40)] or [[]]
    body = LEAN_MAIN_PRELUDE
    for k, ch in enumerate(chunks):
        body += f"def part{k} : IO Unit := do\n" + "\n".join(ch or ["  pure ()"]) + "\n"
    body += "def main : IO Unit := do\n" + "\n".join(f"  part{k}" for k in range(len(chunks))) + "\n"
    path = os.path.join(LEAN_DIR, f".wh_eval_{os.getpid()}.lean")
    with open(path, "w") as fh:
        fh.write("import PfVerif.Model.C11\n" + defs_text + body)
    try:
        p = subprocess.run(["lake", "env", "lean", "--run", path], cwd=LEAN_DIR, stdout=subprocess.PIPE,
                           stderr=subprocess.STDOUT, timeout=600)
    finally:
        os.remove(path)
    out = p.stdout.decode(errors="replace")
    if p.returncode != 0:
        return None, out[-1500:]
    res = [l[2:] for l in out.split("\n") if l.startswith("R ") or l == "R"]
    if len(res) != len(calls):
        return None, f"{len(res)} answers for {len(calls)} calls: " + out[-500:]
    return [None if l.strip() == "NONE" else [[int(t) for t in part.split()] for part in l.split("|")] for l in res], ""


def _ext_module():
    m = types.ModuleType("pf_syn_ext")
    m.length = lambda i, j, c, f, t: float(abs(int(i) - int(j)) + int(c) + (1 if f else 0))
    m.calls = 0
    sys.modules["pf_syn_ext"] = m
    return m


EXT_LEAN = "(fun i j c f _ => ((((if i ≤ j then j - i else i - j) + c + (if f then 1 else 0) : Nat) : Int)) * %d)" % SC


def cond_evals_walk(idx0, nxt, vals, mv, lim):
    """number of times `w_walk` evaluates its loop condition (`while True`: once per started iteration)"""
    k, tot, it = 0, 0, 0
    while True:
        it += 1
        j = nxt[idx0]
        if j == mv or j == idx0:
            break
        k += 1
        if k >= 12:
            break
        if vals[j] < 0:
            idx0 = j
            continue
        tot = tot + vals[j] * 2 - k
        if tot > lim:
            break
        idx0 = j
    return it


def params_of(src, name):
    for s in ast.parse(src).body:
        if isinstance(s, ast.FunctionDef) and s.name == name:
            return [a.arg for a in s.args.args]
    raise KeyError(name)


def synthetic(ctx):
    """-> (lean defs text in namespace Syn, calls, expected); raises RuntimeError when the refusal test fails"""
    rng = ctx.rng
    text, status = extract_while.translate_while_source(SYN_OK, "syn.py", [(n, n, k, x) for n, k, x in SYN_OK_SPECS])
    bad = [(n, r) for n, r in status.items() if r is not None]
    if bad:
        raise RuntimeError(f"extract_while self-test: supported synthetic kernels were refused: {bad}")
    specs = [(n, n, {k: v for k, v in _BADK.items() if k in params_of(SYN_BAD, n)}, _BADX) for n in SYN_BAD_NAMES]
    _, st2 = extract_while.translate_while_source(SYN_BAD, "syn.py", specs)
    accepted = [n for n in SYN_BAD_NAMES if st2[n] is None]
    if accepted:
        raise RuntimeError(f"extract_while self-test: functions outside the fragment were translated: {accepted}")
    # the other two fragments must keep refusing a `while`, this one a `for` sweep
    import extract_fn
    _, st3 = extract_fn.translate_source(SYN_OK, "syn.py", [("w_count", "w_count", {})])
    _, st4 = extract_fn.translate_sweep_source(SYN_OK, "syn.py", [("w_count", "w_count", {})])
    if st3["w_count"] is None or st4["w_count"] is None:
        raise RuntimeError("extract_fn self-test: a straight-line / sweep fragment accepted a `while` loop")
    ctx.count("wh:selftest:refused", len(SYN_BAD_NAMES) + 2)
    ctx.refusals = {n: st2[n] for n in SYN_BAD_NAMES}
    _ext_module()
    env = {}
    exec(compile(SYN_OK, "<syn>", "exec"), env)
    calls, expected = [], []
    for _ in range(25):
        n = rng.randint(1, 9)
        nxt = [n if rng.random() < 0.15 else rng.randrange(n) for _ in range(n)]
        vals = [rng.randint(-3, 9) for _ in range(n)]
        idx0, lim = rng.randrange(n), rng.randint(0, 40)
        a = np.array(nxt, dtype=np.int64)
        want = env["w_walk"](idx0, a, np.array(vals, dtype=np.int64), n, lim)
        its = cond_evals_walk(idx0, nxt, vals, n, lim)
        fuel = rng.choice([its, its, its + 3, its - 1, 40])
        calls.append(f"Syn.w_walk {idx0} {larg(ARRN, nxt)} {larg(ARRI, vals)} {n} {larg(INT, lim)} {max(fuel, 0)}")
        expected.append(None if fuel < its else [[int(x) for x in want[0]], [int(want[1])], [int(want[2])], [int(want[3])]])
        ctx.count("wh:selftest:call:w_walk" + (":nofuel" if fuel < its else ""))
    for _ in range(25):
        n = rng.randint(1, 9)
        nxt = [n if rng.random() < 0.15 else rng.randrange(n) for _ in range(n)]
        idx0 = rng.randrange(n)
        ncol = None if rng.random() < 0.4 else rng.randint(1, 4)
        mask = None if rng.random() < 0.4 else [rng.random() < 0.3 for _ in range(n)]
        ml = None if rng.random() < 0.4 else rng.randint(0, 80) / 4.0
        real = rng.random() < 0.6
        want = env["w_len"](idx0, np.array(nxt, dtype=np.int64), ncol, None if mask is None else np.array(mask), ml,
                            real, None, n)
        # condition evaluations: one per started iteration, + 1 for the evaluation that ended the loop unless a `break` did
        i0, dist, d, k, brk = idx0, 0.0, 2.0, 0, False
        while (mask is None or not mask[i0]) and k < 20:
            k += 1
            i1 = nxt[i0]
            if i1 == n or i1 == i0:
                brk = True
                break
            d = (env["ext"].length(i0, i1, ncol, real, None) + 1.0) if (real and ncol is not None) else d
            if ml is not None and dist + d >= ml:
                brk = True
                break
            dist += d
            i0 = i1
        its = k if brk else k + 1
        fuel = rng.choice([its, its, its + 2, its - 1, 30])
        calls.append(f"Syn.w_len {idx0} {larg(ARRN, nxt)} {larg(OPTN, ncol)} {larg(OPTB, mask)} "
                     f"{larg(OPTL, None if ml is None else int(ml * SC))} {larg(BOOL, real)} () {n} {SC} {EXT_LEAN} {max(fuel, 0)}")
        expected.append(None if fuel < its else [[int(x) for x in want[0]], [int(round(want[1] * SC))], [int(want[2])],
                                                 [int(round(want[3] * SC))]])
        ctx.count("wh:selftest:call:w_len" + (":nofuel" if fuel < its else ""))
    for _ in range(25):
        x, b = rng.choice([0, 1, 7, 64, 1000, 10 ** 6, rng.randint(0, 10 ** 5)]), rng.randint(2, 7)
        c = env["w_count"](x, b)
        fuel = rng.choice([c + 1, c + 1, c, 50])
        calls.append(f"Syn.w_count {x} {b} {fuel}")
        expected.append(None if fuel < c + 1 else [[c]])
        y = rng.choice([0, 1, 8, 81, 96, 1024, 7 ** 5 * 3]) * rng.choice([1, 1, 2, 3])
        r = env["w_single"](y, b)
        k, z = 0, y
        while z > 0 and z % b == 0:
            z //= b
            k += 1
        fuel = rng.choice([k + 1, k + 1, k, 50])
        calls.append(f"Syn.w_single {y} {b} {fuel}")
        expected.append(None if fuel < k + 1 else [[r]])
        ctx.count("wh:selftest:call:w_count/w_single", 2)
    lean = "namespace Syn\nopen Pf.Generated.Tr\n" + text + "\nend Syn\n"
    return lean, calls, expected


# ----------------------------------------------------------------------------------------
# (b), (c) the real kernel
# ----------------------------------------------------------------------------------------
def kernel():
    import pyflwdir  # noqa: F401
    from pyflwdir import core
    f = getattr(core, "_trace", None)
    return getattr(f, "py_func", f)


def gen_d8(rng):
    """small raster with arbitrary D8 pointers (loops possible), pits and missing cells -> (ds canonical, nrow, ncol)"""
    nrow, ncol = rng.randint(1, 4), rng.randint(1, 4)
    n = nrow * ncol
    ds = []
    for i in range(n):
        r, c = divmod(i, ncol)
        u = rng.random()
        if u < 0.1:
            ds.append(n)
            continue
        nb = [(r + dr) * ncol + c + dc for dr in (-1, 0, 1) for dc in (-1, 0, 1)
              if (dr or dc) and 0 <= r + dr < nrow and 0 <= c + dc < ncol]
        ds.append(i if (u < 0.25 or not nb) else rng.choice(nb))
    ds = [i if (d != n and d != i and ds[d] == n) else d for i, d in enumerate(ds)]   # valid cells point to valid cells
    return ds, nrow, ncol


def gen_case(ctx):
    rng = ctx.rng
    u = rng.random()
    d = {"latlon": False}
    if u < 0.45:
        ds, nrow, ncol = gen_d8(rng)
        d.update(kind="d8", ds=ds, ncol=ncol, real=rng.random() < 0.75)
        unit = rng.choice([1, 2, 4])          # cells of 3u/4 x 4u/4 … : xres = 3 * unit / 4, yres = -(unit)
        d["xres4"], d["yres4"] = 3 * unit, -4 * unit * rng.choice([1, 1, -1])
    else:
        n = rng.randint(2, 12)
        ds = gen_funcgraph(rng, n) if rng.random() < 0.45 else gen_forest(rng, n)
        d.update(kind="vector", ds=ds, ncol=None if rng.random() < 0.7 else rng.randint(1, 5), real=rng.random() < 0.3)
        if d["ncol"] is not None:
            d["real"] = False               # arbitrary links have no exact metric length: cell units only
        d["xres4"], d["yres4"] = 4, -4
    n = len(d["ds"])
    d["idx0"] = rng.randrange(n)
    d["mask"] = None if rng.random() < 0.5 else [rng.random() < 0.25 for _ in range(n)]
    d["dtype"] = rng.choice(["intp", "int32", "uint32", "int64"])
    metric = d["real"] and d["ncol"] is not None
    top = (5 * abs(d["xres4"]) // 3) * (n + 2) if metric else SC * (n + 2)
    d["ml4"] = None if rng.random() < 0.4 else rng.choice([0, rng.randint(0, top), rng.randint(0, top), SC * rng.randint(0, n)])
    # the kernel has no fuel: on a walk that never reaches a pit / flagged cell only `max_length` ends the loop
    i, seen = d["idx0"], 0
    while seen <= n and not (d["mask"] is not None and d["mask"][i]) and d["ds"][i] != i and d["ds"][i] != n:
        i = d["ds"][i]
        seen += 1
    if seen > n and d["ml4"] is None:
        d["ml4"] = rng.randint(0, top)
        d["kind"] += ":loop"
    return d


def call_real(d):
    """-> (path as canonical python ints, dist * SC as int | marker) or None when the helper is absent"""
    f = kernel()
    if f is None:
        return None
    from affine import Affine
    ds, n = d["ds"], len(d["ds"])
    dt = np.dtype(d["dtype"])
    mv = np.array(-1).astype(dt) if np.issubdtype(dt, np.signedinteger) else np.iinfo(dt).max
    nxt = np.array([mv if x == n else x for x in ds], dtype=dt)
    tr = Affine(d["xres4"] / SC, 0.0, 10.0, 0.0, d["yres4"] / SC, 20.0)
    with warnings.catch_warnings():
        warnings.simplefilter("ignore")
        idxs, dist = f(dt.type(d["idx0"]), nxt, ncol=d["ncol"],
                       mask=None if d["mask"] is None else np.array(d["mask"], dtype=bool),
                       max_length=None if d["ml4"] is None else d["ml4"] / SC, real_length=bool(d["real"]),
                       latlon=False, transform=tr, mv=mv)
    path = [n if (int(x) < 0 or int(x) >= n) else int(x) for x in np.asarray(idxs).tolist()]
    s = float(dist) * SC
    return path, (int(s) if s == int(s) else "non-integer " + repr(float(dist)))


def lean_call(d, fuel):
    n = len(d["ds"])
    return (f"Pf.Generated.Tr._trace {d['idx0']} {larg(ARRN, d['ds'])} {larg(OPTN, d['ncol'])} {larg(OPTB, d['mask'])} "
            f"{larg(OPTL, d['ml4'])} {larg(BOOL, d['real'])} false (({lint(d['xres4'])} : Int), ({lint(d['yres4'])} : Int)) {n} {SC} "
            f"(fun i j c _ t => Pf.distProj c t.1 t.2 i j) {fuel}")


def real_calls(ctx, status):
    calls, expected, descs = [], [], []
    if status.get("_trace", 1) is not None or kernel() is None:
        ctx.count("wh:gen:not-comparable:_trace")
        return calls, expected, descs
    for _ in range(100 * min(getattr(ctx, "escalate", 1), 2)):
        d = gen_case(ctx)
        path, dist = call_real(d)
        its = len(path)     # the condition / the body is entered once per returned cell (the last entry ends the walk)
        fuel = ctx.rng.choice([its, its, len(d["ds"]) + 1 if its <= len(d["ds"]) + 1 else its + 1, its - 1, its + 5])
        calls.append(lean_call(d, max(fuel, 0)))
        expected.append(None if fuel < its else [path, [dist]])
        descs.append(dict(d, op="c11fn.gen", fuel=fuel))
        ctx.count("wh:gen:_trace:" + d["kind"] + (":metric" if d["real"] and d["ncol"] is not None else ":cells")
                  + (":nofuel" if fuel < its else ""))
    return calls, expected, descs


def run_translator(ctx):
    text, status = extract_while.render_traces(REPO)
    for k, v in status.items():
        ctx.count("wh:extract:" + k + (":translated" if v is None else ":REFUSED"))
        if v is not None:
            ctx.notes.append(f"extract_while refused kernel {k}: {v}")
    syn_defs, calls_s, exp_s = synthetic(ctx)
    calls_r, exp_r, descs = real_calls(ctx, status)
    rows, err = lean_eval(text + syn_defs, calls_s + calls_r)
    if rows is None:
        prelude = "namespace Pf.Generated.Tr\n" + extract_while.WH_PRELUDE + "end Pf.Generated.Tr\n"
        rows_s, err_s = lean_eval(prelude + syn_defs, calls_s)
        if rows_s is None:
            raise RuntimeError("extract_while self-test: the synthetic translation does not run in Lean:\n" + err_s)
        rows = rows_s + ["skip"] * len(calls_r)
        ctx.fail({"op": "c11fn.gen", "what": "generated def of core._trace"}, "model",
                 "Generated/Traces.lean text does not elaborate / run in Lean: " + err[-600:])
    for c, want, got in zip(calls_s, exp_s, rows[:len(calls_s)]):
        if want != got:
            raise RuntimeError(f"extract_while self-test: {c}: Python {want}, Lean evaluation of the translation {got}")
    ctx.count("wh:selftest:lean-evaluated", len(calls_s))
    for c, want, got, d in zip(calls_r, exp_r, rows[len(calls_s):], descs):
        ctx.evaluations += 1
        if got != "skip" and want != got:
            ctx.fail(d, "model", f"generated def evaluates to {got}, the Python kernel returns {want} (None = out of fuel; {c[:70]}…)")
    ctx.count("wh:gen:lean-evaluated", len(calls_r))


def run_trace(ctx, d):
    res = call_real(d)
    if res is None:
        ctx.count("wh:trace:not-comparable")
        return
    path, dist = res
    n = len(d["ds"])
    metric = d["real"] and d["ncol"] is not None
    ctx.count("wh:trace:" + d["kind"] + (":metric" if metric else ":cells") + (":mask" if d["mask"] is not None else "")
              + (":maxlen" if d["ml4"] is not None else ""))
    fuel = max(n + 1, len(path) + 1)
    args = {"nxt": d["ds"], "starts": [d["idx0"]], "fuel": fuel, "real": int(bool(d["real"])), "one": SC,
            "xres": d["xres4"], "yres": d["yres4"]}
    if d["mask"] is not None:
        args["mask"] = [int(b) for b in d["mask"]]
    if d["ml4"] is not None:
        args["max_length"] = d["ml4"]
    if d["ncol"] is not None:
        args["ncol"] = d["ncol"]

    def judge(ans):
        a = ans[0]
        if "__err__" in a:
            return [{"kind": "model", "what": f"driver error {a['__err__']}"}]
        fs = []
        for key, kind in (("spec", "spec"), ("model", "model")):
            ok, p, dd = bool(a[key + ".ok"][0]), list(a[key + ".paths"]), a[key + ".dist"][0]
            if not ok:
                fs.append({"kind": kind, "what": f"_trace returned {path} but the {key} finds no stop within {fuel} steps"})
            elif p != path or dd != dist:
                fs.append({"kind": kind, "what": f"_trace(idx0={d['idx0']}) returned path {path}, dist*{SC} = {dist}; "
                                                 f"the {'least-stopping-index specification' if key == 'spec' else 'model'} "
                                                 f"gives {p}, {dd}", "impl": [path, dist], key: [p, dd]})
            if fs:
                break
        return fs
    ctx.add(d, [("c11fn.trace", args)], judge, nontrivial=len(path) >= 2)


def run(ctx):
    if getattr(ctx, "replay", None):
        d = ctx.replay.get("failure", {}).get("desc") or ctx.replay.get("desc")
        if d and str(d.get("op", "")) == "c11fn.trace":
            run_trace(ctx, d)
        return
    quick = ctx.tier == "quick"
    run_translator(ctx)
    for _ in range((300 if quick else 4000) * getattr(ctx, "escalate", 1)):
        run_trace(ctx, dict(gen_case(ctx), op="c11fn.trace"))
        if len(ctx.cases) > 400:
            ctx.flush()
