"""C19 - stream vectorisation: correspondence of streams.streams / FlwdirRaster.streams / vectorize /
geofeatures / subgrid.segment_indices with the Lean model (eq), and the decidable certificate
StreamsOK (Lean) evaluated on the implementation's output in every case (spec)."""
from fractions import Fraction

import numpy as np
from common import (gen_raster_net, gen_forest, mk_raster, canon_idx, ints, exc_class)

OPS = ["streams.streams(mask,max_len)", "FlwdirRaster.streams(mask|min_sto,max_len,xs,ys,maps)",
       "FlwdirRaster.vectorize", "FlwdirRaster.geofeatures", "streams(idxs_out)/segment_indices",
       "split arithmetic on chains"]
RULE = ("loop-free networks on rasters <= 56 cells (quick) / <= 400 (thorough): D8 networks from random DEMs, "
        "arbitrary forests, chains and combs (long streams for the split rule); stream masks = none, "
        "downstream closures of random cells, accumulation thresholds, min_sto; max_len 0..9; custom "
        "coordinate arrays xs / ys of independently drawn dtypes (int64, int32, float32, float64), 1-D or raster "
        "shaped (C / F / transposed layout), values = multiples of 1/4 around offsets up to 2^62 that are exact in "
        "their own dtype but in general not in the other one (fractions, > 24 / 31 / 53 significant bits), "
        "and integer transforms; non-trivial = stream network with >= 2 "
        "cells, >= 1 confluence and a path of >= 3 cells; distinct = SHA-1 of (op, network, mask, max_len, ...)")

CLAUSES = ["linked", "once", "cover", "interior", "ends", "pits", "size"]


# ------------------------------------------------------------------------------------------
# generators
# ------------------------------------------------------------------------------------------
def gen_chain(rng, shape):
    """one long stream (random permutation of the cells), optionally with short tributaries"""
    n = shape[0] * shape[1]
    perm = list(range(n))
    rng.shuffle(perm)
    l = rng.randint(2, n)
    ds = [n] * n
    ds[perm[0]] = perm[0]
    for k in range(1, l):
        ds[perm[k]] = perm[k - 1]
    rest = perm[l:]
    mode = rng.random()
    for v in rest:
        if mode < 0.5:
            continue            # pure chain
        u = rng.random()
        if u < 0.5:
            ds[v] = perm[rng.randint(0, l - 1)]   # tributary of length 1 (comb)
        elif u < 0.6:
            ds[v] = v                                # extra pit
    return ds


def gen_net(rng, max_cells):
    u = rng.random()
    if u < 0.25:
        from common import gen_shape
        shape = gen_shape(rng, max_cells=max_cells)
        return gen_chain(rng, shape), shape, "chain"
    return gen_raster_net(rng, max_cells=max_cells)


def closure(ds, seeds):
    n = len(ds)
    m = [False] * n
    for s in seeds:
        i = s
        while not m[i]:
            m[i] = True
            i = ds[i]
    return m


def gen_mask(rng, ds, flw):
    """returns (kind, mask list or None, closed?)"""
    n = len(ds)
    valid = [i for i in range(n) if ds[i] != n]
    u = rng.random()
    if u < 0.25:
        return "none", None
    if u < 0.55:
        k = rng.randint(1, max(1, len(valid) // 3))
        return "closure", closure(ds, [rng.choice(valid) for _ in range(k)])
    if u < 0.75:
        # accumulation threshold (harness' own count of upstream cells)
        acc = [0] * n
        for i in valid:
            j, steps = i, 0
            while True:
                acc[j] += 1
                if ds[j] == j or steps > n:
                    break
                j = ds[j]
                steps += 1
        thr = rng.randint(1, 4)
        return "accu", [ds[i] != n and acc[i] >= thr for i in range(n)]
    if u < 0.88:
        return "all-valid", [ds[i] != n for i in range(n)]
    # arbitrary mask: not downstream closed in general (model correspondence only)
    return "random", [rng.random() < 0.6 for _ in range(n)]


def is_closed(ds, mask):
    n = len(ds)
    return all((not (ds[i] != n and (mask is None or mask[i]))) or (mask is None or mask[ds[i]])
               for i in range(n))


def stream_net_features(ds, mask):
    n = len(ds)
    ins = [ds[i] != n and (mask is None or mask[i]) for i in range(n)]
    nup = [0] * n
    for i in range(n):
        if ins[i] and ds[i] != i:
            nup[ds[i]] += 1
    best = 0
    for i in range(n):
        if not ins[i]:
            continue
        k, j = 1, i
        while ds[j] != j and k <= n:
            j = ds[j]
            k += 1
        best = max(best, k)
    return sum(ins), sum(1 for x in nup if x > 1), best


def scaled(v, scale):
    """exact: integer coordinates (numpy int64 beyond 2^53) must not travel through a Python float"""
    if isinstance(v, (int, np.integer)) and not isinstance(v, (bool, np.bool_)):
        return int(v) * scale
    f = Fraction(float(v)) * scale
    if f.denominator != 1:
        raise ValueError(f"coordinate {v!r} not a multiple of 1/{scale}")
    return int(f)


# custom coordinate arrays: x and y are two independent user arrays (np.meshgrid of integer column numbers and float
# latitudes, a float32 easting raster next to a float64 northing raster, ...). Every value is a multiple of 1/4 and
# exact in the dtype of its own array; the offsets make it inexact in (some of) the other dtypes.
_XY_OFFSETS = {
    "int32": [0, 0, 1000, (1 << 24) + 1, (1 << 30) + 1],
    "int64": [0, 0, 1000, (1 << 24) + 1, (1 << 31) + 1, (1 << 40) + 1, (1 << 53) + 1, (1 << 62) + 1],
    "float32": [0, 0, 1 << 10, 1 << 21],
    "float64": [0, 0, 0, 1 << 24, 5200012, 1 << 31, 1 << 40, 1 << 50],
}


def _gen_coord_array(rng, n, dtype):
    """n coordinates of the given dtype and their exact values times 4"""
    off = rng.choice(_XY_OFFSETS[dtype]) * rng.choice([1, -1])
    if dtype.startswith("int"):
        q = [4 * (off + rng.randint(-40, 40)) for _ in range(n)]
        a = np.array([v // 4 for v in q], dtype=dtype)
    else:
        q = [4 * off + rng.randint(-40, 40) for _ in range(n)]
        a = np.array([v / 4 for v in q], dtype=dtype)
    assert a.dtype == np.dtype(dtype) and [scaled(v, 4) for v in a] == q, "coordinate generator must be exact"
    return a, q


def _survives(a, dtype):
    """do all values of a survive a cast to dtype unchanged?"""
    with np.errstate(all="ignore"):
        b = a.astype(dtype)
    return all(np.isfinite(float(w)) and scaled(v, 4) == scaled(w, 4) for v, w in zip(a, b))


def _gen_xy(ctx, rng, n, shape):
    """custom coordinates: (xs flat, ys flat, exact 4*xs, exact 4*ys, call kwargs, description)"""
    if rng.random() < 0.25:
        dx = dy = "float64"
    else:
        dx = rng.choice(sorted(_XY_OFFSETS))
        dy = rng.choice(sorted(_XY_OFFSETS))
    xs, xs4 = _gen_coord_array(rng, n, dx)
    ys, ys4 = _gen_coord_array(rng, n, dy)
    call, form = {}, {}
    for nm, a in (("xs", xs), ("ys", ys)):
        if rng.random() < 0.5:
            call[nm], form[nm] = a, "1d"
        else:
            call[nm], form[nm] = _layout(a.reshape(shape), rng), "raster"
    ctx.count(f"xy:{dx}/{dy}")
    ctx.count("xy-shape:" + form["xs"] + "/" + form["ys"])
    if dx != dy:
        ctx.count("xy:dtypes-differ")
        if not _survives(ys, dx) or not _survives(xs, dy):
            ctx.count("xy:cast-to-other-dtype-changes-values")
    return xs, ys, xs4, ys4, call, {"xs_dtype": dx, "ys_dtype": dy, "xs_form": form["xs"], "ys_form": form["ys"]}


def lens_flat(paths):
    return [len(p) for p in paths], [int(x) for p in paths for x in p]


# ------------------------------------------------------------------------------------------
def run(ctx):
    rng = ctx.rng
    quick = ctx.tier == "quick"
    ncase = (220 if quick else 2500) * ctx.escalate
    max_cells = 56 if quick else 400
    from pyflwdir import streams as pstreams, subgrid as psubgrid

    # exhaustive split universe on pure chains (thorough: l <= 64, m <= 45; quick: a random sample)
    pairs = [(l, m) for l in range(1, 65) for m in range(0, 46)]
    if quick:
        pairs = rng.sample(pairs, 120)
    else:
        ctx.exhaustive = True
    for (l, m) in pairs:
        _split_case(ctx, pstreams, l, m)
    ctx.flush()

    for k in range(ncase):
        ds, shape, fam = gen_net(rng, max_cells)
        n = len(ds)
        ctx.count("family:" + fam)
        try:
            flw = mk_raster(ds, shape, transform=_gen_transform(rng))
        except ValueError:
            ctx.count("ctor-rejected")
            continue
        if rng.random() < 0.3:
            flw.order_cells(method="walk")
            ctx.count("order:walk")
        seq = canon_idx(flw.idxs_seq, n)
        op = rng.choice(["streams", "streams", "streams", "streams", "vectorize", "geofeatures", "segments"])
        ctx.count("op:" + op)
        if op == "streams":
            _streams_case(ctx, rng, pstreams, flw, ds, shape, seq)
        elif op == "vectorize":
            _vectorize_case(ctx, rng, flw, ds, shape)
        elif op == "geofeatures":
            _geofeatures_case(ctx, rng, flw, ds, shape)
        else:
            _segments_case(ctx, rng, psubgrid, flw, ds, shape)
        if len(ctx.cases) > 300:
            ctx.flush()


def _gen_transform(rng):
    from affine import Affine
    if rng.random() < 0.4:
        return Affine(1.0, 0.0, 0.0, 0.0, -1.0, 0.0)
    a = rng.choice([1, 2, 3, -1, 5])
    e = rng.choice([-1, -2, 1, -3])
    b = rng.choice([0, 0, 0, 1])
    d = rng.choice([0, 0, 0, -1])
    return Affine(float(a), float(b), float(rng.randint(-20, 20)), float(d), float(e), float(rng.randint(-20, 20)))


def _transform_ints(flw):
    t = flw.transform
    return [scaled(x, 1) for x in (t.a, t.b, t.c, t.d, t.e, t.f)]


def _np_mask(mask, shape, rng):
    if mask is None:
        return None
    a = np.array(mask, dtype=bool)
    return a.reshape(shape) if rng.random() < 0.5 else a


# ------------------------------------------------------------------------------------------
def _split_case(ctx, pstreams, l, m):
    """a pure chain l-1 -> ... -> 1 -> 0 (pit): the kernel's pieces must equal the model's split"""
    ds = [max(i - 1, 0) for i in range(l)]
    idxs_ds = np.array(ds, dtype=np.int32)
    seq = np.arange(l, dtype=np.int32)
    out = pstreams.streams(idxs_ds, seq, None, m, np.int32(-1))
    impl = [ints(p) for p in out]
    # the walk starts at cell l-1 and visits l-1, l-2, ..., 0: vertex j of the stream is cell l-1-j
    want_tail = [[0, 0]]
    impl_pos = [[l - 1 - c for c in p] for p in impl[:-1]]
    ok_tail = impl[-1:] == want_tail
    ctx.count("split:" + ("none" if not (l > m > 0) else "one" if 2 * l <= 3 * m else "k>=2"))
    if any(len(p) == 1 for p in impl[:-1]) and l > 1:
        ctx.count("split:one-vertex-piece")

    def judge(ans):
        a, b = ans
        fs = []
        for x in (a, b):
            if "__err__" in x:
                return [{"kind": "model", "what": "driver error " + x["__err__"]}]
        lens, flat = lens_flat(impl_pos)
        if not ok_tail:
            fs.append({"kind": "spec", "what": "chain: last feature is not the zero-length pit feature", "impl": impl})
        if (lens, flat) != (a["model.lens"], a["model.flat"]):
            fs.append({"kind": "model", "what": "split: implementation pieces != Lean splitPieces",
                       "impl": impl_pos, "model.lens": a["model.lens"], "model.flat": a["model.flat"]})
        for c in ("chain", "cover", "size", "nonempty", "join"):
            if a["spec." + c] != [1]:
                fs.append({"kind": "model", "what": f"split_arith clause {c} false on the model's own output"})
        # the clauses of split_arith on the implementation's pieces, directly
        ps = impl_pos
        if ps:
            cover = [(x, y) for p in ps for x, y in zip(p, p[1:])] == [(j, j + 1) for j in range(l - 1)]
            chain = all(p and q and p[-1] == q[0] for p, q in zip(ps, ps[1:]))
            size = m == 0 or all(2 * len(p) <= 3 * m + 1 for p in ps)
            # split_concat: first piece + later pieces without their first vertex = the unsplit stream
            join = ps[0] + [v for p in ps[1:] for v in p[1:]] == list(range(l))
            for nm, okv in (("cover", cover), ("chain", chain), ("size", size), ("concat", join)):
                if not okv:
                    fs.append({"kind": "spec", "what": f"split: pieces violate '{nm}' (l={l}, max_len={m})", "impl": impl_pos})
        if b["spec.ok"] != [1]:
            fs.append({"kind": "spec", "what": "StreamsOK false on chain: clauses " +
                       ",".join(c for c, v in zip(CLAUSES, b["spec.flags"]) if not v), "impl": impl})
        return fs

    lens, flat = lens_flat(impl)
    ctx.add({"op": "split-on-chain", "l": l, "max_len": m},
            [("split", {"l": l, "max_len": m}),
             ("streams", {"ds": ds, "seq": list(range(l)), "max_len": m, "impl.lens": lens, "impl.flat": flat})],
            judge, nontrivial=(l > m > 0 and l >= 3))


def _layout(a2d, rng):
    """the same 2-D map in C order, Fortran order or as a transposed view (sampled maps are user arrays)"""
    u = rng.random()
    if u < 0.5:
        return a2d
    if u < 0.75:
        return np.asfortranarray(a2d)
    return np.ascontiguousarray(a2d.T).T


def _streams_case(ctx, rng, pstreams, flw, ds, shape, seq):
    n = len(ds)
    kind, mask = gen_mask(rng, ds, flw)
    max_len = rng.choice([0, 0, 1, 2, 2, 3, 3, 4, 5, 6, 7, 9])
    strord = None
    min_sto = None
    if kind != "random" and rng.random() < 0.2:
        # stream cells by minimum Strahler order (the library's own order map; checked under C08)
        kind = "min_sto"
        # the harness' own Strahler order defines the expected stream cells (an order map the object has cached
        # may not be trusted: the call under test is what has to get it right)
        from common import strahler_of
        strord = np.array(strahler_of(ds), dtype=np.uint8).reshape(shape)
        min_sto = rng.randint(1, max(1, int(strord.max())))
        mask = [bool(x) for x in (strord.ravel() >= min_sto)] if min_sto > 1 else None
    closed = is_closed(ds, mask)
    ctx.count("mask:" + kind)
    ctx.count("max_len:" + ("0" if max_len == 0 else "1" if max_len == 1 else "2-3" if max_len < 4 else ">=4"))
    nvalid, nconf, plen = stream_net_features(ds, mask)
    nontriv = nvalid >= 2 and nconf >= 1 and plen >= 3 and closed
    # 1. the kernel: raw index arrays
    mflat = None if mask is None else np.array(mask, dtype=bool)
    out = pstreams.streams(flw.idxs_ds, flw.idxs_seq, mflat, max_len, flw._mv)
    impl = [canon_idx(p, n) for p in out]
    if any(len(p) == 1 for p in impl):
        ctx.count("feature:one-vertex")
    if max_len and len(impl) > 0:
        ctx.count("split-candidates", sum(1 for p in impl if len(p) > 2))
    # 2. the public wrapper with custom coordinates / extra maps
    use_xy = rng.random() < 0.6
    scale = 4 if use_xy else 2
    xs = ys = xs4 = ys4 = None
    xy_call, xy_desc = {}, {}
    if use_xy:
        xs, ys, xs4, ys4, xy_call, xy_desc = _gen_xy(ctx, rng, n, shape)
    nmaps = rng.choice([0, 1, 2])
    maps = [np.array([rng.randint(-99, 99) for _ in range(n)], dtype=np.int64) for _ in range(nmaps)]
    kwargs = {f"m{j}": (_layout(maps[j].reshape(shape), rng) if rng.random() < 0.5 else maps[j]) for j in range(nmaps)}
    call = {"max_len": max_len}
    if min_sto is not None:
        call["min_sto"] = min_sto
        if rng.random() < 0.5:
            call["strord"] = strord
    elif mask is not None:
        call["mask"] = _np_mask(mask, shape, rng)
        if rng.random() < 0.4:
            # documented: "if a mask is given the minimum stream order is ignored"
            call["min_sto"] = rng.choice([2, 3])
            ctx.count("mask+min_sto")
    call.update(xy_call)
    feats = flw.streams(**call, **kwargs)
    map_list = list(maps)
    if min_sto is not None and min_sto > 1:
        # the wrapper adds the stream order as an extra sampled column
        map_list = map_list + [np.asarray(strord).ravel().astype(np.int64)]
        keys = [f"m{j}" for j in range(nmaps)] + ["strord"]
    elif "strord" in call:
        map_list = map_list + [np.asarray(strord).ravel().astype(np.int64)]
        keys = [f"m{j}" for j in range(nmaps)] + ["strord"]
    else:
        keys = [f"m{j}" for j in range(nmaps)]
    fimpl = _canon_feats(feats, keys, scale, n)
    lens, flat = lens_flat(impl)
    desc = {"op": "streams", "ds": ds, "shape": list(shape), "mask": mask, "mask_kind": kind, "max_len": max_len,
            "min_sto": min_sto, "seq": seq, "xs4": xs4, "ys4": ys4, **xy_desc, "transform": _transform_ints(flw),
            "maps": [ints(m) for m in map_list]}
    fargs = _feature_args(impl, n, xs, ys, flw, shape, map_list)

    def judge(ans):
        a, b = ans
        for x in (a, b):
            if "__err__" in x:
                return [{"kind": "model", "what": "driver error " + x["__err__"]}]
        fs = []
        if a["topo"] != [1]:
            fs.append({"kind": "spec", "what": "cell order handed to streams is not downstream-first (C03 hypothesis)"})
        if a["covers"] != [1]:
            fs.append({"kind": "spec", "what": "cell order handed to streams does not contain every stream cell (C03 hypothesis of streams_model_ok)"})
        if a["nup.ok"] != [1]:
            fs.append({"kind": "model", "what": "Lean upstreamCount differs from the declarative inflow count nupM on a valid cell"})
        if a["closed"] != [1 if closed else 0]:
            fs.append({"kind": "model", "what": "harness and Lean disagree on downstream-closedness of the mask"})
        if closed:
            if a["spec.ok"] != [1]:
                bad = [c for c, v in zip(CLAUSES, a["spec.flags"]) if not v]
                fs.append({"kind": "spec", "what": "StreamsOK false on the implementation's streams: clauses " + ",".join(bad),
                           "impl": impl})
            if a["model.ok"] != [1]:
                fs.append({"kind": "model", "what": "StreamsOK false on the Lean model's own output"})
        if (lens, flat) != (a["model.lens"], a["model.flat"]):
            fs.append({"kind": "model", "what": "streams: implementation != Lean model", "impl": impl,
                       "model.lens": a["model.lens"], "model.flat": a["model.flat"]})
        fs += _judge_feats(fimpl, b, impl, "FlwdirRaster.streams", fargs)
        return fs

    ctx.add(desc, [("streams", {"ds": ds, "seq": seq, "mask": mask, "max_len": max_len,
                                "impl.lens": lens, "impl.flat": flat}),
                   ("features", fargs)], judge, nontrivial=nontriv)


def _feature_args(paths, n, xs, ys, flw, shape, map_list):
    """xs / ys: the flat coordinate arrays handed to the library (any dtype; `scaled` is exact for each)"""
    lens, flat = lens_flat(paths)
    args = {"lens": lens, "flat": flat, "n": n, "nmaps": len(map_list),
            "maps": [int(v) for m in map_list for v in np.asarray(m).ravel().tolist()]}
    if xs is not None and ys is not None:
        args["xs"] = [scaled(v, 4) for v in xs]
        args["ys"] = [scaled(v, 4) for v in ys]
    else:
        args["transform"] = _transform_ints(flw)
        args["ncol"] = int(shape[1])
    return args


def _canon_feats(feats, keys, scale, n):
    out = []
    for f in feats:
        assert f["type"] == "Feature" and f["geometry"]["type"] == "LineString"
        cs = f["geometry"]["coordinates"]
        p = f["properties"]
        extra = sorted(k for k in p if k not in ("idx", "idx_ds", "pit"))
        out.append({"x": [scaled(c[0], scale) for c in cs], "y": [scaled(c[1], scale) for c in cs],
                    "idx": int(p["idx"]), "idx_ds": int(p["idx_ds"]), "pit": int(bool(p["pit"])),
                    "props": [int(p[k]) for k in keys if k in p], "keys_ok": extra == sorted(keys)})
    return out


def _coord_oracle(fargs):
    """scaled coordinates of a cell, straight from the inputs (independent of the Lean model):
    custom rasters -> (4*xs[i], 4*ys[i]); transform -> twice the cell centre"""
    if "xs" in fargs:
        xs, ys = fargs["xs"], fargs["ys"]
        return lambda i: (xs[i], ys[i])
    a, b_, c, d, e, f = fargs["transform"]
    ncol = fargs["ncol"]
    return lambda i: (a * (2 * (i % ncol) + 1) + b_ * (2 * (i // ncol) + 1) + 2 * c,
                      d * (2 * (i % ncol) + 1) + e * (2 * (i // ncol) + 1) + 2 * f)


def _judge_feats(fimpl, b, paths, who, fargs=None):
    """fimpl: canonical features of the implementation; b: answer of the `features` op on `paths`"""
    fs = []
    if fargs is not None:
        co = _coord_oracle(fargs)
        kept = [p for p in paths if len(p) >= 2]
        want = [[co(i) for i in p] for p in kept]
        have = [list(zip(f["x"], f["y"])) for f in fimpl]
        if want != have:
            fs.append({"kind": "spec", "what": f"{who}: vertex coordinates are not the coordinates of the polyline's cells",
                       "impl": have, "expected": want, "paths": paths})
    lens = [len(f["x"]) for f in fimpl]
    got = {"lens": lens, "x": [v for f in fimpl for v in f["x"]], "y": [v for f in fimpl for v in f["y"]],
           "idx": [f["idx"] for f in fimpl], "idx_ds": [f["idx_ds"] for f in fimpl],
           "pit": [f["pit"] for f in fimpl], "props": [v for f in fimpl for v in f["props"]]}
    # spec: first / last cell reported, one feature per path with >= 2 vertices
    if got["idx"] != b["spec.idx"] or got["idx_ds"] != b["spec.idx_ds"]:
        fs.append({"kind": "spec", "what": f"{who}: properties idx/idx_ds are not the first/last cell of each polyline "
                   "with at least two vertices", "impl.idx": got["idx"], "impl.idx_ds": got["idx_ds"],
                   "spec.idx": b["spec.idx"], "spec.idx_ds": b["spec.idx_ds"], "paths": paths})
    if got["props"] != b["spec.props"]:
        fs.append({"kind": "spec", "what": f"{who}: extra maps are not sampled at the first cell of each polyline",
                   "impl.props": got["props"], "spec.props": b["spec.props"], "paths": paths})
    if not all(f["keys_ok"] for f in fimpl):
        fs.append({"kind": "spec", "what": f"{who}: property columns are not exactly idx, idx_ds, pit + the extra maps"})
    for k in ("lens", "x", "y", "idx", "idx_ds", "pit", "props"):
        if got[k] != b["model." + k]:
            fs.append({"kind": "model", "what": f"{who}: features field '{k}' != Lean featuresModel",
                       "impl": got[k], "model": b["model." + k], "paths": paths})
            break
    return fs


def _vectorize_case(ctx, rng, flw, ds, shape):
    n = len(ds)
    direction = rng.choice(["down", "down", "up"])
    u = rng.random()
    mask = None if u < 0.4 else [rng.random() < 0.7 for _ in range(n)]
    nxt = canon_idx(flw.idxs_ds if direction == "down" else flw.idxs_us_main, n)
    use_xy = rng.random() < 0.5
    scale = 4 if use_xy else 2
    xs = ys = xs4 = ys4 = None
    call, xy_desc = {}, {}
    if use_xy:
        xs, ys, xs4, ys4, xy_call, xy_desc = _gen_xy(ctx, rng, n, shape)
        call.update(xy_call)
    nmaps = rng.choice([0, 1])
    maps = [np.array([rng.randint(-99, 99) for _ in range(n)], dtype=np.int64) for _ in range(nmaps)]
    kwargs = {f"m{j}": maps[j] for j in range(nmaps)}
    if mask is not None:
        call["mask"] = _np_mask(mask, shape, rng)
    feats = flw.vectorize(direction=direction, **call, **kwargs)
    keys = [f"m{j}" for j in range(nmaps)]
    fimpl = _canon_feats(feats, keys, scale, n)
    ctx.count("vectorize:" + direction)
    nvalid, nconf, plen = stream_net_features(ds, None)
    # what the property fixes: one two-vertex feature (i, nxt i) per selected valid cell
    want = [[i, nxt[i]] for i in range(n) if nxt[i] != n and (mask is None or mask[i])]
    desc = {"op": "vectorize", "ds": ds, "shape": list(shape), "mask": mask, "direction": direction,
            "xs4": xs4, "ys4": ys4, **xy_desc, "transform": _transform_ints(flw),
            "maps": [ints(m) for m in maps]}
    fargs = _feature_args(want, n, xs, ys, flw, shape, maps)

    def judge(ans):
        a, b = ans
        for x in (a, b):
            if "__err__" in x:
                return [{"kind": "model", "what": "driver error " + x["__err__"]}]
        fs = []
        wflat = [v for p in want for v in p]
        if a["spec.flat"] != wflat:
            fs.append({"kind": "model", "what": "vectorize: harness and Lean declarative tuple lists differ"})
        if a["model.flat"] != a["spec.flat"]:
            fs.append({"kind": "model", "what": "vectorize: flwdirTuples model != declarative list"})
        if [len(f["x"]) for f in fimpl] != [2] * len(want):
            fs.append({"kind": "spec", "what": "vectorize: not exactly one two-vertex feature per selected valid cell",
                       "n_features": len(fimpl), "n_cells": len(want)})
        fs += _judge_feats(fimpl, b, want, "FlwdirRaster.vectorize", fargs)
        return fs

    ctx.add(desc, [("vectorize", {"nxt": nxt, "mask": mask}), ("features", fargs)], judge,
            nontrivial=nvalid >= 2 and nconf >= 1 and plen >= 3)


def _geofeatures_case(ctx, rng, flw, ds, shape):
    """arbitrary flow paths (walks of random length, also empty / one-vertex / zero-length ones)"""
    n = len(ds)
    valid = [i for i in range(n) if ds[i] != n]
    paths = []
    for _ in range(rng.randint(1, 6)):
        u = rng.random()
        if u < 0.1:
            paths.append([])
        elif u < 0.2:
            paths.append([rng.choice(valid)])
        elif u < 0.3:
            p = rng.choice(valid)
            paths.append([p, p])
        else:
            i = rng.choice(valid)
            p = [i]
            for _ in range(rng.randint(1, 6)):
                if ds[i] == i:
                    if rng.random() < 0.5:
                        p.append(i)
                    break
                i = ds[i]
                p.append(i)
            paths.append(p)
    use_xy = rng.random() < 0.5
    scale = 4 if use_xy else 2
    xs = ys = xs4 = ys4 = None
    call, xy_desc = {}, {}
    if use_xy:
        xs, ys, xs4, ys4, xy_call, xy_desc = _gen_xy(ctx, rng, n, shape)
        call.update(xy_call)
    nmaps = rng.choice([0, 1, 2])
    maps = [np.array([rng.randint(-99, 99) for _ in range(n)], dtype=np.int64) for _ in range(nmaps)]
    kwargs = {f"m{j}": (_layout(maps[j].reshape(shape), rng) if rng.random() < 0.5 else maps[j]) for j in range(nmaps)}
    bad = rng.random() < 0.1
    if bad:
        kwargs["bad"] = np.zeros(n + 1)
    np_paths = [np.array(p, dtype=np.int32) for p in paths]
    try:
        feats = flw.geofeatures(np_paths, **call, **kwargs)
        got = "returns"
    except Exception as e:
        got = exc_class(e)
    desc = {"op": "geofeatures", "ds": ds, "shape": list(shape), "paths": paths,
            "xs4": xs4, "ys4": ys4, **xy_desc, "transform": _transform_ints(flw),
            "maps": [ints(m) for m in maps], "bad_map": bad}
    if bad:
        ctx.evaluations += 1
        ctx.count("geofeatures:bad-map")
        if got != "ValueError":
            ctx.fail(desc, "spec", f"extra map of wrong size must raise ValueError, got {got}")
        return
    if got != "returns":
        ctx.fail(desc, "spec", f"geofeatures raised {got} on valid input")
        return
    keys = [f"m{j}" for j in range(nmaps)]
    fimpl = _canon_feats(feats, keys, scale, n)
    fargs = _feature_args(paths, n, xs, ys, flw, shape, maps)
    ctx.count("geofeatures:short-paths", sum(1 for p in paths if len(p) < 2))

    def judge(ans):
        b = ans[0]
        if "__err__" in b:
            return [{"kind": "model", "what": "driver error " + b["__err__"]}]
        return _judge_feats(fimpl, b, paths, "FlwdirRaster.geofeatures", fargs)

    ctx.add(desc, [("features", fargs)], judge, nontrivial=any(len(p) >= 3 for p in paths))


def _segments_case(ctx, rng, psubgrid, flw, ds, shape):
    """streams(idxs_out=...): segments between outlet cells (subgrid.segment_indices)"""
    n = len(ds)
    valid = [i for i in range(n) if ds[i] != n]
    direction = rng.choice(["down", "up"])
    nxt_np = flw.idxs_ds if direction == "down" else flw.idxs_us_main
    nxt = canon_idx(nxt_np, n)
    k = rng.randint(1, max(1, len(valid) // 2))
    idxs_out = rng.sample(valid, min(k, len(valid)))
    mv = int(flw._mv)
    out_np = np.array(idxs_out, dtype=flw.idxs_ds.dtype)
    if rng.random() < 0.3:
        out_np = np.append(out_np, flw._mv).astype(flw.idxs_ds.dtype)
        rng_perm = list(range(len(out_np)))
        rng.shuffle(rng_perm)
        out_np = out_np[rng_perm]
    kind, mask = gen_mask(rng, ds, flw)
    max_len = rng.choice([0, 0, 1, 2, 3, 5])
    mflat = None if mask is None else np.array(mask, dtype=bool)
    out = psubgrid.segment_indices(out_np, nxt_np, mflat, max_len, flw._mv)
    impl = [canon_idx(p, n) for p in out]
    # the public wrapper: same paths (reversed for 'up'), as features
    call = {"idxs_out": out_np, "direction": direction, "max_len": max_len}
    if mask is not None:
        call["mask"] = mflat
    feats = flw.streams(**call)
    fimpl = _canon_feats(feats, [], 2, n)
    paths = [p[::-1] for p in impl] if direction == "up" else impl
    fargs = _feature_args(paths, n, None, None, flw, shape, [])
    ctx.count("segments:" + direction)
    lens, flat = lens_flat(impl)
    desc = {"op": "segments", "ds": ds, "shape": list(shape), "idxs_out": canon_idx(out_np, n), "mask": mask,
            "direction": direction, "max_len": max_len, "nxt": nxt}

    def judge(ans):
        a, b = ans
        for x in (a, b):
            if "__err__" in x:
                return [{"kind": "model", "what": "driver error " + x["__err__"]}]
        fs = []
        if (lens, flat) != (a["model.lens"], a["model.flat"]):
            fs.append({"kind": "model", "what": "segment_indices: implementation != Lean model", "impl": impl,
                       "model.lens": a["model.lens"], "model.flat": a["model.flat"]})
        # hypotheses of segment_indices_total(_up): with them the model provably returns (no fuel error above)
        for h, what in (("hyp.topo", "the cell order the implementation used is not downstream-first (isTopo)"),
                        ("hyp.covers", "the cell order does not contain every valid cell"),
                        ("hyp.link", "idxs_nxt is neither idxs_ds nor an upstream-link array of it (idxs_us_main)"),
                        ("hyp.outs", "outlet index out of range")):
            if a.get(h) != [1]:
                fs.append({"kind": "spec", "what": "hypothesis of segment_indices_total false: " + what, "flag": h})
        # consecutive vertices are linked cells (or the zero-length pit feature)
        for p in impl:
            for x, y in zip(p, p[1:]):
                if not (nxt[x] == y):
                    fs.append({"kind": "spec", "what": "segment with consecutive vertices that are not linked", "impl": impl})
                    break
        fs += _judge_feats(fimpl, b, paths, "FlwdirRaster.streams(idxs_out)", fargs)
        return fs

    nvalid, nconf, plen = stream_net_features(ds, None)
    ctx.add(desc, [("segment_indices", {"nxt": nxt, "idxs_out": canon_idx(out_np, n), "mask": mask, "max_len": max_len,
                                        "ds": ds, "seq": canon_idx(flw.idxs_seq, n)}),
                   ("features", fargs)], judge, nontrivial=nvalid >= 2 and nconf >= 1 and plen >= 3)
