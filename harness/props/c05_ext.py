"""C05 extension - region and mask operations next to basin delineation: FlwdirRaster.outflow_idxs /
inflow_idxs, interbasin_mask, regions.region_sum / region_area / region_slices / region_bounds,
FlwdirRaster.basin_bounds and the snapping path of FlwdirRaster.basins(idxs|xy, streams=mask).

Every operation is executed on the real implementation; the Lean driver returns `model.*` (the
loop-for-loop model of lean/PfVerif/Model/C05_ext.lean) and `spec.*` (declarative definitions the
theorems of lean/PfVerif/Props/C05_ext.lean relate to the model). `spec` failure = the implementation
violates the stated behaviour on this input (including an exception on a valid input);
`model` failure = implementation != Lean model."""
from fractions import Fraction

import numpy as np
from common import (gen_raster_net, mk_raster, canon_idx, ints, net_features, max_path_len, exc_class)

OPS = ["outflow_idxs", "inflow_idxs", "interbasin_mask", "region_sum", "region_area", "region_slices",
       "region_bounds", "basin_bounds", "basins(idxs,streams)", "basins(xy,streams)"]
RULE = ("C05 extension: random loop-free networks on rasters <= 56 cells (quick) / <= 400 (thorough) with dyadic "
        "unrotated transforms of both signs; regions = random masks, row/column bands, upstream areas, flow "
        "corridors and their complements, scalars, wrong sizes; label maps = basin maps, random labels with gaps, "
        "negatives and zeros, several dtypes; streams = sparse masks, thresholded upstream counts, flow paths, "
        "all/none; outlets by index or coordinate. non-trivial = >= 2 valid cells, >= 1 confluence, path length >= 3")

RES = [0.25, 0.5, 1.0, 1.5, 2.0, 3.0]
DEN = 8                  # common denominator of all coordinates / cell sizes
GEO = [(0.25, -0.25), (0.5, -0.25), (0.125, -0.25), (1.0, -1.0), (0.25, 0.25), (-0.5, 0.5)]
LABEL_DTYPES = [np.int32, np.uint32, np.int64, np.uint8, np.int16]
KAREA = 20               # geographic cell areas travel as integers scaled by 2**k, k >= KAREA chosen per case


def call(fn):
    try:
        return "ok", fn()
    except Exception as e:  # noqa: BLE001 - an exception of the implementation is an observation
        return "exc", exc_class(e)


def upstream_sets(ds):
    n = len(ds)
    ups = [[] for _ in range(n)]
    for i, d in enumerate(ds):
        if d != n and d != i:
            ups[d].append(i)
    return ups


def upstream_of(ds, ups, c):
    out, todo = [], [c]
    while todo:
        x = todo.pop()
        out.append(x)
        todo.extend(ups[x])
    return out


def path_of(ds, c):
    n = len(ds)
    p = [c]
    while ds[p[-1]] != p[-1] and ds[p[-1]] != n and len(p) <= n:
        p.append(ds[p[-1]])
    return p


def gen_region(rng, ds, shape, valid, ups):
    """bool list of length n and a tag"""
    nrow, ncol = shape
    n = len(ds)
    kind = rng.choice(["random", "random", "band", "upstream", "upstream-minus", "corridor", "complement", "all", "none",
                       "rank-stripes", "rank-stripes"])
    reg = [False] * n
    if kind == "random":
        p = rng.choice([0.2, 0.5, 0.8])
        reg = [rng.random() < p for _ in range(n)]
    elif kind == "band":
        if rng.random() < 0.5:
            a = rng.randint(0, nrow - 1)
            b = rng.randint(a, nrow - 1)
            reg = [a <= i // ncol <= b for i in range(n)]
        else:
            a = rng.randint(0, ncol - 1)
            b = rng.randint(a, ncol - 1)
            reg = [a <= i % ncol <= b for i in range(n)]
    elif kind in ("upstream", "upstream-minus"):
        c = rng.choice(valid)
        for x in upstream_of(ds, ups, c):
            reg[x] = True
        if kind == "upstream-minus":       # cut a hole: the flow leaves and re-enters the region
            inside = [i for i in range(n) if reg[i]]
            for x in upstream_of(ds, ups, rng.choice(inside)):
                reg[x] = False
            for x in upstream_of(ds, ups, rng.choice(inside)):
                reg[x] = True
    elif kind == "corridor":
        for x in path_of(ds, rng.choice(valid)):
            reg[x] = True
        for _ in range(rng.randint(0, 3)):
            reg[rng.randrange(n)] ^= True
    elif kind == "complement":
        reg0, _ = gen_region(rng, ds, shape, valid, ups)
        reg = [not b for b in reg0]
    elif kind == "all":
        reg = [True] * n
    elif kind == "rank-stripes":
        # membership alternates with the distance to the pit: every flow path enters and leaves the region
        # several times, branches of a confluence differ after a little noise
        w, par = rng.randint(1, 2), rng.randint(0, 1)
        for i in valid:
            reg[i] = ((len(path_of(ds, i)) - 1) // w) % 2 == par
        for _ in range(rng.randint(0, 4)):
            reg[rng.choice(valid)] ^= True
    return reg, kind


def gen_streams(rng, ds, shape, valid, ups):
    n = len(ds)
    kind = rng.choice(["sparse", "sparse", "upcount", "path", "none", "all", "pits"])
    s = [False] * n
    if kind == "sparse":
        p = rng.choice([0.05, 0.15, 0.3])
        s = [rng.random() < p for _ in range(n)]
    elif kind == "upcount":
        thr = rng.randint(2, 6)
        s = [ds[i] != n and len(upstream_of(ds, ups, i)) >= thr for i in range(n)]
    elif kind == "path":
        for x in path_of(ds, rng.choice(valid))[rng.randint(0, 2):]:
            s[x] = True
    elif kind == "all":
        s = [True] * n
    elif kind == "pits":
        s = [ds[i] == i for i in range(n)]
    return s, kind


def gen_transform(rng):
    xres = rng.choice(RES) * rng.choice([1, 1, -1])
    yres = rng.choice(RES) * rng.choice([-1, -1, 1])
    x0 = rng.randint(-16, 16) * 0.5
    y0 = rng.randint(-16, 16) * 0.5
    return xres, yres, x0, y0


def sc(v):
    f = Fraction(v) * DEN
    assert f.denominator == 1
    return int(f)


def targs(xres, yres, x0, y0):
    return {"x0": sc(x0), "y0": sc(y0), "xres": sc(xres), "yres": sc(yres)}


def run(ctx):
    from affine import Affine
    rng = ctx.rng
    ncase = (110 if ctx.tier == "quick" else 1500) * ctx.escalate
    max_cells = 56 if ctx.tier == "quick" else 400
    for k in range(ncase):
        ds, shape, fam = gen_raster_net(rng, max_cells=max_cells)
        n = len(ds)
        feat = net_features(ds)
        nontriv = feat["valid"] >= 2 and feat["confluences"] >= 1 and max_path_len(ds) >= 3
        xres, yres, x0, y0 = gen_transform(rng)
        transform = Affine(xres, 0.0, x0, 0.0, yres, y0)
        dtype = rng.choice([np.int32, np.int32, np.int64, np.uint32])
        try:
            flw = mk_raster(ds, shape, dtype=dtype, transform=transform, latlon=False)
        except ValueError:
            ctx.count("x:ctor-rejected")
            continue
        ctx.count("x:family:" + fam)
        seq = canon_idx(flw.idxs_seq, n)
        pits = canon_idx(flw.idxs_pit, n)
        valid = [i for i in range(n) if ds[i] != n]
        ups = upstream_sets(ds)
        base = {"ds": ds, "shape": list(shape), "dtype": np.dtype(dtype).name,
                "transform": [xres, 0.0, x0, 0.0, yres, y0]}
        W = dict(ctx=ctx, rng=rng, flw=flw, ds=ds, n=n, shape=shape, seq=seq, pits=pits, valid=valid, ups=ups,
                 base=base, nontriv=nontriv, tr=(xres, yres, x0, y0), transform=transform, dtype=dtype)
        _case_flow_idxs(W)
        _case_flow_idxs(W)
        _case_interbasin(W)
        if rng.random() < 0.8:
            _case_regions(W)
        if rng.random() < 0.6:
            _case_basin_bounds(W)
        _case_basins_snap(W)
        if len(ctx.cases) > 400:
            ctx.flush()


# ------------------------------------------------------------------------------------------------
def _region_arg(W, reg, kind):
    """the array handed to the implementation (2-D raster, or a size-1 / wrong-size variant) + what goes to Lean"""
    rng, n, shape = W["rng"], W["n"], W["shape"]
    u = rng.random()
    if u < 0.06:
        b = rng.random() < 0.5
        return np.array(b), [b], "scalar"
    if u < 0.12 and n > 2:
        m = rng.choice([n - 1, n + 1, 2])
        wrong = [bool(rng.getrandbits(1)) for _ in range(m)]
        return np.array(wrong), wrong, "wrong-size"
    return np.array(reg, dtype=bool).reshape(shape), reg, kind


def _case_flow_idxs(W):
    ctx, rng, flw, ds, n, seq = W["ctx"], W["rng"], W["flw"], W["ds"], W["n"], W["seq"]
    reg, kind = gen_region(rng, ds, W["shape"], W["valid"], W["ups"])
    arr, lean_reg, kind = _region_arg(W, reg, kind)
    ctx.count("x:region:" + kind)
    mixed = len(set(lean_reg)) > 1
    for which in ("outflow", "inflow"):
        fn = flw.outflow_idxs if which == "outflow" else flw.inflow_idxs
        st, out = call(lambda: fn(arr))
        desc = {"op": which + "_idxs", **W["base"], "region": [int(b) for b in lean_reg], "kind": kind}
        if st == "ok":
            impl = canon_idx(out, n)
            dtype_ok = out.dtype == flw.idxs_ds.dtype
        else:
            impl, dtype_ok = None, True

        def judge(ans, which=which, st=st, out=out, impl=impl, dtype_ok=dtype_ok, kind=kind):
            a = ans[0]
            if "__err__" in a:
                return [{"kind": "model", "what": "driver error " + a["__err__"]}]
            fs = []
            if a["topo"] != [1]:
                fs.append({"kind": "spec", "what": "cell order handed to the sweep is not downstream-first (C03 hypothesis)"})
            if a["model.ok"] == [0]:
                if not (st == "exc" and out == "ValueError"):
                    fs.append({"kind": "spec", "what": f"{which}_idxs: region of wrong size must raise ValueError, got {st} {out if st == 'exc' else ''}"})
                return fs
            if st == "exc":
                return fs + [{"kind": "spec", "what": f"{which}_idxs raised {out} on a valid region ({kind})"}]
            if len(set(impl)) != len(impl):
                fs.append({"kind": "spec", "what": f"{which}_idxs reports a cell twice", "impl": impl})
            if which == "outflow":
                if a["spec.ok"] == [1] and sorted(impl) != a["spec"]:
                    fs.append({"kind": "spec", "what": "outflow_idxs differs from the declarative outflow cells "
                               "(region cells draining to a pit/outside with no such cell further downstream)",
                               "impl": sorted(impl), "spec": a["spec"]})
            else:
                must, may = set(a["spec.must"]), set(a["spec.may"])
                if not (must <= set(impl) <= may):
                    fs.append({"kind": "spec", "what": "inflow_idxs outside its order-independent bounds "
                               "(entering cells; those without entering cell upstream must be reported)",
                               "impl": sorted(impl), "must": sorted(must), "may": sorted(may)})
                if impl != a["spec.exact"]:
                    fs.append({"kind": "spec", "what": "inflow_idxs differs from the first-kid-chain characterisation",
                               "impl": impl, "spec": a["spec.exact"]})
            if impl != a["model"]:
                fs.append({"kind": "model", "what": f"{which}_idxs: implementation != Lean model", "impl": impl, "model": a["model"]})
            if not dtype_ok:
                fs.append({"kind": "spec", "what": f"{which}_idxs: index dtype not carried through"})
            return fs

        ctx.add(desc, [("c05x_" + which, {"ds": ds, "seq": seq, "region": [int(b) for b in lean_reg]})], judge,
                nontrivial=W["nontriv"] and mixed)


def _case_interbasin(W):
    ctx, rng, flw, ds, n, seq, shape = W["ctx"], W["rng"], W["flw"], W["ds"], W["n"], W["seq"], W["shape"]
    reg, kind = gen_region(rng, ds, shape, W["valid"], W["ups"])
    arr, lean_reg, kind = _region_arg(W, reg, kind)
    stream_np, lean_stream, skind = None, None, "nostream"
    if rng.random() < 0.6:
        s, skind = gen_streams(rng, ds, shape, W["valid"], W["ups"])
        u = rng.random()
        if u < 0.05:
            b = rng.random() < 0.5
            stream_np, lean_stream, skind = np.array([b]), [b], "scalar"
        elif u < 0.1 and n > 2:
            stream_np, lean_stream, skind = np.zeros(n + 1, dtype=bool), [False] * (n + 1), "wrong-size"
        else:
            stream_np, lean_stream = np.array(s, dtype=bool).reshape(shape), s
    ctx.count("x:interbasin:" + kind + "/" + skind)
    st, out = call(lambda: flw.interbasin_mask(arr, stream=stream_np))
    impl = [int(b) for b in np.asarray(out).ravel().tolist()] if st == "ok" else None
    shape_ok = st != "ok" or (out.shape == tuple(shape) and out.dtype == bool)
    desc = {"op": "interbasin_mask", **W["base"], "region": [int(b) for b in lean_reg], "kind": kind,
            "stream": None if lean_stream is None else [int(b) for b in lean_stream], "skind": skind}

    def judge(ans):
        a = ans[0]
        if "__err__" in a:
            return [{"kind": "model", "what": "driver error " + a["__err__"]}]
        fs = []
        if a["topo"] != [1]:
            fs.append({"kind": "spec", "what": "cell order handed to the sweep is not downstream-first (C03 hypothesis)"})
        if a["model.ok"] == [0]:
            if not (st == "exc" and out == "ValueError"):
                fs.append({"kind": "spec", "what": f"interbasin_mask: wrong-size region/stream must raise ValueError, got {st}"})
            return fs
        if st == "exc":
            return fs + [{"kind": "spec", "what": f"interbasin_mask raised {out} on a valid input ({kind}/{skind})"}]
        bad = [i for i in range(len(impl)) if a["spec"][i] != -1 and impl[i] != a["spec"][i]]
        if bad or len(impl) != len(a["spec"]):
            fs.append({"kind": "spec", "what": f"interbasin_mask differs from the declarative mask at cells {bad[:5]} "
                       "(region cells whose flow path never re-enters the region and ends in a pit "
                       "with a stream cell in its basin)", "impl": impl, "spec": a["spec"]})
        if impl != a["model"]:
            fs.append({"kind": "model", "what": "interbasin_mask: implementation != Lean model", "impl": impl, "model": a["model"]})
        if not shape_ok:
            fs.append({"kind": "spec", "what": "interbasin_mask: result is not a bool raster of the object's shape"})
        return fs

    args = {"ds": ds, "seq": seq, "region": [int(b) for b in lean_reg],
            "stream": None if lean_stream is None else [int(b) for b in lean_stream]}
    ctx.add(desc, [("c05x_interbasin", args)], judge, nontrivial=W["nontriv"] and len(set(lean_reg)) > 1)


# ------------------------------------------------------------------------------------------------
def gen_labels(W):
    rng, flw, ds, n, shape, valid = W["rng"], W["flw"], W["ds"], W["n"], W["shape"], W["valid"]
    kind = rng.choice(["basins", "basins", "subbasins", "random", "random-neg", "blocks", "zero", "one"])
    dt = rng.choice(LABEL_DTYPES)
    hi = 120 if dt in (np.uint8, np.int16) else 5000
    if kind == "basins":
        lab = ints(flw.basins())
    elif kind == "subbasins":
        m = rng.randint(1, min(6, len(valid)))
        outlets = list(dict.fromkeys(rng.choice(valid) for _ in range(m)))
        ids = rng.sample(range(1, hi), len(outlets))
        lab = ints(flw.basins(idxs=np.array(outlets), ids=np.array(ids, dtype=np.int64)))
    elif kind == "random":
        pool = rng.sample(range(1, hi), rng.randint(1, 4)) + [0]
        lab = [rng.choice(pool) for _ in range(n)]
    elif kind == "random-neg":
        pool = rng.sample(range(1, hi), rng.randint(1, 3)) + [0, -1, -7]
        lab = [rng.choice(pool) for _ in range(n)]
        dt = rng.choice([np.int32, np.int64, np.int16])
    elif kind == "blocks":
        a, b = rng.randint(1, 3), rng.randint(1, 3)
        lab = [1 + (i // shape[1]) // a * 7 + (i % shape[1]) // b for i in range(n)]
    elif kind == "zero":
        lab = [0] * n
    else:
        lab = [rng.choice([3, 3, 0])] * n
    if dt == np.uint8:
        lab = [x % 250 for x in lab]
    return lab, kind, dt


def _frs(a, scale):
    out = []
    for x in np.asarray(a, dtype=np.float64).ravel().tolist():
        out.append(Fraction(x) * scale)
    return out


def _case_regions(W):
    from pyflwdir import regions, gis_utils
    from affine import Affine
    ctx, rng, n, shape = W["ctx"], W["rng"], W["n"], W["shape"]
    nrow, ncol = shape
    lab, kind, dt = gen_labels(W)
    ctx.count("x:labels:" + kind)
    reg_np = np.array(lab, dtype=dt).reshape(shape)
    lab = ints(reg_np)
    nontriv = len(set(x for x in lab if x > 0)) >= 2
    xres, yres, x0, y0 = W["tr"]
    base = {"shape": list(shape), "regions": lab, "ldtype": np.dtype(dt).name, "kind": kind}

    # ---- region_sum
    ddt = rng.choice([np.float64, np.float32, np.int32])
    if ddt == np.int32:
        data = [rng.randint(-20, 40) for _ in range(n)]
    else:
        data = [rng.randint(-80, 160) / 4 for _ in range(n)]
    st, out = call(lambda: regions.region_sum(np.array(data, dtype=ddt).reshape(shape), reg_np))
    data4 = [int(Fraction(x) * 4) for x in data]

    def judge_sum(ans, st=st, out=out):
        a = ans[0]
        if "__err__" in a:
            return [{"kind": "model", "what": "driver error " + a["__err__"]}]
        if st == "exc":
            return [{"kind": "spec", "what": f"region_sum raised {out} on a valid input"}]
        lbs, sums = ints(out[0]), _frs(out[1], 4)
        fs = []
        if lbs != a["spec.lbs"] or sums != [Fraction(v) for v in a["spec.sums"]]:
            fs.append({"kind": "spec", "what": "region_sum differs from the per-label sums over the sorted positive labels",
                       "impl": [lbs, [float(s) / 4 for s in sums]], "spec": [a["spec.lbs"], a["spec.sums"]]})
        if sum(sums) != Fraction(a["spec.total"][0]):
            fs.append({"kind": "spec", "what": "region_sum: the sums do not add up to the total over all positive cells"})
        if lbs != a["model.lbs"] or sums != [Fraction(v) for v in a["model.sums"]]:
            fs.append({"kind": "model", "what": "region_sum: implementation != Lean model",
                       "impl": [lbs, [float(s) / 4 for s in sums]], "model": [a["model.lbs"], a["model.sums"]]})
        if out[0].dtype != reg_np.dtype:
            fs.append({"kind": "spec", "what": "region_sum: labels do not keep the dtype of the regions"})
        return fs

    ctx.add({"op": "region_sum", **base, "data4": data4}, [("c05x_region_sum", {"data": data4, "regions": lab})],
            judge_sum, nontrivial=nontriv)

    # ---- region_area
    if rng.random() < 0.6:
        transform = W["transform"]
        st, out = call(lambda: regions.region_area(reg_np, transform=transform, latlon=False))
        sc2 = DEN * DEN

        def judge_area(ans, st=st, out=out):
            a = ans[0]
            if "__err__" in a:
                return [{"kind": "model", "what": "driver error " + a["__err__"]}]
            if st == "exc":
                return [{"kind": "spec", "what": f"region_area raised {out} on a valid input"}]
            lbs, ar = ints(out[0]), _frs(out[1], sc2)
            fs = []
            if lbs != a["spec.lbs"] or ar != [Fraction(v) for v in a["spec.areas"]]:
                fs.append({"kind": "spec", "what": "region_area (projected) is not cell count x |xres*yres| per label",
                           "impl": [lbs, [float(v) / sc2 for v in ar]], "spec": [a["spec.lbs"], a["spec.areas"]]})
            if lbs != a["model.lbs"] or ar != [Fraction(v) for v in a["model.areas"]]:
                fs.append({"kind": "model", "what": "region_area: implementation != Lean model"})
            return fs

        ctx.add({"op": "region_area", **base, "transform": W["base"]["transform"], "latlon": False},
                [("c05x_region_area", {"regions": lab, "mode": 0, "xres": sc(xres), "yres": sc(yres)})],
                judge_area, nontrivial=nontriv)
    else:
        gx, gy = rng.choice(GEO)
        gx0 = float(rng.randint(-40, 40))
        gy0 = float(rng.randint(-20, 30)) if gy > 0 else float(rng.randint(-20 + nrow, 60))
        gtr = Affine(gx, 0.0, gx0, 0.0, gy, gy0)
        grid = gis_utils.area_grid(gtr, shape, latlon=True)
        rows_const = bool(np.all(grid == grid[:, :1]))
        karea = max([KAREA] + [Fraction(float(v)).denominator.bit_length() - 1 for v in grid[:, 0].tolist()])
        rowarea = [int(Fraction(float(v)) * 2 ** karea) for v in grid[:, 0].tolist()]
        exact_scale = all(Fraction(float(v)) * 2 ** karea == r for v, r in zip(grid[:, 0].tolist(), rowarea))
        st, out = call(lambda: regions.region_area(reg_np, transform=gtr, latlon=True))

        def judge_garea(ans, st=st, out=out, karea=karea, rows_const=rows_const, exact_scale=exact_scale):
            a = ans[0]
            if "__err__" in a:
                return [{"kind": "model", "what": "driver error " + a["__err__"]}]
            if st == "exc":
                return [{"kind": "spec", "what": f"region_area(latlon) raised {out} on a valid input"}]
            if not rows_const or not exact_scale:
                return [{"kind": "model", "what": "area_grid is not constant per row / not representable at the chosen scale"}]
            lbs, ar = ints(out[0]), _frs(out[1], 2 ** karea)
            fs = []
            # float64 accumulation of positive addends: relative error <= (n-1) * 2^-53 whatever the order
            tol = Fraction(n, 2 ** 52)
            for name, kindf in (("spec", "spec"), ("model", "model")):
                ref = [Fraction(v) for v in a[name + ".areas"]]
                if lbs != a[name + ".lbs"] or len(ar) != len(ref) or any(abs(x - r) > tol * r for x, r in zip(ar, ref)):
                    fs.append({"kind": kindf, "what": f"region_area(latlon) differs from the exact sum of the cell areas ({name})",
                               "impl": [lbs, [float(v) for v in ar]], name: [a[name + ".lbs"], a[name + ".areas"]]})
            return fs

        ctx.add({"op": "region_area", **base, "transform": [gx, 0.0, gx0, 0.0, gy, gy0], "latlon": True},
                [("c05x_region_area", {"regions": lab, "mode": 1, "ncol": ncol, "rowarea": rowarea})],
                judge_garea, nontrivial=nontriv)

    # ---- region_slices + region_bounds
    transform = W["transform"]
    st1, out1 = call(lambda: regions.region_slices(reg_np))
    st2, out2 = call(lambda: regions.region_bounds(reg_np, transform=transform))
    _add_bounds(W, {"op": "region_bounds", **base, "transform": W["base"]["transform"]}, "c05x_region_bounds",
                {"regions": lab, "ncol": ncol, **targs(xres, yres, x0, y0)}, st2, out2, (st1, out1), nontriv)


def _add_bounds(W, desc, op, args, st, out, slices, nontriv):
    ctx = W["ctx"]
    s2 = 2 * DEN

    def judge(ans):
        a = ans[0]
        if "__err__" in a:
            return [{"kind": "model", "what": "driver error " + a["__err__"]}]
        fs = []
        if slices is not None:
            st1, out1 = slices
            if a["model.slices_ok"] == [0]:
                if not (st1 == "exc" and out1 == "ValueError"):
                    fs.append({"kind": "spec", "what": "region_slices without a positive label must raise ValueError"})
            elif st1 == "exc":
                fs.append({"kind": "spec", "what": f"region_slices raised {out1} on a valid label map"})
            else:
                lbs1, sl = ints(out1[0]), out1[1]
                flat = []
                ok = all(s[0].step is None and s[1].step is None for s in sl)
                for ys, xs in sl:
                    flat += [ys.start, ys.stop, xs.start, xs.stop]
                if not ok or lbs1 != a["model.lbs"] or flat != a["model.slices"]:
                    fs.append({"kind": "model", "what": "region_slices: implementation != Lean model", "impl": [lbs1, flat],
                               "model": [a["model.lbs"], a["model.slices"]]})
        if a["model.ok"] == [0] or a["spec.ok"] == [0]:
            if a["model.ok"] != a["spec.ok"]:
                fs.append({"kind": "model", "what": "model and spec disagree on the error case"})
            if not (st == "exc" and out == "ValueError"):
                fs.append({"kind": "spec", "what": f"{desc['op']}: no positive label / wrong shape must raise ValueError, got {st}"})
            return fs
        if st == "exc":
            return fs + [{"kind": "spec", "what": f"{desc['op']} raised {out} on a valid input"}]
        lbs, bb, tot = ints(out[0]), _frs(out[1], s2), _frs(out[2], s2)
        ok_shape = np.asarray(out[1]).shape == (len(lbs), 4) and np.asarray(out[2]).shape == (4,)
        sp = [Fraction(v) for v in a["spec.bboxes"]]
        if not ok_shape or lbs != a["spec.lbs"] or bb != sp or tot != [Fraction(v) for v in a["spec.total"]]:
            fs.append({"kind": "spec", "what": f"{desc['op']}: bounding boxes are not the hulls of the cells of each label "
                       "[xmin, ymin, xmax, ymax] / total box not the hull of all labelled cells",
                       "impl": [lbs, [float(v) / s2 for v in bb], [float(v) / s2 for v in tot]],
                       "spec": [a["spec.lbs"], [v / s2 for v in a["spec.bboxes"]], [v / s2 for v in a["spec.total"]]]})
        if lbs != a["model.lbs"] or bb != [Fraction(v) for v in a["model.bboxes"]] or tot != [Fraction(v) for v in a["model.total"]]:
            fs.append({"kind": "model", "what": f"{desc['op']}: implementation != Lean model",
                       "impl": [lbs, [float(v) / s2 for v in bb]], "model": [a["model.lbs"], [v / s2 for v in a["model.bboxes"]]]})
        return fs

    ctx.add(desc, [(op, args)], judge, nontrivial=nontriv)


def _case_basin_bounds(W):
    ctx, rng, flw, ds, n, seq, shape, valid = (W["ctx"], W["rng"], W["flw"], W["ds"], W["n"], W["seq"], W["shape"], W["valid"])
    xres, yres, x0, y0 = W["tr"]
    mode = rng.choice(["default", "default", "map", "map", "outlets", "scalar", "wrong-shape"])
    ctx.count("x:basin_bounds:" + mode)
    args = {"ds": ds, "seq": seq, "pits": W["pits"], "ncol": shape[1], **targs(xres, yres, x0, y0)}
    desc = {"op": "basin_bounds", **W["base"], "mode": mode}
    if mode == "default":
        st, out = call(lambda: flw.basin_bounds())
    elif mode == "outlets":
        m = rng.randint(1, min(5, len(valid)))
        outlets = [rng.choice(valid) for _ in range(m)]
        st, out = call(lambda: flw.basin_bounds(idxs=np.array(outlets)))
        args["pits"] = outlets
        desc["idxs"] = outlets
    elif mode == "map":
        lab, kind, dt = gen_labels(W)
        arr = np.array(lab, dtype=dt).reshape(shape)
        lab = ints(arr)
        st, out = call(lambda: flw.basin_bounds(basins=arr))
        args["basins"] = lab
        desc["basins"] = lab
    elif mode == "scalar":
        v = rng.choice([0, 4])
        st, out = call(lambda: flw.basin_bounds(basins=np.array([v], dtype=np.int32)))
        args["basins"] = [v]
        desc["basins"] = [v]
    else:
        if shape[0] == shape[1] or n < 2:
            arr = np.ones(n + 1, dtype=np.int32)
        else:
            arr = np.ones((shape[1], shape[0]), dtype=np.int32)
        st, out = call(lambda: flw.basin_bounds(basins=arr))
        args["basins"] = [1] * (n + 1)       # any size the wrapper rejects
        desc["basins_shape"] = list(arr.shape)
    _add_bounds(W, desc, "c05x_basin_bounds", args, st, out, None, W["nontriv"])


# ------------------------------------------------------------------------------------------------
def _case_basins_snap(W):
    ctx, rng, flw, ds, n, seq, shape, valid = (W["ctx"], W["rng"], W["flw"], W["ds"], W["n"], W["seq"], W["shape"], W["valid"])
    nrow, ncol = shape
    xres, yres, x0, y0 = W["tr"]
    m = rng.randint(1, min(6, len(valid)))
    outlets = [rng.choice(valid) for _ in range(m)]
    if rng.random() < 0.1:
        outlets.append(rng.randrange(n))           # any cell of the raster, also outside the network
    s, skind = gen_streams(rng, ds, shape, valid, W["ups"])
    u = rng.random()
    if u < 0.05:
        b = rng.random() < 0.5
        streams_np, lean_s, skind = np.array(b), [b], "scalar"
    elif u < 0.1:
        streams_np, lean_s, skind = np.zeros(n + 3, dtype=bool), [False] * (n + 3), "wrong-size"
    elif u < 0.18:
        streams_np, lean_s, skind = None, None, "nostream"
    else:
        streams_np, lean_s = np.array(s, dtype=bool).reshape(shape), s
    idm = rng.choice(["none", "rand", "rand", "zero", "size"])
    if idm == "none":
        ids_np, lean_ids = None, None
    elif idm == "rand":
        lean_ids = rng.sample(range(1, 5000), len(outlets))
        ids_np = np.array(lean_ids, dtype=rng.choice([np.uint32, np.int64]))
    elif idm == "zero":
        lean_ids = [rng.randint(1, 9) for _ in outlets]
        lean_ids[rng.randrange(len(outlets))] = 0
        ids_np = np.array(lean_ids, dtype=np.int64)
    else:
        lean_ids = list(range(1, len(outlets) + 2))
        ids_np = np.array(lean_ids, dtype=np.int64)
    via = rng.choice(["idxs", "idxs", "xy"])
    kw = {} if streams_np is None else {"streams": streams_np}
    args = {"ds": ds, "seq": seq, "pits": W["pits"], "streams": None if lean_s is None else [int(b) for b in lean_s],
            "ids": lean_ids, "fuel": n + 2}
    desc = {"op": "basins+snap", **W["base"], "outlets": outlets, "streams": args["streams"], "skind": skind,
            "ids": lean_ids, "via": via}
    if via == "idxs":
        st, out = call(lambda: flw.basins(idxs=np.array(outlets, dtype=np.int64), ids=ids_np, **kw))
        args["idxs"] = outlets
    else:
        xs, ys = [], []
        # cell edges only where the inverse transform is exact in binary floating point
        lox = 0 if abs(xres) in (0.25, 0.5, 1.0, 2.0) else 1
        loy = 0 if abs(yres) in (0.25, 0.5, 1.0, 2.0) else 1
        for o in outlets:
            r, c = divmod(o, ncol)
            xs.append(Fraction(x0) + (c + Fraction(rng.randint(lox, 7), 8)) * Fraction(xres))
            ys.append(Fraction(y0) + (r + Fraction(rng.randint(loy, 7), 8)) * Fraction(yres))
        if rng.random() < 0.1:      # one point off the raster
            xs[0] = Fraction(x0) + (ncol + 1) * Fraction(xres) * rng.choice([1, -1])
        den = 64 * DEN
        st, out = call(lambda: flw.basins(xy=(np.array([float(x) for x in xs]), np.array([float(y) for y in ys])), ids=ids_np, **kw))
        args.update({"xs": [int(x * den) for x in xs], "ys": [int(y * den) for y in ys], "nrow": nrow, "ncol": ncol,
                     "x0": int(Fraction(x0) * den), "y0": int(Fraction(y0) * den),
                     "xres": int(Fraction(xres) * den), "yres": int(Fraction(yres) * den)})
        desc["xy"] = [[float(x) for x in xs], [float(y) for y in ys]]
    ctx.count(f"x:snap:{via}/{skind}/{idm}")
    impl = ints(out) if st == "ok" else None
    expect_dtype = np.uint32 if ids_np is None else ids_np.dtype
    dtype_ok = st != "ok" or (out.dtype == expect_dtype and out.shape == tuple(shape))
    ERR = {1: "ValueError", 2: "IndexError"}

    def judge(ans):
        a = ans[0]
        if "__err__" in a:
            return [{"kind": "model", "what": "driver error " + a["__err__"]}]
        fs = []
        if a["topo"] != [1]:
            fs.append({"kind": "spec", "what": "cell order handed to the sweep is not downstream-first (C03 hypothesis)"})
        e = a["model.err"][0]
        if e == 3:
            return fs + [{"kind": "model", "what": "model ran out of fuel on a loop-free network"}]
        if e != 0:
            if not (st == "exc" and out == ERR[e]):
                fs.append({"kind": "spec", "what": f"basins(..., streams=) must raise {ERR[e]} here "
                           f"(ids with zero / wrong sizes / point outside the raster), got {st} {out if st == 'exc' else ''}"})
            return fs
        if st == "exc":
            return fs + [{"kind": "spec", "what": f"basins(..., streams=) raised {out} on a valid input ({via}/{skind}/{idm})"}]
        if impl != a["spec"]:
            bad = [i for i in range(len(impl)) if impl[i] != a["spec"][i]][:5]
            fs.append({"kind": "spec", "what": f"basins with snapping differs from the basins of the snapped outlets "
                       f"(first True cell of streams / pit downstream) at cells {bad}", "impl": impl, "spec": a["spec"],
                       "snapped": a["spec.snapped"]})
        if impl != a["model"]:
            fs.append({"kind": "model", "what": "basins(..., streams=): implementation != Lean model", "impl": impl, "model": a["model"]})
        if not dtype_ok:
            fs.append({"kind": "spec", "what": f"basins(..., streams=): dtype/shape not as documented: {out.dtype} {out.shape}"})
        return fs

    ctx.add(desc, [("c05x_basins_snap", args)], judge, nontrivial=W["nontriv"] and skind not in ("scalar", "wrong-size", "nostream"))
