"""C06 - depression filling: correspondence of dem.fill_depressions / gis_utils.get_edge /
pyflwdir.from_dem with the Lean model (eq) and with the decidable certificate `fillCertOk`
(proved sound in Props/C06.lean: accepted output = exact minimax spill surface + loop-free D8
network to the outlets), evaluated on the implementation's output for every case.

Numbers: every raster is scaled to exact integers (all values are binary floats m*2^e; the common
denominator is a power of two), so comparisons are exact; the code only compares and copies
elevations.  NaN / nodata cells travel as a mask."""
import itertools
import math
from fractions import Fraction

import os
import numpy as np

from common import canon_idx, ints

OPS = ["fill_depressions(edge)", "fill_depressions(min)", "fill_depressions(idxs_pit)", "get_edge", "from_dem",
       "fill_depressions(twice)", "fill_depressions(max_depth>=0)", "fill_depressions(elv_max)", "from_dem(max_depth>=0)",
       "fill_depressions(max_depth<0)", "from_dem(max_depth<0)"]
RULE = ("elevation rasters <= 64 cells (quick) / <= 900 (thorough) of dtype int32/float32/float64: small-level "
        "random surfaces (plateaus, ties), bowls and nested bowls, ridged surfaces, 1xN / Nx1 profiles, dyadic and "
        "arbitrary random floats, huge int32, nodata holes/blocks/frames incl. NaN nodata; connectivity 4 and 8; "
        "outlets edge / min / user cells (with duplicates); exhaustive 3x3 over 3 levels and 1-D profiles of "
        "length <= 7 over 4 levels in the thorough tier. non-trivial = >= 2 valid cells and >= 1 cell whose filled "
        "elevation differs from the input; distinct = SHA-1 of the case description. narrow integer DEMs (uint8 / uint16 / "
        "int8 / int16, <= 64 cells): values over the whole range of the dtype (uniform, small surfaces stretched to "
        "[min, max], surfaces anchored at min / max / 0 / the values a dtype cast would turn the nodata value into), "
        "nodata = the default argument (omitted or -9999.0), a value no cell of the dtype can hold (out of range on "
        "either side, non-integral, 1e20, NaN: every cell is valid) or an explicit in-range value (min, max, 0, a cast "
        "image of -9999, random) with nodata holes. unlimited fill depth is requested in every documented spelling: "
        "max_depth omitted (default), -1.0, or any other negative number (python int or float: -1, -2, -0.5, -1e-9, "
        "-9999, -1e300, -inf, random negative ints / floats of any magnitude), through fill_depressions (both "
        "applications) and from_dem; all are judged against the unlimited-fill model / certificate / minimax oracle. "
        "float32 / float64 DEMs whose VALID cells lie next to a finite nodata value (-9999 also as the omitted default, 0, "
        "-32768, +-1, 255, 32767, +-1e20, 9.97e36, +-float32 max, -9999.9 / 0.1 / random values that float32 cannot "
        "represent, random integers): whole surfaces in steps of h around nodata (cells on both sides) or ordinary surfaces "
        "with 1..4 such cells, h = 1..1024 ulp, 1e-9..1e-3 relative, absolute 1e-9..0.3 (around 0: 1e-10..1e-6, 2**-40.. "
        "2**-20, 1e-30..1e-12); a cell is nodata iff it holds the nodata value (float32 raster and a value single precision "
        "cannot represent: iff it holds the float32 image of the value, which is what the interpreted library decides)")

DTYPES = ["int32", "float32", "float64"]
NARROW = ["uint8", "uint16", "int8", "int16"]

# documented: "A negative value (default) equals an infinitely large pour point depth causing all depressions to be
# filled" - every negative max_depth (python int or float, any magnitude) is a spelling of the unlimited fill
NEG_DEPTHS = [-1.0, -1, -2, -2.0, -0.5, -1e-9, -9999, -9999.0, float("-inf"), -1e300, -5e-324, -3]


def gen_neg_depth(rng):
    """a negative max_depth: one of the fixed spellings, or a random negative int / float of any magnitude"""
    u = rng.random()
    if u < 0.6:
        return rng.choice(NEG_DEPTHS)
    if u < 0.75:
        return -rng.randint(1, 10 ** rng.randint(1, 9))
    if u < 0.9:
        return -(rng.random() + 2.0 ** -40) * 10.0 ** rng.randint(-12, 12)
    return -float(rng.randint(1, 100)) / rng.choice([1, 2, 4, 8, 1024])


def neg_depth_name(md):
    if md in NEG_DEPTHS:
        return "%s:%r" % (type(md).__name__, md)
    return "%s:random(%s)" % (type(md).__name__, "|x|<1" if abs(md) < 1 else "|x|>=1")


# ----------------------------------------------------------------------------------------------
# exact numbers
# ----------------------------------------------------------------------------------------------
def _frac(x):
    return Fraction(int(x)) if isinstance(x, (int, np.integer)) else Fraction(float(x))


def scale_of(values):
    """common (power of two) denominator of a list of finite binary floats / ints"""
    den = 1
    for v in values:
        d = _frac(v).denominator
        if d > den:
            den = d
    return den


def to_scaled(v, den):
    """exact integer v*den, or None if v is not finite / not representable on the grid 1/den"""
    if isinstance(v, (float, np.floating)) and not math.isfinite(float(v)):
        return None
    f = _frac(v) * den
    return int(f) if f.denominator == 1 else None


def holds(dtype, nodata):
    """can a cell of an integer dtype hold the value `nodata` (exact, no cast)?"""
    if not math.isfinite(nodata) or nodata != math.floor(nodata):
        return False
    ii = np.iinfo(dtype)
    return ii.min <= int(nodata) <= ii.max


def nodata_mask(elev, nodata):
    """the cells that hold the nodata value, decided on exact numbers (never through a cast of `nodata` to the
    dtype of the raster: a value the dtype cannot represent is held by no cell)"""
    if elev.dtype.kind in "iu":
        if not holds(elev.dtype, nodata):
            return np.zeros(elev.shape, dtype=bool)
        nd = int(nodata)
        return np.array([v == nd for v in elev.ravel().tolist()], dtype=bool).reshape(elev.shape)
    if isinstance(nodata, float) and math.isnan(nodata):
        return np.isnan(elev)
    return elev == nodata


def jit_enabled():
    import os
    return os.environ.get("NUMBA_DISABLE_JIT", "0") != "1"


def same_bits(a, b):
    """bitwise equality of two scalars of the same dtype (NaN == NaN)"""
    a, b = np.asarray(a), np.asarray(b)
    return a.dtype == b.dtype and a.tobytes() == b.tobytes()


# ----------------------------------------------------------------------------------------------
# trivial independent oracle (Python): minimax spill level by Bellman-Ford relaxation
# ----------------------------------------------------------------------------------------------
def nbrs_of(i, shape, conn):
    nrow, ncol = shape
    r, c = divmod(i, ncol)
    out = []
    for dr in (-1, 0, 1):
        for dc in (-1, 0, 1):
            if (dr == 0 and dc == 0) or (conn == 4 and dr != 0 and dc != 0):
                continue
            r1, c1 = r + dr, c + dc
            if 0 <= r1 < nrow and 0 <= c1 < ncol:
                out.append(r1 * ncol + c1)
    return out


def edge_cells(valid, shape, conn):
    n = shape[0] * shape[1]
    nfull = 4 if conn == 4 else 8
    out = []
    for i in range(n):
        if not valid[i]:
            continue
        nb = nbrs_of(i, shape, conn)
        if len(nb) < nfull or any(not valid[j] for j in nb):
            out.append(i)
    return out


def minimax_oracle(elev_i, valid, shape, conn, seeds):
    """elev_i: exact ints. returns list: spill level per cell, None = not connected to a seed"""
    n = len(elev_i)
    lvl = [None] * n
    for s in seeds:
        lvl[s] = elev_i[s]
    nb = {i: [j for j in nbrs_of(i, shape, conn) if valid[j]] for i in range(n) if valid[i]}
    changed = True
    while changed:
        changed = False
        for i in nb:
            best = lvl[i]
            for j in nb[i]:
                if lvl[j] is None:
                    continue
                cand = max(elev_i[i], lvl[j])
                if best is None or cand < best:
                    best = cand
            if best != lvl[i]:
                lvl[i] = best
                changed = True
    return lvl


# ----------------------------------------------------------------------------------------------
# generators
# ----------------------------------------------------------------------------------------------
def gen_shape(rng, max_cells, max_side):
    u = rng.random()
    if u < 0.08:
        return (1, rng.randint(2, min(max_cells, max_side + 4)))
    if u < 0.16:
        return (rng.randint(2, min(max_cells, max_side + 4)), 1)
    if u < 0.22:
        return (2, rng.randint(2, max_side))
    while True:
        r, c = rng.randint(2, max_side), rng.randint(2, max_side)
        if r * c <= max_cells:
            return (r, c)


def gen_surface(rng, shape):
    """integer-valued surface (list of ints, row-major) + family name"""
    nrow, ncol = shape
    n = nrow * ncol
    fam = rng.choice(["levels", "levels", "levels", "bowl", "nested", "ridges", "random", "plateau", "walls"])
    if fam == "levels":
        k = rng.choice([1, 2, 2, 3, 4, 6])
        z = [rng.randint(0, k) for _ in range(n)]
    elif fam == "random":
        z = [rng.randint(-50, 50) for _ in range(n)]
    elif fam == "plateau":
        base = rng.randint(0, 5)
        z = [base] * n
        for _ in range(rng.randint(1, 4)):
            r0, c0 = rng.randrange(nrow), rng.randrange(ncol)
            r1, c1 = rng.randint(r0, nrow - 1), rng.randint(c0, ncol - 1)
            v = rng.randint(0, 6)
            for r in range(r0, r1 + 1):
                for c in range(c0, c1 + 1):
                    z[r * ncol + c] = v
    elif fam in ("bowl", "nested"):
        # distance-based bowl(s): low centre, high rim, optionally an inner bowl behind an inner rim
        r0, c0 = rng.randrange(nrow), rng.randrange(ncol)
        z = [0] * n
        rim = rng.randint(1, max(1, max(nrow, ncol) // 2))
        for r in range(nrow):
            for c in range(ncol):
                d = max(abs(r - r0), abs(c - c0)) if rng.random() < 0.9 else abs(r - r0) + abs(c - c0)
                if fam == "bowl":
                    v = 2 * d if d <= rim else 2 * rim - (d - rim)
                else:
                    # nested: sawtooth profile -> depressions inside depressions
                    v = (d % 3) * 3 + d if d <= 2 * rim else 5 * rim - d
                z[r * ncol + c] = v + (rng.randint(0, 1) if rng.random() < 0.3 else 0)
    elif fam == "ridges":
        per = rng.randint(2, 4)
        z = [((r % per == 0) + (c % per == 0)) * rng.randint(2, 5) + rng.randint(0, 1) for r in range(nrow) for c in range(ncol)]
        # breach some ridge cells
        for _ in range(rng.randint(0, 3)):
            z[rng.randrange(n)] = 0
    else:  # walls: closed rectangle of high cells around a low interior, one optional gap
        z = [rng.randint(0, 2) for _ in range(n)]
        if nrow >= 3 and ncol >= 3:
            r0, c0 = rng.randint(0, nrow - 3), rng.randint(0, ncol - 3)
            r1, c1 = rng.randint(r0 + 2, nrow - 1), rng.randint(c0 + 2, ncol - 1)
            h = rng.randint(4, 9)
            ring = [(r, c) for r in range(r0, r1 + 1) for c in range(c0, c1 + 1) if r in (r0, r1) or c in (c0, c1)]
            for r, c in ring:
                z[r * ncol + c] = h
            if rng.random() < 0.5:
                r, c = rng.choice(ring)
                z[r * ncol + c] = rng.randint(1, h - 1)
    return z, fam


def gen_mask(rng, shape):
    """nodata mask (True = nodata) + family"""
    nrow, ncol = shape
    n = nrow * ncol
    u = rng.random()
    if u < 0.4:
        return [False] * n, "none"
    if u < 0.65:
        p = rng.choice([0.05, 0.15, 0.35])
        return [rng.random() < p for _ in range(n)], "holes"
    if u < 0.8:
        m = [False] * n
        r0, c0 = rng.randrange(nrow), rng.randrange(ncol)
        r1, c1 = rng.randint(r0, min(nrow - 1, r0 + 2)), rng.randint(c0, min(ncol - 1, c0 + 2))
        for r in range(r0, r1 + 1):
            for c in range(c0, c1 + 1):
                m[r * ncol + c] = True
        return m, "block"
    if u < 0.9:
        # nodata frame / partial frame: edge of the valid area differs from the raster border
        m = [False] * n
        sides = rng.sample(["n", "s", "w", "e"], rng.randint(1, 4))
        for r in range(nrow):
            for c in range(ncol):
                if ("n" in sides and r == 0) or ("s" in sides and r == nrow - 1) or \
                   ("w" in sides and c == 0) or ("e" in sides and c == ncol - 1):
                    m[r * ncol + c] = True
        return m, "frame"
    # diagonal line of nodata: separates components for connectivity 4 only... and 8 leaks through
    m = [False] * n
    for r in range(nrow):
        c = r + rng.choice([0, 0, 1])
        if 0 <= c < ncol:
            m[r * ncol + c] = True
    return m, "diagonal"


def gen_values(rng, z, dtype):
    """turn the integer surface into dtype values: returns python list of numbers + value family"""
    if dtype == "int32":
        u = rng.random()
        if u < 0.1:
            off = rng.choice([2_000_000_000, -2_000_000_000, 16_777_217])
            return [int(max(-2**31 + 1, min(2**31 - 1, off + v))) for v in z], "int-huge"
        return [int(v) for v in z], "int"
    u = rng.random()
    if u < 0.45:
        return [float(v) for v in z], "integral"
    if u < 0.6:
        return [v / 8.0 + 0.125 * rng.randint(0, 3) for v in z], "dyadic"
    if u < 0.85:
        # arbitrary floats of the dtype (order of the surface kept, random fractional parts)
        if dtype == "float32":
            return [float(np.float32(v + rng.random())) for v in z], "random-float"
        return [v + rng.random() for v in z], "random-float"
    if u < 0.93:
        # values one ulp apart (ties after rounding would show)
        base = np.float32(1.0) if dtype == "float32" else np.float64(1.0)
        eps = np.finfo(base.dtype).eps
        return [float(base + eps * (v % 7)) for v in z], "ulp"
    if dtype == "float32":
        return [float(np.float32((v + rng.random()) * 1e-3)) for v in z], "small-float"
    return [(v + rng.random()) * 1e6 for v in z], "large-float"


def gen_case(rng, max_cells, max_side):
    shape = gen_shape(rng, max_cells, max_side)
    n = shape[0] * shape[1]
    z, fam = gen_surface(rng, shape)
    mask, mfam = gen_mask(rng, shape)
    if all(mask):
        mask[rng.randrange(n)] = False
    dtype = rng.choice(DTYPES)
    vals, vfam = gen_values(rng, z, dtype)
    # nodata value
    if dtype == "int32":
        nodata = rng.choice([-9999.0, -9999.0, -1.0, 123456.0])
    else:
        nodata = rng.choice([-9999.0, -9999.0, float("nan"), float("nan"), -1.0])
    nd_is_nan = isinstance(nodata, float) and math.isnan(nodata)
    if not nd_is_nan:
        # keep valid cells distinct from the nodata value
        vals = [v if v != nodata else v + 1 for v in vals]
    data = [(nodata if mask[i] else vals[i]) for i in range(n)]
    conn = rng.choice([4, 8])
    valid_idx = [i for i in range(n) if not mask[i]]
    u = rng.random()
    idxs_pit = None
    outlets = "edge"
    if u < 0.35:
        outlets = "edge"
    elif u < 0.65:
        outlets = "min"
    else:
        k = rng.randint(1, min(4, len(valid_idx)))
        idxs_pit = [rng.choice(valid_idx) for _ in range(k)]
        if rng.random() < 0.15:
            outlets = "min"   # restricts the user cells to their lowest
    desc = {"op": "fill_depressions", "shape": list(shape), "dtype": dtype, "elevtn": data, "nodata": nodata,
            "connectivity": conn, "outlets": outlets, "idxs_pit": idxs_pit,
            "family": f"{fam}/{mfam}/{vfam}"}
    # optional arguments: elv_max (edge outlets only at/below it) and max_depth >= 0 (pour-point depth limit;
    # only on value families whose differences are exact in float64 and comparable with max_depth exactly)
    valid_vals = sorted(vals[i] for i in valid_idx)
    if rng.random() < 0.18 and (idxs_pit is None or rng.random() < 0.2):
        u = rng.random()
        if u < 0.15:
            desc["elv_max"] = float(valid_vals[0]) - 1.0          # below everything -> ValueError
        elif u < 0.3:
            desc["elv_max"] = float(valid_vals[-1])              # no restriction
        else:
            desc["elv_max"] = float(rng.choice(valid_vals))        # ties with a cell value (<=)
    if vfam in ("int", "integral", "dyadic") and rng.random() < 0.3:
        span = float(valid_vals[-1]) - float(valid_vals[0])
        desc["max_depth"] = rng.choice([0.0, 0.0, 0.125, 0.5, 1.0, 1.0, 2.0, 3.0, max(0.0, span / 2), span, span + 1.0])
    elif rng.random() < 0.4:
        desc["max_depth"] = gen_neg_depth(rng)      # unlimited fill, spelled out (else: the default argument)
    return desc


# ----------------------------------------------------------------------------------------------
# narrow integer DEMs (uint8 / uint16 / int8 / int16) over the whole range of the dtype
# ----------------------------------------------------------------------------------------------
def cast_images(nodata, dtype):
    """the values of `dtype` that a conversion of `nodata` to the dtype could yield (wrap-around of the truncated /
    floored / rounded value and of its magnitude, saturation at either end, 0 for a value without an integer part):
    cells holding such a value are the ones a comparison in the wrong dtype confuses with nodata.  Empty for a
    value the dtype holds exactly (then the value itself is the nodata value)."""
    ii = np.iinfo(dtype)
    if holds(dtype, nodata):
        return []
    out = {0, ii.min, ii.max}
    if math.isfinite(nodata) and abs(nodata) < 2.0**63:
        m = ii.max - ii.min + 1
        for t in {math.trunc(nodata), math.floor(nodata), math.ceil(nodata)}:
            for v in (t, -t, abs(t) - 1, ~t):
                out.add((v - ii.min) % m + ii.min)
    return sorted(out)


def unrepresentable_nodata(rng, dtype):
    ii = np.iinfo(dtype)
    cand = [-9999.0, -9999.0, float(ii.max + 1), float(ii.min - 1), float(2 * (ii.max + 1) + rng.randint(0, ii.max)),
            float(ii.min - 1 - rng.randint(0, 40000)), -32768.0, 65535.0, 255.0, -1.0, 1e20, -1e20, 3.4028234663852886e38,
            float("nan"), rng.randint(ii.min, ii.max - 1) + 0.5, -9999.5]
    cand = [v for v in cand if not holds(dtype, v)]
    return rng.choice(cand)


def gen_outlets(rng, valid_idx):
    u = rng.random()
    if u < 0.4:
        return "edge", None
    if u < 0.7:
        return "min", None
    pits = [rng.choice(valid_idx) for _ in range(rng.randint(1, min(4, len(valid_idx))))]
    return ("min" if rng.random() < 0.15 else "edge"), pits


def gen_narrow_case(rng, max_cells, max_side):
    shape = gen_shape(rng, max_cells, max_side)
    n = shape[0] * shape[1]
    z, fam = gen_surface(rng, shape)
    dtype = rng.choice(NARROW)
    ii = np.iinfo(dtype)
    lo, hi = int(ii.min), int(ii.max)
    # nodata: the default, a value the dtype cannot hold, or an explicit value of the dtype
    u = rng.random()
    default = False
    if u < 0.4:
        nodata, default, nfam = -9999.0, rng.random() < 0.7, "default"
    elif u < 0.62:
        nodata, nfam = unrepresentable_nodata(rng, dtype), "unrepresentable"
    else:
        imgs = cast_images(-9999.0, dtype)
        nodata = float(rng.choice([lo, hi, lo, hi, 0 if lo <= 0 else lo + 1, rng.randint(lo, hi), rng.randint(lo, hi)]
                                  + ([rng.choice(imgs)] * 2 if imgs else [])))
        nfam = "in-range"
    held = holds(dtype, nodata)
    if held:
        nd_i = int(nodata)
        mask, mfam = gen_mask(rng, shape)
        if all(mask):
            mask[rng.randrange(n)] = False
        special = [lo, hi, lo + 1, hi - 1, 0, nd_i - 1, nd_i + 1]
    else:
        nd_i = None
        mask, mfam = [False] * n, "none"
        special = [lo, hi, lo + 1, hi - 1, 0] + cast_images(nodata, dtype) * 3
    special = [v for v in special if lo <= v <= hi and v != nd_i]
    zmin, zmax = min(z), max(z)
    u = rng.random()
    if u < 0.15:
        vals, vfam = [rng.randint(lo, hi) for _ in range(n)], "uniform"
    elif u < 0.4 and zmax > zmin:
        # stretched: lowest level -> min, highest level -> max of the dtype
        k = (hi - lo) // (zmax - zmin)
        vals = [hi if v == zmax else lo + (v - zmin) * k for v in z]
        vfam = "stretched"
    else:
        # anchored: the surface (optionally steepened) shifted so that one cell holds a special value, clipped
        step = rng.choice([1, 1, 1, 2, 5, max(1, (hi - lo) // (4 * max(1, zmax - zmin)))])
        i0 = rng.randrange(n)
        off = rng.choice(special) - z[i0] * step
        vals = [min(hi, max(lo, v * step + off)) for v in z]
        vfam = "anchored"
    if rng.random() < 0.3:
        for _ in range(rng.randint(1, 3)):
            vals[rng.randrange(n)] = rng.choice(special)
        vfam += "+special"
    if held:
        # valid cells differ from the nodata value
        vals = [v if v != nd_i else (v - 1 if v == hi else v + 1) for v in vals]
    data = [(nodata if mask[i] else vals[i]) for i in range(n)]
    valid_idx = [i for i in range(n) if not mask[i]]
    outlets, pits = gen_outlets(rng, valid_idx)
    desc = {"op": "fill_depressions", "shape": list(shape), "dtype": dtype, "elevtn": data, "nodata": nodata,
            "connectivity": rng.choice([4, 8]), "outlets": outlets, "idxs_pit": pits,
            "family": f"{fam}/{mfam}/{vfam}", "narrow": nfam}
    if default:
        desc["nodata_default"] = True
    valid_vals = sorted(vals[i] for i in valid_idx)
    if rng.random() < 0.12 and pits is None:
        desc["elv_max"] = float(rng.choice([valid_vals[0] - 1, valid_vals[-1], rng.choice(valid_vals), rng.choice(valid_vals)]))
    span = valid_vals[-1] - valid_vals[0]
    if rng.random() < 0.2:
        # (fill heights beyond the maximum of a signed narrow dtype included: fix a080d39 / F06b)
        desc["max_depth"] = float(rng.choice([0, 1, 2, 3, span // 2, span, span + 1, rng.randint(0, span + 1)]))
    elif rng.random() < 0.4:
        desc["max_depth"] = gen_neg_depth(rng)
    return desc


# ----------------------------------------------------------------------------------------------
# float DEMs whose VALID cells lie next to the nodata value (a cell is nodata only if it HOLDS the nodata value)
# ----------------------------------------------------------------------------------------------
F32MAX = 3.4028234663852886e38
# finite nodata values in use for float rasters: the default, 0, integer sentinels, large fill values (1e20, the
# netCDF default fill 9.96920996838687e36, +-float32 max) and values single precision cannot represent (1e20, -9999.9,
# 0.1: a float32 raster then holds the float32 image of the value in its nodata cells)
NEAR_NODATA = [-9999.0, -9999.0, -9999.0, -9999.0, 0.0, 0.0, 0.0, -32768.0, -1.0, 1.0, 32767.0, 255.0, 1e20, -1e20,
               -9999.9, 0.1, 9.96920996838687e36, F32MAX, -F32MAX]


def dt_image(dtype, x):
    """the value of `dtype` nearest to x, as a python float"""
    with np.errstate(over="ignore"):
        return float(np.dtype(dtype).type(x))


def ulp_step(dtype, x, k):
    """k representable values of `dtype` above (k > 0) / below (k < 0) x"""
    t = np.dtype(dtype).type
    v, d = t(x), t(np.inf if k > 0 else -np.inf)
    with np.errstate(over="ignore"):
        for _ in range(abs(k)):
            v = np.nextafter(v, d)
    return float(v)


def near_value(dtype, nd_t, m, h):
    """the value of `dtype` at nd_t + m*h (m != 0), never the nodata image itself and always finite: an offset below
    the resolution of the dtype becomes min(|m|, 4) ulps, an overflow is mirrored to the other side"""
    for s in (1, -1):
        v = dt_image(dtype, nd_t + s * m * h) if math.isfinite(nd_t + s * m * h) else float("inf")
        if math.isfinite(v) and v != nd_t:
            return v
        k = max(1, min(abs(m), 4)) * (1 if s * m > 0 else -1)
        v = ulp_step(dtype, nd_t, k)
        if math.isfinite(v) and v != nd_t:
            return v
    raise AssertionError("generator: no finite neighbour of the nodata value")


def gen_near_step(rng, dtype, nd_t):
    """distance scale h > 0 of the near-nodata values + family: a few ulps of the nodata image, a relative offset
    1e-9 .. 1e-3, or an absolute offset; around 0 only absolute offsets exist (1e-10 .. 1e-6, powers of two, tiny)"""
    if nd_t == 0.0:
        u = rng.random()
        if u < 0.6:
            return 10.0 ** -rng.uniform(6.0, 10.0), "abs"
        if u < 0.8:
            return 2.0 ** -rng.randint(20, 40), "abs-dyadic"
        return rng.choice([1e-12, 1e-20, 1e-30]), "abs-tiny"
    u = rng.random()
    if u < 0.3:
        ulp = max(abs(ulp_step(dtype, nd_t, 1) - nd_t) if math.isfinite(ulp_step(dtype, nd_t, 1)) else 0.0,
                  abs(ulp_step(dtype, nd_t, -1) - nd_t) if math.isfinite(ulp_step(dtype, nd_t, -1)) else 0.0)
        return rng.choice([1, 1, 2, 3, 8, 64, 1024]) * ulp, "ulps"
    if u < 0.75:
        return abs(nd_t) * 10.0 ** -rng.uniform(3.0, 9.0), "rel"
    return min(abs(nd_t), 1.0) * 10.0 ** -rng.uniform(0.5, 9.0), "abs"


def gen_near_case(rng, max_cells, max_side):
    """float32 / float64 raster with a finite nodata value whose valid cells lie next to that value, on either side:
    'surface' = the whole surface in steps of h around nodata (level z0 at +h, the level below at -h), 'sparse' = an
    ordinary surface with a few cells next to nodata (a trench below -9999, a spike next to 1e20)"""
    shape = gen_shape(rng, max_cells, max_side)
    n = shape[0] * shape[1]
    z, fam = gen_surface(rng, shape)
    mask, mfam = gen_mask(rng, shape)
    if all(mask):
        mask[rng.randrange(n)] = False
    dtype = rng.choice(["float32", "float64"])
    u = rng.random()
    if u < 0.85:
        nodata = rng.choice(NEAR_NODATA)
    elif u < 0.93:
        nodata = float(rng.randint(-40000, 40000))
    else:
        nodata = rng.uniform(-1.0, 1.0) * 10.0 ** rng.randint(-3, 6)    # (float32: not representable)
    nd_t = dt_image(dtype, nodata)      # what a cell of the raster holds when it holds the nodata value
    h, hfam = gen_near_step(rng, dtype, nd_t)
    if rng.random() < 0.55:
        z0 = z[rng.randrange(n)]
        vals = [near_value(dtype, nd_t, 2 * (v - z0) + 1, h) for v in z]
        vfam = "near-nodata-surface"
    else:
        vals, _ = gen_values(rng, z, dtype)
        vals = [dt_image(dtype, v) for v in vals]
        vals = [v if v != nd_t else dt_image(dtype, v + 1.0) for v in vals]
        for _ in range(rng.randint(1, 4)):
            vals[rng.randrange(n)] = near_value(dtype, nd_t, rng.choice([-3, -2, -1, -1, 1, 1, 2, 3]), h)
        vfam = "near-nodata-sparse"
    assert all(math.isfinite(v) and v != nd_t and v != nodata for v in vals), "generator: valid cell holds nodata"
    data = [(nodata if mask[i] else vals[i]) for i in range(n)]
    valid_idx = [i for i in range(n) if not mask[i]]
    outlets, pits = gen_outlets(rng, valid_idx)
    desc = {"op": "fill_depressions", "shape": list(shape), "dtype": dtype, "elevtn": data, "nodata": nodata,
            "connectivity": rng.choice([4, 8]), "outlets": outlets, "idxs_pit": pits,
            "family": f"{fam}/{mfam}/{vfam}", "near": hfam}
    if nodata == -9999.0 and rng.random() < 0.3:
        desc["nodata_default"] = True
    if rng.random() < 0.1 and pits is None:
        desc["elv_max"] = float(rng.choice([vals[i] for i in valid_idx]))
    if rng.random() < 0.3:
        desc["max_depth"] = gen_neg_depth(rng)
    return desc


def count_near(ctx, desc, elev, nodata, valid_l):
    """how close do the valid cells of a float raster come to its (finite) nodata value?"""
    if elev.dtype.kind != "f" or not math.isfinite(nodata):
        return
    nd_t = dt_image(elev.dtype, nodata)
    if not math.isfinite(nd_t):
        return
    if nd_t != nodata:
        ctx.count("feature:near-nodata:nodata value not representable in the dtype of the raster (%s)" % elev.dtype.name)
        if not all(valid_l):
            ctx.count("feature:near-nodata:nodata cells hold the %s image of a value the dtype cannot represent" % elev.dtype.name)
    vv = [v for v, ok in zip(elev.ravel().tolist(), valid_l) if ok and math.isfinite(v)]
    if not vv:
        return
    ref = _frac(nd_t)
    below = [ref - _frac(v) for v in vv if _frac(v) < ref]
    above = [_frac(v) - ref for v in vv if _frac(v) > ref]
    dist = min(below + above)
    scale = abs(ref) if ref != 0 else Fraction(1, 100)       # around 0: absolute bands 1e-5 .. 1e-11
    name = elev.dtype.name
    if desc.get("near"):
        ctx.count("near-nodata:offsets:" + desc["near"])
    for band, lim in (("1e-3", Fraction(1, 10**3)), ("1e-5", Fraction(1, 10**5)), ("1e-7", Fraction(1, 10**7)),
                      ("1e-9", Fraction(1, 10**9))):
        if dist <= lim * scale:
            ctx.count("feature:near-nodata:valid cell within %s*|nodata| of nodata (nodata 0: %s/100)" % (band, band))
            ctx.count("feature:near-nodata:valid cell within %s*|nodata| of nodata (nodata 0: %s/100):%s" % (band, band, name))
    if dist <= Fraction(1, 10**5) * scale:
        ctx.count("feature:near-nodata:nodata " + ("0" if ref == 0 else "-9999" if nodata == -9999.0 else
                                                    "|x| >= 1e19" if abs(ref) >= 10**19 else "other"))
    ulp = min(abs(_frac(ulp_step(elev.dtype, nd_t, k)) - ref) for k in (1, -1) if math.isfinite(ulp_step(elev.dtype, nd_t, k)))
    if ref != 0 and dist <= 4 * ulp:
        ctx.count("feature:near-nodata:valid cell within 4 ulp of nodata:" + name)
    if below and above and min(below) <= Fraction(1, 10**5) * scale and min(above) <= Fraction(1, 10**5) * scale:
        ctx.count("feature:near-nodata:valid cells on both sides of nodata within 1e-5")


def count_narrow(ctx, desc, elev, nodata, valid_l):
    if desc["dtype"] not in NARROW:
        return
    ctx.count("narrow:" + desc["dtype"])
    ii = np.iinfo(elev.dtype)
    ctx.count("narrow:nodata-" + desc.get("narrow", "?") + ("(omitted)" if desc.get("nodata_default") else ""))
    if not holds(elev.dtype, nodata):
        ctx.count("narrow:nodata-not-held-by-dtype(all cells valid)")
        cells = set(elev.ravel().tolist())
        if cells & set(cast_images(nodata, elev.dtype)):
            ctx.count("narrow:feature:valid cell holds a cast image of nodata (wrap / saturation / 0)")
        if math.isfinite(nodata) and abs(nodata) < 2.0**63:
            m = ii.max - ii.min + 1
            if (math.trunc(nodata) - ii.min) % m + ii.min in cells:
                ctx.count("narrow:feature:valid cell holds the wrap-around image of nodata")
    else:
        ctx.count("narrow:nodata-held-by-dtype")
        if not all(valid_l):
            ctx.count("narrow:feature:nodata-cells")
    vv = [v for v, ok in zip(elev.ravel().tolist(), valid_l) if ok]
    if vv and min(vv) == ii.min and max(vv) == ii.max:
        ctx.count("narrow:feature:whole range of the dtype")
    if vv and max(vv) - min(vv) > ii.max:
        ctx.count("narrow:feature:span > max of the dtype")


# ----------------------------------------------------------------------------------------------
# one case: run the implementation, build the driver request and the judge
# ----------------------------------------------------------------------------------------------
def build_array(desc):
    dt = np.dtype(desc["dtype"])
    shape = tuple(desc["shape"])
    vals = [float("nan") if (v is None) else v for v in desc["elevtn"]]
    if dt.kind in "iu":
        ii = np.iinfo(dt)
        assert all(ii.min <= int(v) <= ii.max for v in vals), "generator: value outside the dtype"
        a = np.array([int(v) for v in vals], dtype=np.int64).astype(dt)
    else:
        a = np.array(vals, dtype=np.float64).astype(dt)
    return a.reshape(shape)


def run_case(ctx, desc, with_from_dem=False, oracle=True):
    from pyflwdir import dem, gis_utils
    import pyflwdir

    shape = tuple(desc["shape"])
    nrow, ncol = shape
    n = nrow * ncol
    conn = desc["connectivity"]
    nodata = float(desc["nodata"]) if desc["nodata"] is not None else float("nan")
    elev = build_array(desc)
    nod = nodata_mask(elev, nodata)
    nod_l = [bool(x) for x in nod.ravel()]
    valid_l = [not x for x in nod_l]
    flat = elev.ravel()
    den = scale_of([flat[i].item() for i in range(n) if valid_l[i]])
    elev_i = [to_scaled(flat[i].item(), den) if valid_l[i] else 0 for i in range(n)]
    kw = dict(outlets=desc["outlets"], nodata=nodata, connectivity=conn)
    if desc.get("nodata_default"):
        assert nodata == -9999.0
        del kw["nodata"]       # the DEFAULT nodata argument
    ndkw = {k: kw[k] for k in ("nodata",) if k in kw}
    pits = desc.get("idxs_pit")
    if pits is not None:
        kw["idxs_pit"] = np.array(pits, dtype=np.int64)
    minflag = 1 if desc["outlets"] == "min" else 0
    if desc.get("max_depth") is not None and desc["max_depth"] >= 0:
        return run_depth_case(ctx, desc, with_from_dem)
    mdkw = {}
    if desc.get("max_depth") is not None:
        # a negative max_depth (python int or float as generated): the unlimited fill, judged like the default
        assert desc["max_depth"] < 0
        mdkw["max_depth"] = desc["max_depth"]
        kw.update(mdkw)
        ctx.count("max_depth<0")
        ctx.count("max_depth<0:" + neg_depth_name(desc["max_depth"]))
    else:
        ctx.count("max_depth:omitted")
    elv_max = desc.get("elv_max")
    elv_max_i = None
    if elv_max is not None:
        kw["elv_max"] = elv_max
        elv_max_i = math.floor(_frac(elv_max) * den)   # elev <= elv_max  <=>  elev*den <= floor(elv_max*den)
        ctx.count("elv_max")
    lay = ctx.rng.choice(["C", "C", "C", "F", "T", "strided"])
    if lay == "F":
        elev = np.asfortranarray(elev)
    elif lay == "T":
        elev = np.ascontiguousarray(elev.T).T
    elif lay == "strided":
        big = np.zeros((elev.shape[0], 2 * elev.shape[1]), dtype=elev.dtype)
        big[:, ::2] = elev
        elev = big[:, ::2]
    ctx.count("dem-layout:" + lay)
    before = elev.copy()
    py_fail = []   # failures decided in Python (trivial exact checks)
    try:
        filled, d8 = dem.fill_depressions(elev, **kw)
        filled2, d82 = dem.fill_depressions(filled, **kw)
    except Exception as e:  # every generated input is in the documented domain: must return
        if elv_max is not None and pits is None and type(e) is ValueError:
            # documented: ValueError when no edge cell lies at or below elv_max
            ctx.count("elv_max:ValueError")
            none_below = not any(elev_i[i] <= elv_max_i for i in edge_cells(valid_l, shape, conn))
            pf = [] if none_below else [{"kind": "spec", "what": "ValueError although an edge cell lies at or below elv_max"}]

            def judge_err(ans, pf=pf):
                fs = list(pf)
                if ans[0].get("__err__") != "ValueError":
                    fs.append({"kind": "model", "what": "implementation raised ValueError (elv_max), the model did not",
                               "model": ans[0].get("__err__", "returned")})
                return fs
            ctx.add(desc, [("c06_fill", {"nrow": nrow, "ncol": ncol, "conn": conn, "elev": elev_i, "nod": nod_l,
                                        "min": minflag, "pits": pits, "elv_max": elv_max_i})], judge_err, nontrivial=False)
            return
        if os.environ.get("PF_C06_DELV_OBS") == "1" and type(e) is OverflowError and elev.dtype.kind == "i" and desc["dtype"] in NARROW and not jit_enabled():
            # (since fix a080d39 / F06b in /repo this exception is a failure like any other; PF_C06_DELV_OBS=1 restores
            # the old acceptance for replaying older trees)
            # OBSERVATION (interpreted mode only; the compiled function wraps silently and returns the minimax surface):
            # the fill-height bookkeeping array `delv` has the dtype of the raster, NumPy refuses to store a fill
            # height above the maximum of a SIGNED integer dtype (int8: > 127, int16: > 32767).  `delv` is only read
            # with max_depth >= 0.  Accepted exactly when the brute-force oracle finds a cell whose spill level lies
            # more than the dtype's maximum above its elevation; any other exception, or this one without such a
            # cell, is a failure.  The model is still compared with the oracle on the case.
            seeds = sorted(set(pits)) if pits is not None else edge_cells(valid_l, shape, conn)
            if pits is None and elv_max_i is not None:
                seeds = [i for i in seeds if elev_i[i] <= elv_max_i]
            if minflag and seeds:
                seeds = [min(seeds, key=lambda i: (elev_i[i], i))]
            lvl = minimax_oracle(elev_i, valid_l, shape, conn, seeds)
            depth = max([lvl[i] - elev_i[i] for i in range(n) if valid_l[i] and lvl[i] is not None] or [0])
            if den == 1 and depth > int(np.iinfo(elev.dtype).max):
                ctx.count("narrow:observation:OverflowError in interpreted mode (fill height > max of the signed dtype)")
                want = [(lvl[i] if valid_l[i] and lvl[i] is not None else elev_i[i]) for i in range(n)]

                def judge_ovf(ans, want=want):
                    a = ans[0]
                    if "__err__" in a:
                        return [{"kind": "model", "what": "driver error " + a["__err__"]}]
                    if a["model.f"] != want:
                        return [{"kind": "model", "what": "filled elevation: Lean model != python minimax oracle",
                                 "model": a["model.f"], "oracle": want}]
                    return []
                ctx.add(desc, [("c06_fill", {"nrow": nrow, "ncol": ncol, "conn": conn, "elev": elev_i, "nod": nod_l,
                                            "min": minflag, "pits": pits, "elv_max": elv_max_i})], judge_ovf, nontrivial=False)
                return
        ctx.evaluations += 1
        ctx.fail(desc, "spec", f"fill_depressions raised {type(e).__name__}: {e}")
        return
    if not same_bits(before, elev):
        py_fail.append({"kind": "spec", "what": "fill_depressions modified its input raster"})
    if filled.shape != shape or d8.shape != shape:
        py_fail.append({"kind": "spec", "what": f"output shapes {filled.shape} {d8.shape} != {shape}"})
        ctx.fail(desc, "spec", py_fail[-1]["what"])
        return
    ff, dd = filled.ravel(), d8.ravel()
    ff2 = filled2.ravel()

    def scaled_out(arr):
        out, bad = [], []
        for i in range(n):
            if nod_l[i]:
                out.append(0 if same_bits(arr[i], flat[i]) else 1)  # 1 = nodata cell was touched
            else:
                s = to_scaled(arr[i].item(), den)
                if s is None:
                    bad.append(i)
                    s = math.floor(_frac(arr[i].item()) * den) if math.isfinite(float(arr[i])) else -1
                out.append(s)
        return out, bad

    f_i, bad = scaled_out(ff)
    if bad:
        py_fail.append({"kind": "spec", "what": f"filled elevation at cells {bad[:5]} is not an input elevation "
                        "(the spill level is the maximum of input elevations on a path)"})
    f2_i, bad2 = scaled_out(ff2)
    # nodata cells: untouched bit for bit and coded 247
    touched = [i for i in range(n) if nod_l[i] and (not same_bits(ff[i], flat[i]) or int(dd[i]) != 247)]
    if touched:
        py_fail.append({"kind": "spec", "what": f"nodata cells {touched[:5]} touched or not coded 247"})
    # valid cells (cells that do not hold the nodata value) are never coded as nodata
    coded = [i for i in range(n) if valid_l[i] and int(dd[i]) == 247]
    if coded:
        py_fail.append({"kind": "spec", "what": f"valid cells {coded[:5]} (elevations {[flat[i].item() for i in coded[:5]]}, "
                        f"nodata {nodata!r}) are coded as nodata (247) in the direction raster"})
    # idempotence: exact
    if not same_bits(filled, filled2):
        diff = [i for i in range(n) if not same_bits(ff[i], ff2[i])][:5]
        py_fail.append({"kind": "spec", "what": f"filling the filled surface changed elevations at cells {diff}",
                        "filled": f_i, "filled2": f2_i})
    d8_i, d82_i = ints(dd), ints(d82.ravel())

    nvalid = sum(valid_l)
    nfilled = sum(1 for i in range(n) if valid_l[i] and f_i[i] != elev_i[i])
    nontriv = nvalid >= 2 and nfilled >= 1
    ctx.count("dtype:" + desc["dtype"])
    ctx.count("conn:%d" % conn)
    ctx.count("outlets:" + ("user" if pits is not None else desc["outlets"]) + ("+min" if pits is not None and minflag else ""))
    ctx.count("family:" + desc.get("family", "?").split("/")[0])
    ctx.count("mask:" + (desc.get("family", "?/?/?").split("/") + ["?", "?"])[1])
    ctx.count("values:" + (desc.get("family", "?/?/?").split("/") + ["?", "?", "?"])[2])
    if math.isnan(nodata) and any(nod_l):
        ctx.count("feature:nan-nodata-cells")
    count_narrow(ctx, desc, elev, nodata, valid_l)
    count_near(ctx, desc, elev, nodata, valid_l)
    if nfilled:
        ctx.count("feature:filled-case")
        ctx.count("filled-cells", nfilled)
        if len({f_i[i] for i in range(n) if valid_l[i] and f_i[i] != elev_i[i]}) >= 2:
            ctx.count("feature:>=2 spill levels")
    if any(valid_l[i] and valid_l[j] and elev_i[i] == elev_i[j] for i in range(n) for j in nbrs_of(i, shape, 8)):
        ctx.count("feature:plateau/tie")
    if any(valid_l[i] and int(dd[i]) == 0 for i in range(n)) and pits is None and desc["outlets"] == "min" and \
            sum(1 for i in range(n) if valid_l[i] and int(dd[i]) == 0) > 1:
        ctx.count("feature:unconnected-cells")

    # python oracle (own edge / min / minimax)
    if oracle and not bad:
        if pits is None:
            seeds = edge_cells(valid_l, shape, conn)
            if elv_max_i is not None:
                seeds = [i for i in seeds if elev_i[i] <= elv_max_i]
                if not seeds:
                    py_fail.append({"kind": "spec", "what": "no edge cell at or below elv_max but no ValueError"})
        else:
            seeds = sorted(set(pits))
        if minflag and seeds:
            seeds = [min(seeds, key=lambda i: (elev_i[i], i))]
        lvl = minimax_oracle(elev_i, valid_l, shape, conn, seeds)
        wrong = [i for i in range(n) if valid_l[i] and f_i[i] != (lvl[i] if lvl[i] is not None else elev_i[i])]
        if wrong:
            py_fail.append({"kind": "spec", "what": f"filled elevation differs from the minimax spill level at cells {wrong[:5]}",
                            "impl": f_i, "oracle": lvl})
        # get_edge directly
        struct = np.ones((3, 3), dtype=bool)
        if conn == 4:
            struct[0, 0] = struct[-1, -1] = struct[0, -1] = struct[-1, 0] = False
        try:
            edge_impl = ints(gis_utils.get_edge(~nod, structure=struct))
        except Exception as e:
            edge_impl = None
            py_fail.append({"kind": "spec", "what": f"get_edge raised {type(e).__name__}: {e}"})
        edge_py = [1 if i in set(edge_cells(valid_l, shape, conn)) else 0 for i in range(n)]
        if edge_impl is not None and edge_impl != edge_py:
            py_fail.append({"kind": "spec", "what": "get_edge differs from the declarative edge (python oracle)",
                            "impl": edge_impl, "oracle": edge_py})
    else:
        edge_impl = None

    args = {"nrow": nrow, "ncol": ncol, "conn": conn, "elev": elev_i, "nod": nod_l, "min": minflag,
            "pits": pits, "elv_max": elv_max_i, "impl.f": f_i, "impl.d8": d8_i, "impl.f2": f2_i, "impl.d82": d82_i}
    reqs = [("c06_fill", args)]
    if edge_impl is not None:
        reqs.append(("c06_get_edge", {"nrow": nrow, "ncol": ncol, "conn": conn, "nod": nod_l}))
    fd = None
    if with_from_dem and conn == 8 and pits is None and elv_max is None:
        try:
            flw = pyflwdir.from_dem(elev, outlets=desc["outlets"], **ndkw, **mdkw)
            fd = canon_idx(flw.idxs_ds, n)
        except Exception as e:
            # the FlwdirRaster constructor documents ValueError for rasters of one cell and for rasters
            # without any pit (no valid cell); anything else must be accepted like fill_depressions does
            if isinstance(e, ValueError) and (n < 2 or nvalid == 0):
                ctx.count("from_dem:degenerate-ValueError")
            else:
                py_fail.append({"kind": "spec", "what": f"from_dem raised {type(e).__name__}: {e}"})
        if fd is not None:
            ctx.count("op:from_dem")
            if mdkw:
                ctx.count("op:from_dem(max_depth<0)")
            reqs.append(("c06_from_dem", {"nrow": nrow, "ncol": ncol, "elev": elev_i, "nod": nod_l, "min": minflag,
                                          "impl.ds": fd, "impl.f": f_i, "impl.d8": d8_i}))

    def judge(ans):
        fs = list(py_fail)
        a = ans[0]
        if "__err__" in a:
            return fs + [{"kind": "model", "what": "driver error " + a["__err__"]}]
        if a["spec.cert_impl"] != [1]:
            fs.append({"kind": "spec", "what": "output rejected by the fill certificate (not the minimax spill surface / "
                       "directions not a loop-free non-rising neighbour network to the outlets / nodata touched)",
                       "impl.f": f_i, "impl.d8": d8_i, "model.f": a["model.f"], "model.d8": a["model.d8"], "scale": den})
        if a.get("spec.cert_impl2") != [1]:
            fs.append({"kind": "spec", "what": "second application: output rejected by the fill certificate",
                       "impl.f2": f2_i, "impl.d82": d82_i})
        if a["spec.cert_model"] != [1]:
            fs.append({"kind": "model", "what": "the model's own output is rejected by the certificate"})
        if a["model.seeds"] != a["spec.seeds"]:
            fs.append({"kind": "model", "what": "model seed set != declarative seed set",
                       "model": a["model.seeds"], "spec": a["spec.seeds"]})
        if a.get("spec.seeds2") != a["spec.seeds"]:
            fs.append({"kind": "model", "what": "outlet set of the filled surface differs from the outlet set of the input"})
        if f_i != a["model.f"]:
            fs.append({"kind": "model", "what": "filled elevation: implementation != Lean model",
                       "impl": f_i, "model": a["model.f"], "scale": den})
        if d8_i != a["model.d8"]:
            fs.append({"kind": "model", "what": "d8: implementation != Lean model", "impl": d8_i, "model": a["model.d8"]})
        k = 1
        if edge_impl is not None:
            e = ans[k]
            k += 1
            if "__err__" in e:
                fs.append({"kind": "model", "what": "driver error " + e["__err__"]})
            else:
                if edge_impl != e["spec.edge"]:
                    fs.append({"kind": "spec", "what": "get_edge differs from the declarative edge", "impl": edge_impl,
                               "spec": e["spec.edge"]})
                if edge_impl != e["model.edge"]:
                    fs.append({"kind": "model", "what": "get_edge: implementation != Lean model", "impl": edge_impl,
                               "model": e["model.edge"]})
        if fd is not None:
            e = ans[k]
            if "__err__" in e:
                fs.append({"kind": "model", "what": "driver error " + e["__err__"]})
            else:
                if e["spec.net_ok"] != [1] or e["spec.cert_impl"] != [1]:
                    fs.append({"kind": "spec", "what": "from_dem: some cell connected to an outlet does not reach it by "
                               "allowed non-rising steps (or a nodata cell is part of the network)", "impl.ds": fd})
                if fd != e["spec.ds"]:
                    fs.append({"kind": "spec", "what": "from_dem network is not the decoding of the fill_depressions directions",
                               "impl.ds": fd, "decoded": e["spec.ds"]})
                if fd != e["model.ds"]:
                    fs.append({"kind": "model", "what": "from_dem: implementation != Lean model", "impl": fd, "model": e["model.ds"]})
        return fs

    ctx.add(desc, reqs, judge, nontrivial=nontriv)


def run_depth_case(ctx, desc, with_from_dem=False):
    """max_depth >= 0: exact comparison with the loop-for-loop model (fillModelDepth) + the declarative
    facts that hold for every depth-limited run (depthOk)"""
    from pyflwdir import dem
    import pyflwdir

    shape = tuple(desc["shape"])
    nrow, ncol = shape
    n = nrow * ncol
    conn = desc["connectivity"]
    nodata = float(desc["nodata"]) if desc["nodata"] is not None else float("nan")
    elev = build_array(desc)
    nod = nodata_mask(elev, nodata)
    nod_l = [bool(x) for x in nod.ravel()]
    valid_l = [not x for x in nod_l]
    flat = elev.ravel()
    md = float(desc["max_depth"])
    den = scale_of([flat[i].item() for i in range(n) if valid_l[i]])
    elev_i = [to_scaled(flat[i].item(), den) if valid_l[i] else 0 for i in range(n)]
    md_i = math.ceil(_frac(md) * den)       # dz >= md  <=>  dz*den >= ceil(md*den) for integral dz*den
    kw = dict(outlets=desc["outlets"], nodata=nodata, connectivity=conn, max_depth=md)
    if desc.get("nodata_default"):
        assert nodata == -9999.0
        del kw["nodata"]       # the DEFAULT nodata argument
    ndkw = {k: kw[k] for k in ("nodata",) if k in kw}
    pits = desc.get("idxs_pit")
    if pits is not None:
        kw["idxs_pit"] = np.array(pits, dtype=np.int64)
    minflag = 1 if desc["outlets"] == "min" else 0
    elv_max = desc.get("elv_max")
    elv_max_i = None
    if elv_max is not None:
        kw["elv_max"] = elv_max
        elv_max_i = math.floor(_frac(elv_max) * den)
    ctx.count("max_depth>=0")
    ctx.count("max_depth:%s" % ("0" if md == 0 else "pos"))
    count_narrow(ctx, desc, elev, nodata, valid_l)
    before = elev.copy()
    py_fail = []
    base = {"nrow": nrow, "ncol": ncol, "conn": conn, "elev": elev_i, "nod": nod_l, "min": minflag,
            "pits": pits, "elv_max": elv_max_i, "max_depth": md_i}
    try:
        filled, d8 = dem.fill_depressions(elev, **kw)
    except Exception as e:
        if elv_max is not None and pits is None and type(e) is ValueError:
            def judge_err(ans):
                if ans[0].get("__err__") != "ValueError":
                    return [{"kind": "model", "what": "implementation raised ValueError (elv_max), the model did not"}]
                return []
            ctx.add(desc, [("c06_fill", base)], judge_err, nontrivial=False)
            return
        ctx.evaluations += 1
        ctx.fail(desc, "spec", f"fill_depressions(max_depth={md}) raised {type(e).__name__}: {e}")
        return
    if not same_bits(before, elev):
        py_fail.append({"kind": "spec", "what": "fill_depressions modified its input raster"})
    ff, dd = filled.ravel(), d8.ravel()
    f_i = []
    for i in range(n):
        if nod_l[i]:
            f_i.append(0 if same_bits(ff[i], flat[i]) else 1)
        else:
            sc = to_scaled(ff[i].item(), den)
            if sc is None:
                py_fail.append({"kind": "spec", "what": f"filled elevation at cell {i} is not an input elevation"})
                sc = -1
            f_i.append(sc)
    d8_i = ints(dd)
    touched = [i for i in range(n) if nod_l[i] and (not same_bits(ff[i], flat[i]) or int(dd[i]) != 247)]
    if touched:
        py_fail.append({"kind": "spec", "what": f"max_depth={md}: nodata cells {touched[:5]} touched or not coded 247"})
    coded = [i for i in range(n) if valid_l[i] and int(dd[i]) == 247]
    if coded:
        py_fail.append({"kind": "spec", "what": f"max_depth={md}: valid cells {coded[:5]} (elevations "
                        f"{[flat[i].item() for i in coded[:5]]}, nodata {nodata!r}) are coded as nodata (247)"})
    # did the limit matter?  (compare with the unlimited fill of the implementation)
    kw0 = dict(kw)
    kw0["max_depth"] = -1.0
    try:
        filled0, d80 = dem.fill_depressions(elev, **kw0)
        differs = not (same_bits(filled0, filled) and same_bits(d80, d8))
    except Exception:
        differs = False
    nontriv = sum(valid_l) >= 2 and differs
    if differs:
        ctx.count("feature:depth-limit-active")
    reqs = [("c06_fill", dict(base, **{"impl.f": f_i, "impl.d8": d8_i}))]
    fd = None
    if with_from_dem and conn == 8 and pits is None and elv_max is None and n >= 2 and any(valid_l):
        try:
            flw = pyflwdir.from_dem(elev, outlets=desc["outlets"], max_depth=md, **ndkw)
            fd = canon_idx(flw.idxs_ds, n)
            reqs.append(("c06_from_dem", {"nrow": nrow, "ncol": ncol, "elev": elev_i, "nod": nod_l, "min": minflag,
                                          "max_depth": md_i, "impl.ds": fd, "impl.f": f_i, "impl.d8": d8_i}))
            ctx.count("op:from_dem(max_depth)")
        except Exception as e:
            py_fail.append({"kind": "spec", "what": f"from_dem(max_depth={md}) raised {type(e).__name__}: {e}"})

    def judge(ans):
        fs = list(py_fail)
        a = ans[0]
        if "__err__" in a:
            return fs + [{"kind": "model", "what": "driver error " + a["__err__"]}]
        if a.get("spec.depth_impl") != [1]:
            fs.append({"kind": "spec", "what": f"max_depth={md}: nodata touched, a cell lowered, or a cell raised by max_depth or more",
                       "impl.f": f_i, "impl.d8": d8_i, "scale": den})
        if a["spec.depth_model"] != [1]:
            fs.append({"kind": "model", "what": "model output violates the depth-limited invariants"})
        # outlets and too-deep cells keep their input elevation (fillModelDepth_deep_cells_keep); the too-deep
        # cells are the model's (ghost counter), the outlet set is the declarative one
        if a.get("spec.keep_impl") != [1]:
            fs.append({"kind": "spec", "what": f"max_depth={md}: an outlet or a too-deep cell does not keep its input elevation",
                       "impl.f": f_i, "scale": den})
        if a.get("spec.keep_model") != [1]:
            fs.append({"kind": "model", "what": "model output: an outlet or a too-deep cell does not keep its input elevation"})
        # every non-zero direction at a valid cell goes to an allowed valid neighbour (fillModelDepth_step_allowed)
        if a.get("spec.step_impl") != [1]:
            fs.append({"kind": "spec", "what": f"max_depth={md}: a direction does not decode to an allowed valid neighbour",
                       "impl.d8": d8_i})
        if a.get("spec.step_model") != [1]:
            fs.append({"kind": "model", "what": "model output: a direction does not decode to an allowed valid neighbour"})
        if a.get("model.spurious_pits", [0])[0]:
            # reported finding (not judged): the popped cell re-opened by a too-deep neighbour that precedes the
            # centre in the neighbour loop visits itself and ends as a pit (code 0)
            ctx.count("finding-candidate:max_depth spurious pit cells", a["model.spurious_pits"][0])
            ctx.count("feature:max_depth-spurious-pit-case")
        if f_i != a["model.f"]:
            fs.append({"kind": "model", "what": f"max_depth={md}: filled elevation: implementation != Lean model",
                       "impl": f_i, "model": a["model.f"], "scale": den})
        if d8_i != a["model.d8"]:
            fs.append({"kind": "model", "what": f"max_depth={md}: d8: implementation != Lean model", "impl": d8_i, "model": a["model.d8"]})
        if a.get("model.same_as_unlimited", [1]) != [1]:
            fs.append({"kind": "model", "what": "no too-deep event but the model's depth-limited run differs from its unlimited run"})
        ev, evmax = a["model.ev"][0], a["model.evmax"][0]
        ctx.count("too-deep-events", ev)
        if ev:
            ctx.count("feature:too-deep-event-case")
        if evmax > 1:
            # too_deep_once (now proved for the model in Proofs/C06Once.lean): each cell is too deep at most once
            ctx.count("CONJECTURE-FALSIFIED:cell too deep twice")
            fs.append({"kind": "model", "what": f"a cell had {evmax} too-deep events (contradicts the proved theorem too_deep_once: the driver's model is not the proved one)"})
        if fd is not None:
            e = ans[1]
            if "__err__" in e:
                fs.append({"kind": "model", "what": "driver error " + e["__err__"]})
            else:
                if fd != e["spec.ds"]:
                    fs.append({"kind": "spec", "what": "from_dem(max_depth) network is not the decoding of the fill_depressions directions",
                               "impl.ds": fd, "decoded": e["spec.ds"]})
                if fd != e["model.ds"]:
                    fs.append({"kind": "model", "what": "from_dem(max_depth): implementation != Lean model", "impl": fd, "model": e["model.ds"]})
        return fs

    ctx.add(desc, reqs, judge, nontrivial=nontriv)


def classify(failure):
    return None


# ----------------------------------------------------------------------------------------------
# hand-made corner cases (always run)
# ----------------------------------------------------------------------------------------------
def corner_cases():
    nan = float("nan")
    out = []

    def mk(shape, dtype, data, nodata=-9999.0, conn=8, outlets="edge", pits=None):
        out.append({"op": "fill_depressions", "shape": list(shape), "dtype": dtype, "elevtn": data, "nodata": nodata,
                    "connectivity": conn, "outlets": outlets, "idxs_pit": pits, "family": "corner/-/-"})

    # single pit in the middle of a 3x3, both connectivities, all modes
    for conn in (4, 8):
        mk((3, 3), "float32", [5, 5, 5, 5, 1, 5, 5, 5, 5], conn=conn)
        mk((3, 3), "float32", [5, 4, 5, 3, 1, 5, 5, 5, 5], conn=conn, outlets="min")
        mk((3, 3), "int32", [5, 4, 5, 3, 1, 5, 5, 5, 5], conn=conn, pits=[8])
        # diagonal gap: drains through the corner only with 8-connectivity
        mk((4, 4), "float64", [9, 9, 9, 0, 9, 1, 9, 9, 9, 9, 1, 9, 9, 9, 9, 9], conn=conn, outlets="min")
        # nested depressions on a line
        mk((1, 9), "float32", [0, 5, 1, 3, 0, 3, 1, 7, 2], conn=conn, outlets="min")
        mk((9, 1), "int32", [4, 5, 1, 3, 0, 3, 1, 7, 2], conn=conn, pits=[0, 8])
        # NaN nodata hole next to a depression; frame of nodata
        mk((4, 4), "float32", [3, 3, 3, 3, 3, 1, nan, 3, 3, 0, 1, 3, 3, 3, 3, 3], nodata=nan, conn=conn)
        mk((4, 4), "float64", [nan, nan, nan, nan, nan, 1, 2, nan, nan, 0, 5, nan, nan, nan, nan, nan], nodata=nan,
           conn=conn, outlets="min")
        # two components, one without outlet in min mode
        mk((1, 5), "float32", [1, 2, -9999.0, 0, 3], conn=conn, outlets="min")
        # flat surface
        mk((3, 4), "int32", [2] * 12, conn=conn, outlets="min")
        # the F06 witness values (one-ulp uphill by rounding before the fix)
        a, b = float.fromhex("0x1.d85af2p-3"), float.fromhex("0x1.aa2894p-5")
        mk((1, 3), "float32", [b, a, b / 2], conn=conn, pits=[0])
        mk((3, 3), "float32", [a, a, a, a, b, a, a, a, b / 4], conn=conn, outlets="min")
        # float64 / int values that a float32 heap key would truncate
        mk((1, 4), "float64", [16777217.0, 16777216.0, 16777218.0, 16777215.0], conn=conn, outlets="min")
        mk((1, 4), "int32", [16777217, 16777216, 16777218, 16777219], conn=conn, pits=[3])
    # regression (defect fixed in /repo 463c4a4): max_depth >= 0 re-opened the nodata neighbour of a too-deep
    # cell; the nodata cell got a direction and entered the heap (with NaN nodata: a NaN key)
    reg = [0, 5, 5, 5, 5, 5, -9999.0, 1, 5, 5, 5, 5, 5, 5, 5]
    regn = [0, 5, 5, 5, 5, 5, nan, 1, 5, 5, 5, 5, 5, 5, 5]
    for md in (0.0, 1.0, 2.0, 10.0):
        for conn in (4, 8):
            mk((3, 5), "float32", reg, conn=conn, outlets="min")
            out[-1]["max_depth"] = md
            mk((3, 5), "float64", regn, nodata=nan, conn=conn, outlets="min")
            out[-1]["max_depth"] = md
            # flat surface with max_depth = 0 (looped forever before /repo c1d4b0c)
            mk((3, 4), "int32", [2] * 12, conn=conn, outlets="min")
            out[-1]["max_depth"] = md
            # border cell too deep (out-of-raster write before /repo 42fe78d)
            mk((2, 3), "float32", [9, 0, 9, 9, 9, 9], conn=conn, pits=[0])
            out[-1]["max_depth"] = md
            # nested depressions: inner deeper than max_depth, outer shallower
            mk((1, 9), "float32", [0, 5, 1, 3, 0, 3, 1, 7, 2], conn=conn, outlets="min")
            out[-1]["max_depth"] = md
    # unlimited fill in every negative spelling of max_depth (docstring: any negative value = fill everything):
    # single pit, nested depressions on a line, a bowl with a nodata hole; fill_depressions and (conn 8) from_dem
    for md in NEG_DEPTHS:
        for conn in (4, 8):
            mk((3, 3), "float32", [5, 5, 5, 5, 1, 5, 5, 5, 5], conn=conn)
            out[-1]["max_depth"] = md
            mk((1, 9), "int32", [0, 5, 1, 3, 0, 3, 1, 7, 2], conn=conn, outlets="min")
            out[-1]["max_depth"] = md
            mk((4, 4), "float64", [3, 3, 3, 3, 3, 1, nan, 3, 3, 0, 1, 3, 3, 3, 2, 3], nodata=nan, conn=conn, pits=[14])
            out[-1]["max_depth"] = md
    # elv_max: below all edge cells (ValueError), between, above
    for em in (-1.0, 3.0, 4.0, 100.0):
        mk((3, 3), "float32", [5, 4, 5, 3, 1, 5, 5, 5, 5])
        out[-1]["elv_max"] = em
        mk((3, 3), "int32", [5, 4, 5, 3, 1, 5, 5, 5, 5], outlets="min")
        out[-1]["elv_max"] = em
    # narrow integer rasters: every value a dtype cast could turn the nodata value into, as a monotone profile (no
    # depression: every cell is valid, keeps its elevation and drains along the row) and as the floor of a trough
    for dtype in NARROW:
        ii = np.iinfo(dtype)
        for nd in (-9999.0, None, 1e20, nan, -1.0, float(ii.max + 1), float(ii.min) - 1.5):
            ndv = -9999.0 if nd is None else nd
            if holds(dtype, ndv):
                continue
            imgs = cast_images(ndv, dtype)
            for conn in (4, 8):
                mk((1, len(imgs)), dtype, imgs, nodata=ndv, conn=conn, outlets="min")
                out[-1]["narrow"] = "default" if ndv == -9999.0 else "unrepresentable"
                if nd is None:
                    out[-1]["nodata_default"] = True
            # trough: rim one above the highest floor cell, open at one end; floor values within the upper half of
            # the dtype's range, so that every fill height fits the dtype
            floor = [v for v in imgs if v >= ii.max // 2 and v < ii.max] or [ii.max - 1]
            rim = max(floor) + 1
            k = len(floor)
            data = [rim] * (k + 2) + [rim] + floor + [min(floor)] + [rim] * (k + 2)
            mk((3, k + 2), dtype, data, nodata=ndv, conn=8, outlets="edge")
            out[-1]["narrow"] = "default" if ndv == -9999.0 else "unrepresentable"
            if nd is None:
                out[-1]["nodata_default"] = True
    # valid cells next to the nodata value: a trench deeper than 9999 m in a bathymetry raster with nodata -9999 (a
    # nodata hole beside it), values of a few 1e-9 around nodata 0, the float32 neighbours of 1e20 / of the float32
    # image of -9999.9; every such cell is valid: it is filled / drained like any other cell
    for dtype in ("float32", "float64"):
        for conn in (4, 8):
            for outlets in ("edge", "min"):
                mk((4, 5), dtype, [-9990.0, -9991.0, -9990.0, -9992.0, -9990.0,
                                   -9991.0, dt_image(dtype, -9998.93), -9999.0, dt_image(dtype, -9999.06), -9990.5,
                                   -9990.0, dt_image(dtype, -9999.5), dt_image(dtype, -9998.5), -9997.0, -9991.0,
                                   -9990.0, -9990.5, -9991.0, -9990.0, -9990.0], conn=conn, outlets=outlets)
                mk((3, 4), dtype, [1.0, 1.0, 1.0, 1.0, 1.0, dt_image(dtype, 3e-9), dt_image(dtype, -2e-9), 0.5, 1.0, 0.0, 1.0, 1.0],
                   nodata=0.0, conn=conn, outlets=outlets)
                for nd in (1e20, -9999.9):
                    t = dt_image(dtype, nd)
                    mk((3, 3), dtype, [ulp_step(dtype, t, 3), ulp_step(dtype, t, 2), ulp_step(dtype, t, 3),
                                       ulp_step(dtype, t, 2), ulp_step(dtype, t, -1), ulp_step(dtype, t, 1),
                                       ulp_step(dtype, t, 3), ulp_step(dtype, t, 2), ulp_step(dtype, t, 3)],
                       nodata=nd, conn=conn, outlets=outlets)
    # all nodata with edge outlets: nothing to do
    mk((2, 2), "float32", [-9999.0] * 4)
    mk((1, 1), "float32", [3.0])
    mk((1, 1), "float32", [3.0], outlets="min")
    return out


# ----------------------------------------------------------------------------------------------
def run(ctx):
    rng = ctx.rng
    if getattr(ctx, "replay", None):
        desc = ctx.replay.get("failure", {}).get("desc")
        if desc and desc.get("op") == "fill_depressions":
            run_case(ctx, desc, with_from_dem=True)
            return
    quick = ctx.tier == "quick"
    for desc in corner_cases():
        ctx.count("corner")
        run_case(ctx, desc, with_from_dem=True)
    ctx.flush()
    ncase = (700 if quick else 2500) * ctx.escalate
    for k in range(ncase):
        if quick:
            desc = gen_case(rng, 64, 8)
        else:
            big = rng.random() < 0.12
            desc = gen_case(rng, 900 if big else 120, 30 if big else 11)
        n = desc["shape"][0] * desc["shape"][1]
        run_case(ctx, desc, with_from_dem=True, oracle=(n <= 150 or rng.random() < 0.2))
        if len(ctx.cases) >= 200:
            ctx.flush()
    ctx.flush()
    # depth-limited fills with mixed shallow / deep depressions: exercises fill (0 < dz < max_depth), too deep
    # (dz >= max_depth), re-opening of filled neighbours and their reset when visited again
    for k in range((220 if quick else 4000) * ctx.escalate):
        shape = gen_shape(rng, 48 if quick else 100, 8 if quick else 10)
        n = shape[0] * shape[1]
        top = rng.choice([3, 4, 6, 9])
        z = [rng.randint(0, top) for _ in range(n)]
        mask = [rng.random() < 0.08 for _ in range(n)] if rng.random() < 0.3 else [False] * n
        if all(mask):
            mask[0] = False
        dtype = rng.choice(DTYPES)
        nodata = -9999.0
        data = [(nodata if mask[i] else (z[i] if dtype == "int32" else float(z[i]))) for i in range(n)]
        valid_idx = [i for i in range(n) if not mask[i]]
        pits = None if rng.random() < 0.5 else [rng.choice(valid_idx) for _ in range(rng.randint(1, 2))]
        desc = {"op": "fill_depressions", "shape": list(shape), "dtype": dtype, "elevtn": data, "nodata": nodata,
                "connectivity": rng.choice([4, 8]), "outlets": "min" if pits is None or rng.random() < 0.2 else "edge",
                "idxs_pit": pits, "family": "depthmix/%s/integral" % ("holes" if any(mask) else "none"),
                "max_depth": float(rng.choice([1, 2, 2, 3, 3, 4]))}
        run_case(ctx, desc, with_from_dem=True, oracle=False)
        if len(ctx.cases) >= 200:
            ctx.flush()
    ctx.flush()
    # narrow integer DEMs over the whole range of their dtype; default / unrepresentable / in-range nodata
    for k in range((160 if quick else 1200) * ctx.escalate):
        desc = gen_narrow_case(rng, 64, 8) if quick else gen_narrow_case(rng, 120, 11)
        run_case(ctx, desc, with_from_dem=True, oracle=True)
        if len(ctx.cases) >= 200:
            ctx.flush()
    ctx.flush()
    # float DEMs whose valid cells lie next to the (finite) nodata value, on either side of it
    for k in range((200 if quick else 1500) * ctx.escalate):
        desc = gen_near_case(rng, 64, 8) if quick else gen_near_case(rng, 120, 11)
        run_case(ctx, desc, with_from_dem=True, oracle=True)
        if len(ctx.cases) >= 200:
            ctx.flush()
    ctx.flush()
    # tiny universes: 3x3 over 3 levels, 1-D profiles of length <= 7 over 4 levels
    def tiny(shape, levels, conn, outlets, pits, dtype):
        return {"op": "fill_depressions", "shape": list(shape), "dtype": dtype, "elevtn": list(levels), "nodata": -9999.0,
                "connectivity": conn, "outlets": outlets, "idxs_pit": pits, "family": "tiny/none/integral"}

    if quick:
        for _ in range(120 * ctx.escalate):
            if rng.random() < 0.5:
                lv = [rng.randint(0, 2) for _ in range(9)]
                shape = (3, 3)
            else:
                ln = rng.randint(3, 7)
                lv = [rng.randint(0, 3) for _ in range(ln)]
                shape = (1, ln) if rng.random() < 0.5 else (ln, 1)
            mode = rng.choice(["min", "user"])
            pits = [rng.randrange(len(lv))] if mode == "user" else None
            tc = tiny(shape, lv, rng.choice([4, 8]), "min" if mode == "min" else "edge", pits, rng.choice(DTYPES))
            if rng.random() < 0.4:
                tc["max_depth"] = float(rng.choice([0, 1, 1, 2]))
            elif rng.random() < 0.4:
                tc["max_depth"] = gen_neg_depth(rng)
            run_case(ctx, tc, oracle=True)
        ctx.count("tiny-universe-sampled", 120)
    else:
        cnt = 0
        for lv in itertools.product(range(3), repeat=9):
            for conn in (4, 8):
                run_case(ctx, tiny((3, 3), lv, conn, "min", None, "float32"), oracle=False)
                cnt += 1
            pit = sum(lv) % 9
            run_case(ctx, tiny((3, 3), lv, 8 if sum(lv) % 2 else 4, "edge", [pit], "int32"), oracle=False)
            cnt += 1
            dcase = tiny((3, 3), lv, 4 if sum(lv) % 2 else 8, "edge", [(pit * 5 + 1) % 9], "float32")
            dcase["max_depth"] = float(sum(lv[::2]) % 3)
            run_case(ctx, dcase, oracle=False)
            cnt += 1
            if len(ctx.cases) >= 400:
                ctx.flush()
        for ln in range(2, 8):
            for lv in itertools.product(range(4), repeat=ln):
                run_case(ctx, tiny((1, ln), lv, 8, "min", None, "float64"), oracle=False)
                run_case(ctx, tiny((ln, 1), lv, 4, "edge", [sum(lv) % ln], "float32"), oracle=False)
                dcase = tiny((1, ln), lv, 8, "min", None, "int32")
                dcase["max_depth"] = float(1 + sum(lv) % 2)
                run_case(ctx, dcase, oracle=False)
                cnt += 3
                if len(ctx.cases) >= 400:
                    ctx.flush()
        ctx.count("tiny-universe-exhaustive", cnt)
        ctx.exhaustive = True
    ctx.flush()
