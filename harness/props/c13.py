"""C13 - termination, bounds, purity, documented errors: every catalogue operation (the public API
with boundary option values) is executed on the real code
 (i)  interpreted, under the guard of harness/worker.py: negative / out-of-range scalar indexing of
      any array (inputs and arrays created inside the kernels) is recorded, every argument array is
      compared byte-wise with its copy after the call, the object's network must be unchanged by
      non-mutators, a per-call wall-clock budget applies;
 (ii) compiled with NUMBA_BOUNDSCHECK=1 (thorough tier);
 (iii) the documented-error table: invalid option values must raise exactly ValueError / IndexError.
"""
import catalogue
import matrix

OPS = sorted(catalogue.OPS)
RULE = ("worlds: random D8 networks on rasters <= 42 cells (quick) / <= 120 (thorough) incl. 1xN, Nx1, nodata, "
        "and vector networks; every public operation of the catalogue with random documented option values "
        "(boundary values: max_depth 0, scale factor 1, max_length 0, n = 0, empty/full masks); non-trivial = a "
        "case whose option vector contains a boundary value or whose world is 1xN / Nx1 / has nodata; distinct = "
        "SHA-1 of (world, op, args)")
BOUNDARY = {("from_dem", "max_depth", 0.0), ("upscale", "s", 1), ("ucat", "s", 1), ("path", "max_length", 0),
            ("snap", "max_length", 0), ("moving_average", "n", 0), ("moving_median", "n", 0), ("streams", "max_len", 1)}
ALLOWED_EXC = {"ValueError", "IndexError"}
# per-call budget (seconds, interpreted): generous constant for <= 120 cells; a hang is what it detects
BUDGET = 25


def is_boundary(t):
    w = t["world"]
    if 1 in w["shape"] or any(d == len(w["ds"]) for d in w["ds"]):
        return True
    return any((t["op"], k, v) in BOUNDARY for k, v in t["args"].items() if not isinstance(v, (list, dict)))


def judge(ctx, t, r, mode):
    desc = {"op": t["op"], "args": t["args"], "world": t["world"], "mode": mode}
    st = r.get("status")
    if st == "harness-exc":
        raise RuntimeError(f"harness failure in worker: {r}")
    if st == "worker-died":
        ctx.fail(desc, "spec", "worker process died (crash / hang of the whole batch): " + r.get("msg", ""))
        return
    if st == "timeout":
        ctx.fail(desc, "spec", f"operation did not return within {BUDGET}s on {len(t['world']['ds'])} cells (termination)")
        return
    if st == "exc":
        name = r["exc"]
        internal_index = name == "IndexError" and "out of bounds" in r.get("msg", "")
        if name not in ALLOWED_EXC or r.get("module") != "builtins" or internal_index:
            ctx.fail(desc, "spec", f"valid call raised {r.get('module')}.{name}: {r.get('msg')}", tb=r.get("tb"))
            return
        ctx.count("documented-exc:" + name)
    if r.get("guard"):
        ctx.fail(desc, "spec", "array indexed outside its bounds (negative index wraps silently): " + "; ".join(r["guard"]))
    if r.get("inputs_mutated"):
        ctx.fail(desc, "spec", f"operation modified its input array(s) #{r['inputs_mutated']}")
    if r.get("object_mutated"):
        ctx.fail(desc, "spec", "non-mutating operation changed the object's network")
    if r.get("aged"):
        ctx.count("aged-object")
    if r.get("cache_mutated"):
        ctx.fail(desc, "spec", f"non-mutating operation modified in place array(s) the object holds for later queries: _cached{r['cache_mutated']} (earlier queries: {r.get('aged')})")
    if r.get("state_diverged"):
        ctx.fail(desc, "spec", f"after the operation the object's public state differs from a freshly constructed object with the same network / transform: {r['state_diverged']} (earlier queries: {r.get('aged')})")
    ctx.hist["max_wall"] = max(ctx.hist.get("max_wall", 0), r.get("wall", 0))


def run(ctx):
    ctx.no_watchdog()   # this check runs the implementation in worker processes / under its own alarms
    import hashlib, json
    rng = ctx.rng
    # tie to the public API surface of the working tree: a public callable the catalogue does not know
    gaps, dangling = catalogue.api_surface_gaps()
    ctx.hist["api_surface_gaps"] = len(gaps)
    if gaps or dangling:
        ctx.fail({"op": "api-surface", "uncovered": gaps, "dangling": dangling}, "model",
                 f"public API surface changed: {gaps} are neither exercised by the catalogue nor waived (dangling: {dangling})")
    nworlds = (24 if ctx.tier == "quick" else 160) * ctx.escalate
    # every catalogue operation on every world (so each op is exercised ~20 times per quick run)
    tasks = matrix.gen_tasks(rng, nworlds, ctx.tier, per_world=None)
    if ctx.replay:
        d = ctx.replay["failure"]["desc"]
        tasks.insert(0, {"id": "replay", "world": d["world"], "op": d["op"], "args": d["args"], "group": "replay"})
    for t in tasks:
        t["timeout"] = BUDGET
    res = matrix.run_workers(tasks, "guard", {"NUMBA_DISABLE_JIT": "1"}, nproc=14)
    for t in tasks:
        ctx.evaluations += 1
        ctx.count("op:" + t["op"])
        for _k in catalogue.features(t):
            ctx.count("feature:" + _k)
        if is_boundary(t):
            ctx.nontrivial.add(hashlib.sha1(json.dumps([t["world"], t["op"], t["args"]], sort_keys=True).encode()).hexdigest())
        if len(ctx.samples) < 3:
            ctx.samples.append({"op": t["op"], "args": t["args"], "shape": t["world"]["shape"]})
        judge(ctx, t, res[t["id"]], "interpreted+guard")
        ctx.impl_validated += 1
    # documented-error table
    etasks = [{"id": f"e{k}", "world": catalogue.gen_world(rng, "quick", cls=c), "op": "errors", "args": {}, "group": "err"}
              for k, c in enumerate(["raster", "raster", "vector"])]
    eres = matrix.run_workers(etasks, "errors", {"NUMBA_DISABLE_JIT": "1"}, nproc=3)
    for t in etasks:
        r = eres[t["id"]]
        if r.get("status") != "ok":
            raise RuntimeError(f"error-table worker failed: {r}")
        for e in r["errors"]:
            ctx.evaluations += 1
            ctx.count("error-case")
            if e["got"] != e["want"]:
                ctx.fail({"op": "error-case", "case": e["case"], "world": t["world"]}, "spec",
                         f"{e['case']} must raise {e['want']}, got {e['got']}")
    # compiled with bounds checking (thorough): out-of-range accesses raise IndexError
    if ctx.tier == "thorough":
        jt = matrix.gen_tasks(rng, 40, "quick", per_world=12)
        for t in jt:
            t["timeout"] = 240
        jres = matrix.run_workers(jt, "plain", {"NUMBA_DISABLE_JIT": "0", "NUMBA_BOUNDSCHECK": "1"}, nproc=16, group_key="group")
        known_jit = 0
        for t in jt:
            r = jres[t["id"]]
            ctx.evaluations += 1
            if r.get("status") == "exc" and ("affine.Affine" in r.get("msg", "") or "Affine" in r.get("tb", "")) \
                    and r["exc"] in ("TypingError", "ValueError"):
                known_jit += 1       # F07: belongs to C07, counted there
                continue
            if r.get("status") == "timeout":
                ctx.count("jit-compile-slow")
                continue
            judge(ctx, t, r, "jit+boundscheck")
        ctx.hist["jit_affine_typing_skipped"] = known_jit
