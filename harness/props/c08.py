"""C08 - Strahler and classic stream orders: correspondence of Flwdir(Raster).stream_order,
streams.strahler_order, streams.stream_order, core.main_upstream, core.upstream_count(mask) with the
Lean model (eq) and with the declarative recursive definitions (spec: recursion over the upstream
tree / local certificate for Strahler, downstream walk + arg-max certificate for classic)."""
import itertools
import warnings

import numpy as np
from common import (gen_raster_net, gen_forest, mk_raster, mk_vector, canon_idx, ints, exc_class,
                    topo_of)

OPS = ["stream_order(strahler,mask)", "stream_order(classic,mask)", "stream_order(<unknown type>)",
       "streams.strahler_order(seq permuted)", "streams.stream_order(seq permuted, user uparea)",
       "core.main_upstream(uparea,upa_min)", "core.upstream_count(mask)"]
RULE = ("loop-free networks: random D8 networks from DEMs, arbitrary forests on raster shapes and vector "
        "networks (<= 56 cells quick / <= 400 thorough), crafted junctions of 3-8 tributaries whose orders are "
        "all equal / all distinct / max attained once, twice, three times (vector, random relabelling = every "
        "arrival order) and D8 funnels with up to 8 inflows into one cell; every loop-free map on <= 4 (quick) / "
        "<= 5 (thorough) nodes; masks: none, upstream-area threshold, random downstream-closed, full, empty, "
        "a few non-closed (model comparison only); upstream-area fields: cell counts, accumulated random cell "
        "areas, arbitrary integer fields with ties and values <= upa_min, NEAR ties (cell areas w*2**10 + "
        "j*2**-10 accumulated exactly by the harness / arbitrary fields of such values: inflows of a confluence "
        "differ by a relative 2**-30 .. 2**-18, the smaller one at the lower or the higher index; upa_min just "
        "below / at / above an inflow; vector Flwdir(area=), Flwdir.main_upstream(uparea=), core.main_upstream; "
        "compared exactly in units of 2**-10); kernels are also called with the "
        "harness' own random downstream-first cell orders. non-trivial = >= 2 cells in the masked network, "
        ">= 1 confluence of masked streams, masked path length >= 3; distinct = SHA-1 of (op, network, mask, "
        "type, uparea)")
SIG_WRAP = "classic-order-uint8-wrap"
IDX_DTYPES = [np.int32, np.int32, np.uint32, np.int64]


def classify(f):
    if f.get("sig") == SIG_WRAP:
        return SIG_WRAP
    return None


# ----------------------------------------------------------------------------------------------
# generators
# ----------------------------------------------------------------------------------------------
def rand_topo(rng, ds):
    """a random downstream-first order of the cells that reach a pit"""
    n = len(ds)
    ups = [[] for _ in range(n)]
    for i, d in enumerate(ds):
        if d != n and d != i:
            ups[d].append(i)
    frontier = [i for i in range(n) if ds[i] == i]
    seq = []
    while frontier:
        k = rng.randrange(len(frontier))
        frontier[k], frontier[-1] = frontier[-1], frontier[k]
        i = frontier.pop()
        seq.append(i)
        frontier.extend(ups[i])
    return seq


def cell_counts(ds):
    n = len(ds)
    cnt = [0] * n
    seq = topo_of(ds)
    for i in seq:
        cnt[i] = 1
    for i in reversed(seq):
        if ds[i] != i:
            cnt[ds[i]] += cnt[i]
    return cnt


# near ties: every area is an integer multiple of 2**-10 below 2**53 * 2**-10, so float64 sums are exact and
# the field scaled by 2**10 is an exact order embedding into the integers the Lean driver compares
NEAR_UNIT = 2 ** 10


def near_cell_areas(rng, n):
    """cell areas w * 2**10 + j * 2**-10 (w in 1..3, j in 0..255) as exact integers in units of 2**-10"""
    jmax = rng.choice([1, 1, 3, 16, 255])
    wmax = rng.choice([1, 1, 1, 2, 3])
    return [rng.randint(1, wmax) * 2 ** 20 + rng.randint(0, jmax) for _ in range(n)]


def accumulate(ds, cell):
    """harness' own exact (integer) upstream accumulation; 0 at cells outside the network"""
    n = len(ds)
    acc = [0] * n
    seq = topo_of(ds)
    for i in seq:
        acc[i] = cell[i]
    for i in reversed(seq):
        if ds[i] != i:
            acc[ds[i]] += acc[i]
    return acc


def balance_confluence(rng, ds, cell):
    """rewrite the cell areas of one confluence so that two of its inflowing branches carry the same
    multiple of 2**10 and differ only in the 2**-10 digits (branches of unequal cell counts would
    otherwise never come close): the branch with fewer cells gets the missing multiples on its top cell"""
    n = len(ds)
    ups = [[] for _ in range(n)]
    for i, d in enumerate(ds):
        if d != n and d != i:
            ups[d].append(i)
    conf = [i for i in range(n) if len(ups[i]) >= 2]
    if not conf:
        return
    a, b = rng.sample(ups[rng.choice(conf)], 2)
    acc = accumulate(ds, cell)
    wa, wb = acc[a] >> 20, acc[b] >> 20
    if wa < wb:
        cell[a] += (wb - wa) << 20
    elif wb < wa:
        cell[b] += (wa - wb) << 20


def near_stats(ctx, ds, upa, upa_min):
    """count the confluences whose arg-max inflow has a rival within a relative 2**-30 .. 2**-18 (integers)"""
    n = len(ds)
    ups = [[] for _ in range(n)]
    for i, d in enumerate(ds):
        if d != n and d != i:
            ups[d].append(i)
    for l in ups:
        if len(l) < 2:
            continue
        top = max(upa[i] for i in l)
        if top <= 0:
            continue
        first = min(i for i in l if upa[i] == top)
        near = [i for i in l if 0 < (top - upa[i]) and (top - upa[i]) << 18 <= top <= (top - upa[i]) << 30]
        if near:
            ctx.count("near-tie-confluence")
            if any(i < first for i in near):
                ctx.count("near-tie-confluence:smaller-branch-at-lower-index")
            if any(i > first for i in near):
                ctx.count("near-tie-confluence:smaller-branch-at-higher-index")
            if any((top - upa[i]) * 10 ** 6 < top for i in near):
                ctx.count("near-tie-confluence:below-1ppm")
            if len(l) >= 3:
                ctx.count("near-tie-confluence:junction>=3")
        if upa_min > 0 and any(0 < abs(upa[i] - upa_min) and abs(upa[i] - upa_min) << 18 <= upa_min for i in l):
            ctx.count("near-tie-with-upa_min")


def build_order_tree(rng, links, new, order, depth=0):
    """append a sub-network of Strahler order `order` to `links` (child -> parent pairs are stored as
    links[child] = parent); returns its outlet node"""
    root = new()
    node = root
    for _ in range(rng.randint(0, 1)):  # a short reach below the junction
        up = new()
        links[up] = node
        node = up
    if order <= 1:
        return root
    pat = rng.random()
    if pat < 0.55 or depth > 2:
        kids = [order - 1, order - 1]
    elif pat < 0.8:
        kids = [order, rng.randint(1, order - 1)]
        if depth > 1:
            kids = [order - 1, order - 1]
    else:
        kids = [order - 1, order - 1, rng.randint(1, order - 1)]
    rng.shuffle(kids)
    for o in kids:
        c = build_order_tree(rng, links, new, o, depth + 1)
        links[c] = node
    return root


def gen_junction_net(rng, max_order=3):
    """vector network with one junction of 3-8 tributaries of prescribed Strahler orders"""
    k = rng.randint(3, 8)
    pat = rng.choice(["equal", "distinct", "max1", "max2", "max3", "random"])
    top = rng.randint(1, max_order)
    if pat == "equal":
        orders = [top] * k
    elif pat == "distinct":
        orders = [1 + (j % max_order) for j in range(k)] if k <= max_order else \
            [rng.randint(1, max(1, top - 1)) for _ in range(k - 1)] + [top]
        orders = list(dict.fromkeys(orders)) if k <= max_order else orders
        while len(orders) < 3:
            orders.append(rng.randint(1, top))
    elif pat in ("max1", "max2", "max3"):
        m = int(pat[-1])
        top = max(top, 2)
        orders = [top] * m + [rng.randint(1, top - 1) for _ in range(max(k - m, 1))]
    else:
        orders = [rng.randint(1, max_order) for _ in range(k)]
    rng.shuffle(orders)
    links = {}
    counter = [0]

    def new():
        counter[0] += 1
        return counter[0] - 1

    junction = new()
    node = junction
    for _ in range(rng.randint(0, 2)):  # reach between junction and pit
        dn = new()
        links[node] = dn
        node = dn
    pit = node
    links[pit] = pit
    if rng.random() < 0.3:  # a second tributary further down
        c = build_order_tree(rng, links, new, rng.randint(1, max_order))
        links[c] = pit
    for o in orders:
        c = build_order_tree(rng, links, new, o)
        links[c] = junction
    m = counter[0]
    extra = rng.randint(0, 3)  # nodata nodes
    n = m + extra
    perm = list(range(n))
    rng.shuffle(perm)
    ds = [n] * n
    for c, p in links.items():
        ds[perm[c]] = perm[p]
    return ds, "junction:" + pat, len(orders)


def gen_d8_funnel(rng):
    """true D8 network in which the cells drain towards a centre cell (up to 8 inflows)"""
    nrow, ncol = rng.randint(3, 7), rng.randint(3, 7)
    n = nrow * ncol
    r0, c0 = rng.randint(1, nrow - 2), rng.randint(1, ncol - 2)
    valid = [rng.random() >= 0.08 for _ in range(n)]
    valid[r0 * ncol + c0] = True
    key = lambda j: (max(abs(j // ncol - r0), abs(j % ncol - c0)), j)
    ds = [n] * n
    p_same = rng.choice([0.0, 0.15, 0.4])
    for i in range(n):
        if not valid[i]:
            continue
        r, c = divmod(i, ncol)
        lower, same = [], []
        for dr in (-1, 0, 1):
            for dc in (-1, 0, 1):
                r1, c1 = r + dr, c + dc
                if (dr or dc) and 0 <= r1 < nrow and 0 <= c1 < ncol:
                    j = r1 * ncol + c1
                    if valid[j] and key(j) < key(i):
                        (lower if key(j)[0] < key(i)[0] else same).append(j)
        if same and rng.random() < p_same:
            ds[i] = rng.choice(same)
        elif lower:
            ds[i] = rng.choice(lower)
        elif same:
            ds[i] = rng.choice(same)
        else:
            ds[i] = i
    ctr = r0 * ncol + c0
    if ds[ctr] == ctr and rng.random() < 0.4:  # let the centre drain on (7 inflows at most)
        out = [j for j in range(n) if valid[j] and j != ctr and max(abs(j // ncol - r0), abs(j % ncol - c0)) == 1]
        if out:
            j = rng.choice(out)
            ds[j] = j
            ds[ctr] = j
    return ds, (nrow, ncol)


def gen_net(rng, max_cells):
    """(ds, shape | None, family)"""
    u = rng.random()
    if u < 0.30:
        ds, fam, _ = gen_junction_net(rng, max_order=3 if max_cells <= 56 else 4)
        return ds, None, fam
    if u < 0.50:
        ds, shape = gen_d8_funnel(rng)
        return ds, shape, "d8funnel"
    if u < 0.65:
        n = rng.randint(4, max_cells)
        return gen_forest(rng, n, fanin_bias=rng.choice([0.0, 0.5, 0.8])), None, "vforest"
    ds, shape, fam = gen_raster_net(rng, max_cells=max_cells)
    return ds, shape, fam


def gen_mask(rng, ds, upa):
    """(mask list of bool | None, kind)"""
    n = len(ds)
    valid = [i for i in range(n) if ds[i] != n]
    u = rng.random()
    if u < 0.25:
        return None, "none"
    if u < 0.55:
        t = rng.choice(sorted(set(upa[i] for i in valid)))
        return [ds[i] != n and upa[i] >= t for i in range(n)], "threshold"
    if u < 0.82:
        m = [False] * n
        for _ in range(rng.randint(1, max(1, len(valid) // 3))):
            i = rng.choice(valid)
            while not m[i]:
                m[i] = True
                i = ds[i]
        # off-network cells may carry anything
        if rng.random() < 0.3:
            for i in range(n):
                if ds[i] == n:
                    m[i] = rng.random() < 0.5
        return m, "closed"
    if u < 0.87:
        return [True] * n, "full"
    if u < 0.90:
        return [False] * n, "empty"
    return [rng.random() < 0.6 for _ in range(n)], "random"


def masked_features(ds, mask):
    n = len(ds)
    inm = [ds[i] != n and (mask is None or mask[i]) for i in range(n)]
    nup = [0] * n
    for i in range(n):
        if inm[i] and ds[i] != i:
            nup[ds[i]] += 1
    best = 0
    for i in range(n):
        k, j = 0, i
        while inm[j] and ds[j] != j and k <= n:
            j = ds[j]
            k += 1
        best = max(best, k)
    return {"cells": sum(inm), "conf": sum(1 for i in range(n) if nup[i] > 1),
            "maxin": max(nup) if nup else 0, "plen": best, "nup": nup, "inm": inm}


def is_closed(ds, mask):
    n = len(ds)
    return mask is None or all(mask[ds[i]] for i in range(n) if ds[i] != n and mask[i])


# ----------------------------------------------------------------------------------------------
# the check
# ----------------------------------------------------------------------------------------------
def run(ctx):
    rng = ctx.rng
    quick = ctx.tier == "quick"
    ncase = (260 if quick else 9000) * ctx.escalate
    max_cells = 56 if quick else 400
    _wrap_case(ctx)
    _dispatch_errors(ctx)
    _exhaustive(ctx, 4 if quick else 5)
    for k in range(ncase):
        ds, shape, fam = gen_net(rng, max_cells if rng.random() < 0.5 else 56)
        ctx.count("family:" + fam.split(":")[0])
        if ":" in fam:
            ctx.count("junction-pattern:" + fam.split(":")[1])
        one_case(ctx, ds, shape)
        if len(ctx.cases) > 300:
            ctx.flush()


def one_case(ctx, ds, shape, mask_kind=None, which=None):
    rng = ctx.rng
    n = len(ds)
    dt = rng.choice(IDX_DTYPES)
    cnt = cell_counts(ds)
    which = which or rng.choice(["strahler", "strahler", "classic", "classic", "classic-user"])
    area = None
    near_cell = None
    try:
        if shape is None:
            u = rng.random()
            if which == "classic" and u < 0.3:
                # near ties: cell areas w*2**10 + j*2**-10, exact in float64 (also when accumulated)
                near_cell = near_cell_areas(rng, n)
                if rng.random() < 0.7:
                    balance_confluence(rng, ds, near_cell)
                area = [c / NEAR_UNIT for c in near_cell]
                flw = mk_vector(ds, dt, area=np.array(area, dtype=np.float64))
            elif which == "classic" and u < 0.7:
                area = [float(rng.choice([1, 1, 2, 3, 5, 8, 40])) for _ in range(n)]
                flw = mk_vector(ds, dt, area=np.array(area, dtype=np.float64))
            else:
                flw = mk_vector(ds, dt)
        else:
            flw = mk_raster(ds, shape, dt)
    except ValueError:
        ctx.count("ctor-rejected")
        return
    mask, mkind = gen_mask(rng, ds, cnt) if mask_kind is None else mask_kind
    ctx.count("mask:" + mkind)
    closed = is_closed(ds, mask)
    feat = masked_features(ds, mask)
    nontriv = feat["cells"] >= 2 and feat["conf"] >= 1 and feat["plen"] >= 3
    for d in set(x for x in feat["nup"] if x >= 2):
        ctx.count(f"junction-degree:{d}")
    if feat["maxin"] >= 3:
        ctx.count("cases-with-junction>=3")
    mask_np = None if mask is None else np.array(mask, dtype=bool)
    mask_api = mask_np if (mask_np is None or shape is None) else mask_np.reshape(shape)
    seq = canon_idx(flw.idxs_seq, n)
    seq2 = rand_topo(rng, ds)
    seq2_np = np.array(seq2, dtype=flw.idxs_ds.dtype)
    base = {"ds": ds, "shape": list(shape) if shape else None, "mask": mask, "idx_dtype": np.dtype(dt).name}
    from pyflwdir import streams, core

    if shape is not None and getattr(flw, "cache", True) and rng.random() < 0.3:
        # queries of the same family that read (and must not touch) the order map the object may hold: sub-basins by
        # stream order inside a mask, stream features above a minimum order
        try:
            u = rng.random()
            pm = np.array([rng.random() < 0.6 for _ in range(n)], dtype=bool).reshape(shape)
            if u < 0.5:
                flw.subbasins_streamorder(min_sto=rng.choice([-2, 1, 2]), mask=pm)
            elif u < 0.8:
                flw.streams(min_sto=rng.choice([2, 3]))
            else:
                flw.stream_order(mask=pm)
            ctx.count("prior-query-of-the-order-family")
        except Exception:  # noqa: BLE001  (never decides anything)
            pass
    if shape is not None and getattr(flw, "cache", True) and rng.random() < 0.3:
        # earlier queries with NON-DEFAULT thresholds that bite on this raster (a few cells): sub-basins above an
        # upstream-area threshold (Pfafstetter / area), orders / sub-basins / streams inside an upstream-area stream mask,
        # main stems for a user area map; the order maps and main upstream cells the object holds must not notice
        try:
            k = rng.choice(sorted(set(c for c in cnt if c >= 2)) or [2])
            upa_np = np.array(cnt, dtype=np.float64).reshape(shape)
            u = rng.random()
            if u < 0.3:
                flw.subbasins_pfafstetter(depth=rng.choice([1, 2]), upa_min=float(k) + rng.choice([0.0, 0.5]),
                                          **({"uparea": upa_np} if rng.random() < 0.5 else {}))
                what = "subbasins_pfafstetter(upa_min)"
            elif u < 0.5:
                flw.subbasins_area(float(k), **({"uparea": upa_np} if rng.random() < 0.5 else {}))
                what = "subbasins_area(area_min)"
            elif u < 0.65:
                flw.stream_order(type=rng.choice(["strahler", "classic"]), mask=upa_np >= k)
                what = "stream_order(mask=uparea>=k)"
            elif u < 0.8:
                flw.subbasins_streamorder(min_sto=rng.choice([-2, -1, 2, 3]), mask=upa_np >= k)
                what = "subbasins_streamorder(mask=uparea>=k)"
            elif u < 0.9:
                flw.streams(min_sto=rng.choice([1, 2]), mask=upa_np >= k)
                what = "streams(mask=uparea>=k)"
            else:
                flw.floodplains(np.zeros(shape, dtype=np.float32), upa_min=float(k))
                what = "floodplains(upa_min)"
            ctx.count("feature:prior-threshold-query")
            ctx.count("feature:prior-threshold-query:" + what)
        except Exception:  # noqa: BLE001  (never decides anything)
            pass
    if which == "strahler":
        spell = rng.choice(["strahler", "strahler", "Strahler", "STRAHLER", None])
        kw = {} if spell is None else {"type": spell}
        out = flw.stream_order(mask=mask_api, **kw)
        out2 = streams.strahler_order(flw.idxs_ds, seq2_np, mask=mask_np)
        ctx.count("op:strahler")
        _add_strahler(ctx, {"op": "stream_order", "type": spell, **base}, ds, seq, mask, out, closed, feat, nontriv,
                      dispatch=True, shape=shape)
        _add_strahler(ctx, {"op": "streams.strahler_order", "seq": seq2, **base}, ds, seq2, mask, out2, closed,
                      feat, nontriv, same_as=ints(out))
    elif which == "classic":
        spell = rng.choice(["classic", "classic", "Classic", "CLASSIC"])
        out = flw.stream_order(type=spell, mask=mask_api)
        usmain = canon_idx(flw.idxs_us_main, n)
        upa_impl = np.asarray(flw.upstream_area()).ravel()
        if near_cell is not None:
            # units of 2**-10: the implementation's float64 accumulation has to be the harness' exact integer sum
            own = accumulate(ds, near_cell)
            upa = ints(upa_impl * NEAR_UNIT)
            exact = all(float(a) == b * NEAR_UNIT for a, b in zip(upa, upa_impl.tolist())) and \
                all(upa[i] == own[i] for i in range(n) if ds[i] != n)
            near_stats(ctx, ds, upa, 0)
        else:
            upa = ints(upa_impl)
            exact = all(float(a) == float(b) for a, b in zip(upa, upa_impl.tolist()))
        ctx.count("op:classic")
        ctx.count("classic-area:" + ("near-ties" if near_cell is not None else "custom" if area is not None else "cells"))
        _add_classic(ctx, {"op": "stream_order", "type": spell, "area": area,
                           "area_unit": "uparea compared in units of 2**-10" if near_cell is not None else None, **base},
                     ds, seq, mask, upa, 0, usmain, out, closed, nontriv, dispatch=True, exact=exact)
    else:
        # kernel level: arbitrary upstream-area field (ties, values <= upa_min), random cell order
        style = rng.choice(["counts", "ties", "const", "wild", "signed", "near-accu", "near-field"])
        if style.startswith("near"):
            _near_user(ctx, flw, ds, shape, mask, mask_np, seq2, seq2_np, base, closed, nontriv, style)
            return
        if style == "counts":
            upa = [cnt[i] if ds[i] != n else -9999 for i in range(n)]
        elif style == "ties":
            upa = [rng.randint(1, 3) for _ in range(n)]
        elif style == "const":
            upa = [rng.choice([0, 1, 7])] * n
        elif style == "wild":
            upa = [rng.randint(1, 1000) for _ in range(n)]
        else:
            upa = [rng.randint(-3, 3) for _ in range(n)]
        upa_min = rng.choice([0, 0, 0, 1, 2, -5])
        fdt = rng.choice([np.float64, np.float32, np.int32, np.int64])
        upa_np = np.array(upa, dtype=fdt)
        usm = core.main_upstream(flw.idxs_ds, upa_np, upa_min=upa_min, mv=flw._mv)
        out = streams.stream_order(flw.idxs_ds, seq2_np, usm, mask=mask_np, mv=flw._mv)
        nupi = core.upstream_count(flw.idxs_ds, mv=flw._mv, mask=mask_np)
        ctx.count("op:classic-user")
        ctx.count("uparea-style:" + style)
        _add_classic(ctx, {"op": "streams.stream_order", "seq": seq2, "uparea": upa, "upa_min": upa_min,
                           "uparea_dtype": np.dtype(fdt).name, **base},
                     ds, seq2, mask, upa, upa_min, canon_idx(usm, n), out, closed, nontriv, nup_impl=ints(nupi))


def _near_user(ctx, flw, ds, shape, mask, mask_np, seq2, seq2_np, base, closed, nontriv, style):
    """kernel / Flwdir.main_upstream(uparea=) with user upstream-area maps with NEAR ties: the harness' own exact
    accumulation of cell areas w*2**10 + j*2**-10 (near-accu) or an arbitrary field of such values (near-field);
    float64 holds every value exactly, the model / oracle compare the same field in units of 2**-10"""
    from pyflwdir import streams, core
    rng = ctx.rng
    n = len(ds)
    cell = near_cell_areas(rng, n)
    if style == "near-accu":
        if rng.random() < 0.7:
            balance_confluence(rng, ds, cell)
        upa = accumulate(ds, cell)
    else:
        w = rng.randint(1, rng.choice([1, 3, 40, 1000])) << 20
        upa = [w + (c & 0xFF) for c in cell]
    for i in range(n):
        if ds[i] == n:
            upa[i] = -9999 * NEAR_UNIT
    valid = [i for i in range(n) if ds[i] != n and ds[i] != i]
    via = rng.choice(["core", "core", "Flwdir.main_upstream"])
    if via == "core" and valid and rng.random() < 0.5:
        # threshold right at / one unit (relative <= 2**-20) beside the area of an inflow
        upa_min = upa[rng.choice(valid)] + rng.choice([-1, 0, 1])
    else:
        upa_min = 0
    upa_np = np.array(upa, dtype=np.float64) / NEAR_UNIT
    exact = all(float(a) == b * NEAR_UNIT for a, b in zip(upa, upa_np.tolist()))
    if via == "core":
        usm = core.main_upstream(flw.idxs_ds, upa_np, upa_min=upa_min / NEAR_UNIT, mv=flw._mv)
    else:
        usm = flw.main_upstream(uparea=upa_np if shape is None else upa_np.reshape(shape))
    out = streams.stream_order(flw.idxs_ds, seq2_np, usm, mask=mask_np, mv=flw._mv)
    nupi = core.upstream_count(flw.idxs_ds, mv=flw._mv, mask=mask_np)
    ctx.count("op:classic-user")
    ctx.count("uparea-style:" + style)
    ctx.count("near-via:" + via)
    near_stats(ctx, ds, upa, upa_min)
    _add_classic(ctx, {"op": "streams.stream_order", "main_upstream": via, "seq": seq2, "uparea": upa_np.tolist(),
                       "upa_min": upa_min / NEAR_UNIT, "uparea_dtype": "float64",
                       "area_unit": "uparea / upa_min compared in units of 2**-10", **base},
                 ds, seq2, mask, upa, upa_min, canon_idx(usm, n), out, closed, nontriv, nup_impl=ints(nupi), exact=exact)


def _add_strahler(ctx, desc, ds, seq, mask, out, closed, feat, nontriv, dispatch=False, same_as=None, shape=None):
    n = len(ds)
    impl = ints(out)
    shape_ok = shape is None or tuple(np.asarray(out).shape) == tuple(shape)
    kind = "spec" if closed else "model"   # the property speaks about downstream-closed masks only
    # junction statistics on the implementation's own result (equal / distinct maxima)
    ups = [[] for _ in range(n)]
    for i in range(n):
        if feat["inm"][i] and ds[i] != i:
            ups[ds[i]].append(impl[i])
    for l in ups:
        if len(l) >= 2:
            c = l.count(max(l))
            ctx.count("junction:max-attained-" + ("once" if c == 1 else "twice" if c == 2 else "3+"))
            if len(l) >= 3:
                ctx.count("junction>=3:max-attained-" + ("once" if c == 1 else "twice" if c == 2 else "3+"))
    ctx.count("max-order:%d" % (max(impl) if impl else 0))

    def judge(ans):
        a = ans[0]
        if "__err__" in a:
            return [{"kind": "model", "what": "driver error " + a["__err__"]}]
        fs = []
        if a["topo"] != [1] or a["cover"] != [1]:
            fs.append({"kind": "spec", "what": "cell order handed to the sweep is not a complete downstream-first order (C03 hypothesis)"})
        if (a["closed"] == [1]) != closed:
            fs.append({"kind": "model", "what": "harness and driver disagree on mask closedness"})
        if closed:
            bad = [i for i in range(n) if not feat["inm"][i] and impl[i] != 0]
            if bad:
                fs.append({"kind": "spec", "what": f"strahler order not 0 outside network/mask at cells {bad[:5]}", "impl": impl})
            bad = [i for i in range(n) if feat["inm"][i] and feat["nup"][i] == 0 and impl[i] != 1]
            if bad:
                fs.append({"kind": "spec", "what": f"strahler order not 1 at headwaters {bad[:5]}", "impl": impl})
        if impl != a["spec"]:
            bad = [i for i in range(n) if impl[i] != a["spec"][i]][:5]
            fs.append({"kind": kind, "what": f"strahler order differs from the recursive definition at cells {bad}",
                       "impl": impl, "spec": a["spec"]})
        if a["cert"] != [1]:
            fs.append({"kind": kind, "what": "strahler order violates the junction rule (local certificate)", "impl": impl})
        if impl != a["model"]:
            fs.append({"kind": "model", "what": "strahler_order: implementation != Lean model", "impl": impl, "model": a["model"]})
        if a["cert.model"] != [1]:
            fs.append({"kind": "model", "what": "Lean model output rejected by the certificate"})
        if same_as is not None and impl != same_as:
            fs.append({"kind": kind, "what": "strahler order depends on the cell order (two downstream-first orders give different results)",
                       "impl": impl, "other": same_as})
        if not shape_ok:
            fs.append({"kind": "model", "what": "result shape differs from raster shape"})
        if dispatch:
            b = ans[1]
            if "__err__" in b or b.get("raises") != [0] or b["model"] != impl:
                fs.append({"kind": "model", "what": "stream_order(type=strahler) dispatch: implementation != Lean model"})
        return fs

    reqs = [("strahler_order", {"ds": ds, "seq": seq, "mask": mask, "impl": impl})]
    if dispatch:
        reqs.append(("stream_order", {"type": 0, "ds": ds, "seq": seq, "mask": mask, "uparea": [0] * n}))
    ctx.add(desc, reqs, judge, nontrivial=nontriv)


def _add_classic(ctx, desc, ds, seq, mask, upa, upa_min, usmain, out, closed, nontriv, dispatch=False,
                 nup_impl=None, exact=True):
    n = len(ds)
    impl = ints(out)
    kind = "spec" if closed else "model"
    ctx.count("max-classic-order:%d" % min(max(impl) if impl else 0, 9))

    def judge(ans):
        a = ans[0]
        if "__err__" in a:
            return [{"kind": "model", "what": "driver error " + a["__err__"]}]
        fs = []
        if not exact:
            fs.append({"kind": "model", "what": "harness: upstream area not integer valued / not the exact accumulation (input discipline broken)"})
        if a["topo"] != [1] or a["cover"] != [1]:
            fs.append({"kind": "spec", "what": "cell order handed to the sweep is not a complete downstream-first order (C03 hypothesis)"})
        if a["main.cert"] != [1]:
            fs.append({"kind": "spec", "what": "main upstream cell is not an inflow of maximal upstream area (> upa_min)",
                       "usmain": usmain, "spec.main": a["spec.main"]})
        if usmain != a["model.main"]:
            if a["main.cert"] == [1]:
                ctx.count("main-tie-broken-differently")   # allowed by the property
        if a["model.main"] != a["spec.main"]:
            fs.append({"kind": "model", "what": "Lean main_upstream model != least-index arg-max"})
        if closed:
            pits = [i for i in range(n) if ds[i] == i and (mask is None or mask[i]) and impl[i] != 1]
            if pits:
                fs.append({"kind": "spec", "what": f"classic order not 1 at pits {pits[:5]}", "impl": impl})
            off = [i for i in range(n) if (ds[i] == n or (mask is not None and not mask[i])) and impl[i] != 0]
            if off:
                fs.append({"kind": "spec", "what": f"classic order not 0 outside network/mask at {off[:5]}", "impl": impl})
        if impl != a["spec"]:
            bad = [i for i in range(n) if impl[i] != a["spec"][i]][:5]
            f = {"kind": kind, "what": f"classic order differs from 1 + number of non-main confluence steps to the pit at cells {bad}",
                 "impl": impl, "spec": a["spec"]}
            if max(a["spec"]) >= 256 and all(impl[i] == a["spec"][i] % 256 for i in range(n)):
                f["sig"] = SIG_WRAP
                f["what"] = "classic order >= 256 wraps around in uint8 storage; first cells " + str(bad)
            fs.append(f)
        # the code stores uint8: the exact code model is the loop with arithmetic modulo 256
        # (theorem classic_u8_exact: identical to the unbounded model while no order exceeds 255)
        if impl != a["model.u8"]:
            fs.append({"kind": "model", "what": "stream_order (classic): implementation != Lean model (uint8 loop)",
                       "impl": impl, "model": a["model.u8"]})
        if max(a["model"] + [0]) <= 255 and a["model"] != a["model.u8"]:
            fs.append({"kind": "model", "what": "Lean uint8 loop differs from the unbounded model below 256"})
        if a["model.nup"] != [x if ds[i] != n or x > 0 else -9 for i, x in enumerate(a["spec.nup"])]:
            fs.append({"kind": "model", "what": "Lean upstream_count model != declarative count"})
        if nup_impl is not None and nup_impl != a["model.nup"]:
            fs.append({"kind": "model", "what": "upstream_count(mask): implementation != Lean model", "impl": nup_impl, "model": a["model.nup"]})
        if dispatch:
            b = ans[1]
            if "__err__" in b or b.get("raises") != [0]:
                fs.append({"kind": "model", "what": "stream_order(type=classic) dispatch: driver error"})
            elif b["model"] != impl and usmain == a["model.main"]:
                f = {"kind": "model", "what": "stream_order(type=classic) dispatch: implementation != Lean model"}
                if max(b["model"]) >= 256 and all(impl[i] == b["model"][i] % 256 for i in range(n)):
                    f["sig"] = SIG_WRAP
                fs.append(f)
        return fs

    reqs = [("classic_order", {"ds": ds, "seq": seq, "mask": mask, "uparea": upa, "upa_min": upa_min, "usmain": usmain})]
    if dispatch:
        reqs.append(("stream_order", {"type": 1, "ds": ds, "seq": seq, "mask": mask, "uparea": upa}))
    ctx.add(desc, reqs, judge, nontrivial=nontriv)


def _dispatch_errors(ctx):
    """unknown type strings raise ValueError (model: `none`)"""
    ds = [0, 0, 1, 1]
    for t in ["hack", "", "strahler ", "shreve"]:
        flw = mk_vector(ds)
        try:
            flw.stream_order(type=t)
            got = "returns"
        except Exception as e:
            got = exc_class(e)
        ctx.count("op:unknown-type")

        def judge(ans, got=got, t=t):
            a = ans[0]
            if "__err__" in a:
                return [{"kind": "model", "what": "driver error " + a["__err__"]}]
            if (a["raises"] == [1]) != (got == "ValueError"):
                return [{"kind": "model", "what": f"stream_order(type={t!r}): implementation {got}, model raises={a['raises']}"}]
            return []

        ctx.add({"op": "stream_order", "type": t, "ds": ds}, [("stream_order", {"type": 2, "ds": ds, "seq": [0, 1, 2, 3],
                "uparea": [4, 3, 1, 1]})], judge, nontrivial=False)


def _wrap_case(ctx):
    """crafted deep comb: classic order 257 (known finding F08: uint8 storage wraps at 256), and the same
    comb one level below the limit (order 255 must be exact)"""
    for K in (254, 256):
        n = 2 * K + 1
        ds = [max(k - 1, 0) for k in range(K + 1)] + list(range(K))
        area = [1.0] * (K + 1) + [2.0 ** (2 * (K - k) + 10) for k in range(K)]
        flw = mk_vector(ds, np.int32, area=np.array(area, dtype=np.float64))
        with warnings.catch_warnings():
            warnings.simplefilter("ignore")   # numpy reports the uint8 overflow as a RuntimeWarning
            out = flw.stream_order(type="classic")
        seq = canon_idx(flw.idxs_seq, n)
        usmain = canon_idx(flw.idxs_us_main, n)
        # upstream areas are huge powers of two: pass their exact ranks (order-isomorphic integers; the
        # kernels only compare them) - checked to be an exact order embedding
        upa_impl = np.asarray(flw.upstream_area()).ravel().tolist()
        vals = sorted(set(upa_impl))
        rank = {v: r + 1 for r, v in enumerate(vals)}
        upa = [rank[v] for v in upa_impl]
        ctx.count("crafted:deep-comb")
        _add_classic(ctx, {"op": "stream_order", "type": "classic", "crafted": f"deep comb K={K}", "ds": ds},
                     ds, seq, None, upa, 0, usmain, out, True, True)


def _exhaustive(ctx, m):
    """every loop-free map on 2..m nodes (no nodata), both order types, no mask + one closed mask"""
    rng = ctx.rng
    total = 0
    for n in range(2, m + 1):
        for tup in itertools.product(range(n), repeat=n):
            ds = list(tup)
            ok = True
            for i in range(n):
                j, k = i, 0
                while ds[j] != j and k <= n:
                    j, k = ds[j], k + 1
                if ds[j] != j:
                    ok = False
                    break
            if not ok:
                continue
            total += 1
            if n == m and m >= 5 and rng.random() < 0.5:
                continue
            cnt = cell_counts(ds)
            one_case(ctx, ds, None, mask_kind=(None, "none"), which=rng.choice(["strahler", "classic", "classic-user"]))
            if rng.random() < 0.5:
                one_case(ctx, ds, None, mask_kind=gen_mask(rng, ds, cnt), which=rng.choice(["strahler", "classic-user"]))
            if len(ctx.cases) > 300:
                ctx.flush()
    ctx.count("exhaustive-loopfree-maps", total)
    ctx.exhaustive = True
