"""C01_fn - translator tie for the straight-line integer functions (`harness/extract_fn.py` ->
`lean/PfVerif/Generated/Funcs.lean`, obligations `gen_*_eq_model` in `Props/C01_fn.lean`).

What this harness adds to the obligations (which hold for all inputs once they build):

(a) **translator self-test** (the translator is trusted code, so it is tested on every run): a synthetic module with
    every supported construct is translated, the emitted defs are *evaluated by Lean itself* (`lake env lean --run`
    on a generated script - the compiled driver never imports `Generated`) on random ints incl. negatives and zero,
    and compared with Python's own evaluation of the same source (floor division / modulo of negative numbers,
    simultaneous tuple assignment, early returns, fall-through after `if`, shadowing). Functions with a construct
    outside the fragment (loops, `/`, `**`, globals, calls, int truthiness, lists, a module-level `abs`, …) must be
    REFUSED. A failure here is a broken check (exit 2), never a VIOLATION.
    In the same Lean run the defs generated from the **real** functions are evaluated on random arguments of the
    documented domain and compared with the real Python functions (`gen:` cases; a difference is a `model` failure:
    the generated text is not the function - the obligations would be about something else).
(b) **differential**: the real functions against the hand-written models (`model.*` of `c01fn.*` driver ops) and
    against the division-free declarative definitions of `Model/C01_fn.lean` (`spec.*`): implementation != spec is a
    `spec` failure (replayable failing input), implementation == spec but != model a `model` failure.

A private helper that is absent from the tree under check is counted and skipped (a harmless rewrite may inline it).
"""
import os
import subprocess
import sys
import warnings

import numpy as np

HERE = os.path.dirname(os.path.abspath(__file__))
sys.path.insert(0, os.path.dirname(HERE))
import extract_fn  # noqa: E402
from common import LEAN_DIR, REPO, gen_shape  # noqa: E402
from props.c01 import ALPHA  # noqa: E402

OPS = ["upscale.subidx_2_idx", "upscale.in_d8", "upscale.cell_edge", "core_d8._downstream_idx",
       "core_ldd._downstream_idx", "harness/extract_fn.py (self-test)"]
RULE = ("C01_fn: translator self-test (synthetic module: 9 supported functions x 40 random int argument tuples incl. "
        "negatives evaluated by Lean vs Python, 25 functions that must be refused); generated defs of the real "
        "functions vs the real functions on ~200 random domain arguments (Lean-evaluated); differential: all / sampled "
        "pixels of random (subshape, cellsize) geometries incl. ragged last cells, index pairs near and far, every cell "
        "of random D8 / LDD rasters incl. illegal uint8 codes, against model.* and the division-free spec.*. "
        "non-trivial = geometry with >= 2 coarse cells / pair in different rows / raster with >= 1 link")

FT = {"d8": 1, "ldd": 2}

# ----------------------------------------------------------------------------------------
# (a) translator self-test
# ----------------------------------------------------------------------------------------
SYN_OK = '''
import numpy as np
_K = 3

def helper(x):
    return x

def s_arith(a, b, c):
    """docstring"""
    x = a + b * c - (-a)
    x -= b
    x *= 2
    y = +x
    return x // c, y % c, (a - b) // 7, (a - b) % -5, (a * b) // -3

def s_cmp(a, b, c):
    return a < b <= c or not (a == b) and a != c
    a = 1 / 0   # dead code

def s_branch(a, b):
    if a > b:
        return a - b
    elif a == b:
        t = 0
    else:
        t = b // 3
        if t > 5:
            return -t
        pass
    t += 1
    return t * 2

def s_tuple(a, b):
    q, r = a // 4, a % 4
    q, r = r, q
    t = (q, r, b)
    u = t[2] - t[0], t[1]
    return u

def s_builtin(a, b):
    return abs(int(a) - b) + min(a, b) * max(a, -b)

def s_ifexp(a, b):
    return (a if a > b else b) + (1 if a % 2 == 0 else 0)

def s_arr(i, arr, shape):
    n, m = shape
    v = arr[i % m]
    v //= 2
    return v + n, shape[1] - shape[0]

def s_bool(a, at):
    ok = True
    no = not ok or False
    if ok and a > 0 and not no:
        return at >= 1 > a - 5
    return a % 2 == 1

def s_shadow(a, b):
    a = a + b
    b = a * 2
    a = b - a
    if a >= 0:
        a = -a
    else:
        b = b + 1
    return a, b
'''
SYN_OK_SPECS = [("s_arith", {}), ("s_cmp", {}), ("s_branch", {}), ("s_tuple", {}), ("s_builtin", {}), ("s_ifexp", {}),
                ("s_arr", {"arr": extract_fn.ARR, "shape": extract_fn.TUP(extract_fn.INT, extract_fn.INT)}),
                ("s_bool", {}), ("s_shadow", {})]

SYN_BAD = '''
import numpy as np
from math import floor
_K = 3

def helper(x):
    return x

def drdc(x):
    return x, x

def abs(x):
    return x

def u_loop(a):
    s = 0
    for i in range(3):
        s += a
    return s

def u_while(a):
    while a > 0:
        a -= 1
    return a

def u_truediv(a, b):
    return a / b

def u_pow(a):
    return a ** 2

def u_global(a):
    return a + _K

def u_call(a):
    return helper(a)

def u_truthy(a):
    if a:
        return 1
    return 0

def u_andint(a, b):
    return a and b

def u_noreturn(a):
    x = a

def u_partial_return(a):
    if a > 0:
        return a

def u_float(a):
    return a + 1.5

def u_attrcall(a):
    return np.int8(a)

def u_list(a, b):
    l = [a, b]
    return l[0]

def u_bitand(a, b):
    return a & b

def u_shift(a):
    return a >> 1

def u_intbool(a):
    return int(a > 0)

def u_cmpbool(a, b):
    return (a > 0) == (b > 0)

def u_kw(a, b):
    return max(a, b, key=None)

def u_star(*a):
    return 1

def u_lambda(a):
    f = lambda x: x
    return f(a)

def u_shadowed_builtin(a):
    return abs(a)

def u_unlisted_drdc(a):
    r, c = drdc(a)
    return r + c

def u_dead(a):
    return a
    a = 1

def u_unbound(a):
    if a > 0:
        t = 1
    return t

def u_mixed(a):
    if a > 0:
        return a
    return a > 0

def u_imported(a):
    return floor(a)

def u_negidx(a, b):
    t = (a, b)
    return t[-1]

def u_walrus(a):
    return (b := a) + b
'''
SYN_BAD_NAMES = ["u_loop", "u_while", "u_truediv", "u_pow", "u_global", "u_call", "u_truthy", "u_andint", "u_noreturn",
                 "u_partial_return", "u_float", "u_attrcall", "u_list", "u_bitand", "u_shift", "u_intbool", "u_cmpbool",
                 "u_kw", "u_star", "u_lambda", "u_shadowed_builtin", "u_unlisted_drdc", "u_unbound", "u_mixed",
                 "u_imported", "u_negidx", "u_walrus"]

LEAN_MAIN_PRELUDE = '''
class Fmt (α : Type) where fmt : α → String
instance : Fmt Int := ⟨toString⟩
instance : Fmt Bool := ⟨fun b => if b then "1" else "0"⟩
instance {α β : Type} [Fmt α] [Fmt β] : Fmt (α × β) := ⟨fun p => Fmt.fmt p.1 ++ " " ++ Fmt.fmt p.2⟩
def arrOf (l : List Int) : Int → Int := fun i => l.getD i.toNat 0
'''


def lint(x):
    x = int(x)
    return f"({x})" if x < 0 else str(x)


def larg(a):
    if isinstance(a, (list, np.ndarray)):
        return "(arrOf [" + ", ".join(lint(x) for x in a) + "])"
    if isinstance(a, tuple):
        return "(" + ", ".join(f"({lint(x)} : Int)" for x in a) + ")"
    return f"({lint(a)} : Int)"


def flat(v):
    if isinstance(v, (tuple, list)):
        return [y for x in v for y in flat(x)]
    if isinstance(v, (bool, np.bool_)):
        return [int(bool(v))]
    return [int(v)]


def lean_eval(defs_text, calls):
    """defs_text: Lean text (imports first); calls: [(qualified lean fn, [args])] -> list of int lists"""
    lines = [f"  IO.println (Fmt.fmt ({fn} {' '.join(larg(a) for a in args)}))" for fn, args in calls]
    chunks = [lines[i:i + 40] for i in range(0, len(lines), 40)] or [[]]
    body = LEAN_MAIN_PRELUDE
    for k, ch in enumerate(chunks):
        body += f"def part{k} : IO Unit := do\n" + "\n".join(ch or ["  pure ()"]) + "\n"
    body += "def main : IO Unit := do\n" + "\n".join(f"  part{k}" for k in range(len(chunks))) + "\n"
    path = os.path.join(LEAN_DIR, f".fn_eval_{os.getpid()}.lean")
    with open(path, "w") as fh:
        fh.write(defs_text + body)
    try:
        p = subprocess.run(["lake", "env", "lean", "--run", path], cwd=LEAN_DIR, stdout=subprocess.PIPE,
                           stderr=subprocess.STDOUT, timeout=600)
    finally:
        os.remove(path)
    out = p.stdout.decode(errors="replace")
    if p.returncode != 0:
        return None, out[-1500:]
    rows = [[int(t) for t in l.split()] for l in out.splitlines() if l.strip()]
    if len(rows) != len(calls):
        return None, f"{len(rows)} answers for {len(calls)} calls: " + out[-500:]
    return rows, ""


def rint(rng):
    k = rng.random()
    if k < 0.15:
        return rng.choice([0, 1, -1, 2, -2])
    if k < 0.8:
        return rng.randint(-40, 40)
    return rng.randint(-10 ** 6, 10 ** 6)


def synthetic(ctx):
    """-> (lean defs text in namespace Syn, calls, expected) ; raises RuntimeError when the refusal test fails"""
    rng = ctx.rng
    text, status = extract_fn.translate_source(SYN_OK, "syn.py", [(n, n, k) for n, k in SYN_OK_SPECS])
    bad = [n for n, r in status.items() if r is not None]
    if bad:
        raise RuntimeError(f"extract_fn self-test: supported synthetic functions were refused: "
                           f"{[(n, status[n]) for n in bad]}")
    _, st2 = extract_fn.translate_source(SYN_BAD, "syn.py", [(n, n, {}) for n in SYN_BAD_NAMES])
    accepted = [n for n in SYN_BAD_NAMES if st2[n] is None]
    if accepted:
        raise RuntimeError(f"extract_fn self-test: functions outside the fragment were translated: {accepted}")
    # a listed callee is only accepted in its own file and when it is the module's single def
    _, st3 = extract_fn.translate_source(SYN_BAD.replace("def drdc(x):", "drdc = None\ndef drdc(x):"), "core_d8.py",
                                         [("u_unlisted_drdc", "u_unlisted_drdc", {})])
    if st3["u_unlisted_drdc"] is None:
        raise RuntimeError("extract_fn self-test: a re-bound `drdc` was accepted as the tabulated function")
    ctx.count("fn:selftest:refused", len(SYN_BAD_NAMES) + 1)
    env = {}
    exec(compile(SYN_OK.replace("import numpy as np", ""), "<syn>", "exec"), env)
    calls, expected = [], []
    for name, kinds in SYN_OK_SPECS:
        import inspect
        params = list(inspect.signature(env[name]).parameters)
        for _ in range(40):
            args = []
            for p in params:
                if kinds.get(p) == extract_fn.ARR:   # read at i % m with 0 < m <= len: stays inside the list
                    args.append([rint(rng) for _ in range(rng.randint(5, 8))])
                elif p in kinds:
                    args.append((rint(rng), rng.randint(1, 5)))
                else:
                    args.append(rint(rng))
            try:
                want = env[name](*args)
            except ZeroDivisionError:
                continue
            calls.append(("Syn." + name, args))
            expected.append(flat(want))
            ctx.count("fn:selftest:call:" + name)
    lean = ("namespace Syn\nopen Pf.Generated.Fn\n" + text + "\nend Syn\n")
    return lean, calls, expected


def real_calls(ctx, status):
    """random documented-domain arguments for the translated real functions -> (calls, expected, descs)"""
    rng = ctx.rng
    from pyflwdir import upscale, core_d8, core_ldd
    calls, expected, descs = [], [], []

    def add(lean, fn, args, pyargs, desc):
        with warnings.catch_warnings():
            warnings.simplefilter("ignore")
            want = fn(*pyargs)
        calls.append(("Pf.Generated.Fn." + lean, args))
        expected.append(flat(want))
        descs.append(desc)
        ctx.count("fn:gen:" + lean)

    esc = ctx.escalate
    for _ in range(40 * esc):
        cs = rng.randint(1, 6)
        subncol = rng.randint(1, 30)
        ncol = -(-subncol // cs)
        subidx = rng.randint(0, subncol * rng.randint(1, 30) - 1)
        if status.get("subidx_2_idx", 1) is None and hasattr(upscale, "subidx_2_idx"):
            add("subidx_2_idx", upscale.subidx_2_idx, [subidx, subncol, cs, ncol],
                [np.intp(subidx), subncol, cs, ncol], {"f": "subidx_2_idx", "args": [subidx, subncol, cs, ncol]})
        if status.get("cell_edge", 1) is None and hasattr(upscale, "cell_edge"):
            add("cell_edge", upscale.cell_edge, [subidx, subncol, cs], [np.intp(subidx), subncol, cs],
                {"f": "cell_edge", "args": [subidx, subncol, cs]})
        ncol2 = rng.randint(1, 12)
        n = ncol2 * rng.randint(1, 12)
        i0 = rng.randrange(n)
        i1 = min(n - 1, max(0, i0 + rng.choice([-1, 0, 1]) * ncol2 + rng.choice([-2, -1, 0, 1, 2]))) \
            if rng.random() < 0.7 else rng.randrange(n)
        if status.get("in_d8", 1) is None and hasattr(upscale, "in_d8"):
            add("in_d8", upscale.in_d8, [i0, i1, ncol2], [np.intp(i0), np.intp(i1), ncol2],
                {"f": "in_d8", "args": [i0, i1, ncol2]})
    for fmt, mod, lean in (("d8", core_d8, "d8_downstream_idx"), ("ldd", core_ldd, "ldd_downstream_idx")):
        if status.get(lean, 1) is not None or not hasattr(mod, "_downstream_idx"):
            ctx.count("fn:gen:not-comparable:" + lean)
            continue
        for _ in range(6 * esc):
            shape = gen_shape(rng, 30, 6)
            n = shape[0] * shape[1]
            codes = [rng.choice(ALPHA[fmt]) if rng.random() < 0.85 else rng.randrange(256) for _ in range(n)]
            flat_codes = np.array(codes, dtype=np.uint8)
            for idx0 in rng.sample(range(n), min(n, 6)):
                add(lean, mod._downstream_idx, [idx0, codes, shape, -1], [np.intp(idx0), flat_codes, shape],
                    {"f": fmt + "._downstream_idx", "idx0": idx0, "codes": codes, "shape": list(shape)})
    return calls, expected, descs


def run_translator(ctx):
    text, status = extract_fn.render(REPO)
    for k, v in status.items():
        ctx.count("fn:extract:" + k + (":translated" if v is None else ":REFUSED"))
        if v is not None:
            ctx.notes.append(f"extract_fn refused {k}: {v}")
    imports = "\n".join(l for l in text.splitlines() if l.startswith("import ")) + "\n"
    real_defs = "\n".join(l for l in text.splitlines() if not l.startswith("import ")) + "\n"
    syn_defs, calls_s, exp_s = synthetic(ctx)
    calls_r, exp_r, descs = real_calls(ctx, status)
    rows, err = lean_eval(imports + real_defs + syn_defs, calls_s + calls_r)
    if rows is None:
        # whose text does not elaborate? the synthetic part alone must
        rows_s, err_s = lean_eval(imports + "namespace Pf.Generated.Fn\n" + extract_fn.PRELUDE + "end Pf.Generated.Fn\n"
                                  + syn_defs, calls_s)
        if rows_s is None:
            raise RuntimeError("extract_fn self-test: the synthetic translation does not run in Lean:\n" + err_s)
        rows = rows_s + [None] * len(calls_r)
        ctx.fail(_compat({"op": "c01fn.gen", "what": "generated defs of the real functions"}), "model",
                 "Generated/Funcs.lean text does not elaborate / run in Lean: " + err[-600:])
    for (fn, args), want, got in zip(calls_s, exp_s, rows[:len(calls_s)]):
        if want != got:
            raise RuntimeError(f"extract_fn self-test: {fn}{tuple(args)}: Python {want}, Lean evaluation of the "
                               f"translation {got}")
    ctx.count("fn:selftest:lean-evaluated", len(calls_s))
    for (fn, args), want, got, d in zip(calls_r, exp_r, rows[len(calls_s):], descs):
        ctx.evaluations += 1
        if got is not None and want != got:
            ctx.fail(_compat(dict(d, op="c01fn.gen")), "model",
                     f"generated def {fn} evaluates to {got}, the Python function returns {want}")
    ctx.count("fn:gen:lean-evaluated", len(calls_r))


# ----------------------------------------------------------------------------------------
# (b) differential against the hand-written models and the division-free spec
# ----------------------------------------------------------------------------------------
def _compat(desc, n=1):
    """keys `props/c01.py` needs to dispatch a replay description without crashing"""
    desc.setdefault("fmt", "d8")
    desc.setdefault("shape", [1, max(1, n)])
    desc.setdefault("codes", [0] * max(1, n))
    return desc


def cmp3(name, impl, ans, model_keys, spec_key, labels):
    fs = []
    if "__err__" in ans:
        return [{"kind": "model", "what": f"driver error {ans['__err__']}"}]
    spec = [int(x) for x in ans[spec_key]]
    bad = [k for k in range(len(impl)) if impl[k] != spec[k]]
    if bad:
        k = bad[0]
        fs.append({"kind": "spec", "what": f"{name}{labels(k)} returns {impl[k]}, the declarative definition gives "
                                           f"{spec[k]} ({len(bad)} of {len(impl)} arguments differ)"})
    for mk in model_keys:
        mod = [int(x) for x in ans[mk]]
        badm = [k for k in range(len(impl)) if impl[k] != mod[k]]
        if badm and not bad:
            k = badm[0]
            fs.append({"kind": "model", "what": f"{name}{labels(k)} returns {impl[k]}, {mk} gives {mod[k]}"})
    return fs


def run_pixels(ctx, desc):
    from pyflwdir import upscale
    f_idx, f_edge = getattr(upscale, "subidx_2_idx", None), getattr(upscale, "cell_edge", None)
    if f_idx is None and f_edge is None:
        ctx.count("fn:pixels:not-comparable")
        return
    subncol, cs, ncol, ps = desc["subncol"], desc["cs"], desc["ncol"], desc["subidx"]
    with warnings.catch_warnings():
        warnings.simplefilter("ignore")
        cell = [int(f_idx(np.intp(p), subncol, cs, ncol)) for p in ps] if f_idx else None
        edge = [int(bool(f_edge(np.intp(p), subncol, cs))) for p in ps] if f_edge else None

    def judge(ans):
        a = ans[0]
        fs = []
        lab = lambda k: f"({ps[k]}, subncol={subncol}, cellsize={cs}" + f", ncol={ncol})"  # noqa: E731
        if cell is not None:
            fs += cmp3("subidx_2_idx", cell, a, ["model.cell", "model.cell10"], "spec.cell", lab)
        if edge is not None:
            fs += cmp3("cell_edge", edge, a, ["model.edge", "model.edge10"], "spec.edge", lab)
        return fs
    ctx.add(desc, [("c01fn.pixels", {"subidx": ps, "subncol": subncol, "cs": cs, "ncol": ncol})], judge,
            nontrivial=desc.get("ncoarse", 2) >= 2)


def gen_pixels(rng, ctx, quick):
    cs = rng.choice([1, 2, 2, 3, 3, 4, 5, 7])
    nr, nc = rng.randint(1, 4), rng.randint(1, 4)
    ragged = rng.random() < 0.5
    subnrow = nr * cs - (rng.randint(0, cs - 1) if ragged else 0)
    subncol = nc * cs - (rng.randint(0, cs - 1) if ragged else 0)
    n = subnrow * subncol
    ps = list(range(n)) if n <= 120 or not quick else sorted(rng.sample(range(n), 120))
    ctx.count("fn:pixels:" + ("ragged" if ragged else "exact") + (":cs1" if cs == 1 else ""))
    return _compat({"op": "c01fn.pixels", "subncol": subncol, "cs": cs, "ncol": nc, "subidx": ps, "ncoarse": nr * nc,
                    "subshape": [subnrow, subncol]})


def run_ind8(ctx, desc):
    from pyflwdir import upscale
    f = getattr(upscale, "in_d8", None)
    if f is None:
        ctx.count("fn:ind8:not-comparable")
        return
    i0, i1, ncol = desc["idx0"], desc["idxds"], desc["ncol"]
    with warnings.catch_warnings():
        warnings.simplefilter("ignore")
        impl = [int(bool(f(np.intp(a), np.intp(b), ncol))) for a, b in zip(i0, i1)]

    def judge(ans):
        return cmp3("in_d8", impl, ans[0], ["model.ind8"], "spec.ind8", lambda k: f"({i0[k]}, {i1[k]}, ncol={ncol})")
    ctx.add(desc, [("c01fn.ind8", {"idx0": i0, "idxds": i1, "ncol": ncol})], judge,
            nontrivial=any(a // ncol != b // ncol for a, b in zip(i0, i1)))


def gen_ind8(rng, ctx):
    nrow, ncol = gen_shape(rng, 80, 10)
    n = nrow * ncol
    i0, i1 = [], []
    for _ in range(24):
        a = rng.randrange(n)
        k = rng.random()
        if k < 0.6:    # around a, incl. wrap-around across the row end (same |delta idx|, other row/column distance)
            b = a + rng.choice([-1, 0, 1]) * ncol + rng.choice([-2, -1, 0, 1, 2])
        elif k < 0.8:
            b = a + rng.choice([-2, 2]) * ncol + rng.choice([-1, 0, 1])
        else:
            b = rng.randrange(n)
        b = min(n - 1, max(0, b))
        i0.append(a)
        i1.append(b)
    ctx.count("fn:ind8")
    return _compat({"op": "c01fn.ind8", "idx0": i0, "idxds": i1, "ncol": ncol, "nrow": nrow})


def run_down(ctx, desc):
    from pyflwdir import core_d8, core_ldd
    fmt = desc["fmt"]
    f = getattr({"d8": core_d8, "ldd": core_ldd}[fmt], "_downstream_idx", None)
    if f is None:
        ctx.count("fn:down:not-comparable")
        return
    nrow, ncol = desc["shape"]
    n = nrow * ncol
    codes = desc["codes"]
    flat_codes = np.array(codes, dtype=np.uint8)
    impl = []
    with warnings.catch_warnings():
        warnings.simplefilter("ignore")
        for i in range(n):
            v = int(f(np.intp(i), flat_codes, (nrow, ncol)))
            impl.append(n if v == -1 else v if 0 <= v < n else 10 ** 9 + abs(v))

    def judge(ans):
        a = ans[0]
        if "__err__" in a:
            return [{"kind": "model", "what": f"driver error {a['__err__']}"}]
        fs = []
        spec, defined, model = a["spec.down"], a["spec.defined"], a["model.down"]
        bad = [i for i in range(n) if defined[i] and impl[i] != spec[i]]
        if bad:
            i = bad[0]
            fs.append({"kind": "spec", "what": f"{fmt}._downstream_idx({i}) on shape {nrow}x{ncol}, code {codes[i]}: "
                                               f"returns {impl[i]}, the code designates {spec[i]}"})
        badm = [i for i in range(n) if impl[i] != model[i]]
        if badm and not bad:
            i = badm[0]
            fs.append({"kind": "model", "what": f"{fmt}._downstream_idx({i}) code {codes[i]}: returns {impl[i]}, "
                                                f"model {model[i]}"})
        return fs
    ctx.add(desc, [("c01fn.down", {"ft": FT[fmt], "nrow": nrow, "ncol": ncol, "codes": codes})], judge,
            nontrivial=any(impl[i] not in (i, n) for i in range(n)))


def gen_down(rng, ctx):
    fmt = rng.choice(["d8", "ldd"])
    shape = gen_shape(rng, 42, 8)
    n = shape[0] * shape[1]
    p_illegal = rng.choice([0, 0, 0.1])
    codes = [rng.randrange(256) if rng.random() < p_illegal else rng.choice(ALPHA[fmt]) for _ in range(n)]
    ctx.count("fn:down:" + fmt + (":illegal-codes" if p_illegal else ""))
    return {"op": "c01fn.down", "fmt": fmt, "shape": list(shape), "codes": codes}


def dispatch(ctx, d):
    op = d.get("op")
    if op == "c01fn.pixels":
        run_pixels(ctx, d)
    elif op == "c01fn.ind8":
        run_ind8(ctx, d)
    elif op == "c01fn.down":
        run_down(ctx, d)


def run(ctx):
    rng = ctx.rng
    if getattr(ctx, "replay", None):
        d = ctx.replay.get("failure", {}).get("desc") or ctx.replay.get("desc")
        if d and str(d.get("op", "")).startswith("c01fn."):
            dispatch(ctx, d)
        return
    quick = ctx.tier == "quick"
    esc = ctx.escalate
    run_translator(ctx)
    for _ in range((40 if quick else 400) * esc):
        dispatch(ctx, gen_pixels(rng, ctx, quick))
    for _ in range((40 if quick else 400) * esc):
        dispatch(ctx, gen_ind8(rng, ctx))
    for _ in range((40 if quick else 400) * esc):
        dispatch(ctx, gen_down(rng, ctx))
        if len(ctx.cases) > 400:
            ctx.flush()
