"""C15 - elevation conditioning: correspondence of Flwdir.dem_adjust / FlwdirRaster.dem_dig_d4 /
dem._adjust_elevation with the Lean model (eq) and with the declarative property predicates
(spec) evaluated on the implementation's output."""
import itertools
import os

import numpy as np
from common import (gen_raster_net, gen_dem_net, gen_forest, gen_shape, mk_raster, mk_vector, canon_idx,
                    ints, net_features, max_path_len, topo_of)

OPS = ["_adjust_elevation(profile)", "dem_adjust(raster)", "dem_adjust(vector)", "dem_dig_d4(wrapper,int)",
       "dem_dig_d4(wrapper,float)", "dig_4connectivity(kernel,dyadic dz)"]
RULE = ("loop-free networks (D8 networks from random DEMs, arbitrary forests on raster shapes, vector networks) "
        "<= 56 cells (quick) / <= 400 (thorough); elevation fields unrelated to the network: random small-range "
        "integers (plateaus), noisy distance-to-outlet, exactly conforming, half-integers, cells holding the nodata "
        "value, output of an earlier adjustment; dtypes float32/float64/int32/int64; river masks none/random/"
        "downstream-closed; every 1-D profile handed to _adjust_elevation during dem_adjust is logged and checked "
        "as well. non-trivial = >= 2 valid cells and >= 1 cell whose output differs from its input; distinct = "
        "SHA-1 of (op, network, field, mask)")
ELEV_DTYPES = [np.float32, np.float64, np.int32, np.int64]
IDX_DTYPES = [np.int32, np.int32, np.int64, np.uint32]
NODATA = -9999


# ----------------------------------------------------------------------------------------
# 1-D profiles
# ----------------------------------------------------------------------------------------
def _call_adjust1d(prof, dtype):
    from pyflwdir import dem
    a = np.array(prof, dtype=dtype)
    b = a.copy()
    out = dem._adjust_elevation(a)
    return out, bool(np.array_equal(a, b))


def _add_profile(ctx, prof, scale, dtype, origin):
    """prof: python ints (already scaled by `scale`); implementation gets prof/scale in dtype"""
    if scale == 1:
        arr = list(prof)
    else:
        arr = [p / scale for p in prof]
    out, _ = _call_adjust1d(arr, dtype)
    impl = [int(round(float(x) * scale)) for x in out.tolist()]
    exact = all(float(x) * scale == v for x, v in zip(out.tolist(), impl))
    desc = {"op": "_adjust_elevation", "profile": arr, "dtype": np.dtype(dtype).name, "origin": origin}
    nontriv = len(prof) >= 2 and impl != list(prof)
    ctx.count("profile:" + origin)
    if nontriv:
        ctx.count("profile:modified")

    def judge(ans):
        a = ans[0]
        if "__err__" in a:
            return [{"kind": "model", "what": "driver error " + a["__err__"]}]
        fs = []
        for name, txt in (("cert.len", "length changed"), ("cert.mono", "output is not non-increasing"),
                          ("cert.last", "last (most downstream) value changed"),
                          ("cert.range", "output leaves the range of the input"),
                          ("cert.id", "non-increasing input was modified")):
            if a[name] != [1]:
                fs.append({"kind": "spec", "what": "_adjust_elevation: " + txt, "impl": impl})
        if not exact:
            fs.append({"kind": "model", "what": "_adjust_elevation returned a value outside the scaled grid", "impl": out.tolist()})
        if impl != a["model"]:
            fs.append({"kind": "model", "what": "_adjust_elevation: implementation != Lean model", "impl": impl, "model": a["model"]})
        return fs

    ctx.add(desc, [("adjust1d", {"prof": list(prof), "impl": impl})], judge, nontrivial=nontriv)


def gen_profile(rng):
    n = rng.choice([1, 2, 3, 4, 5, 6, 7, 8, 9, 10, 12, 15, 20, 30, 40])
    kind = rng.random()
    if kind < 0.22:
        # a sequence of depressions behind barriers of varying height and length (rising, falling or equal from
        # one depression to the next), with head cells at levels in between: every dig / fill / dig-and-fill
        # decision depends on what was decided for the depression before
        z = rng.randint(6, 14)
        out = [z + rng.randint(0, 3) for _ in range(rng.randint(1, 3))]
        for _ in range(rng.randint(2, 4)):
            out += [rng.randint(0, 5) + rng.choice([0, 0, 0.5]) for _ in range(rng.randint(1, 3))]      # the depression
            bar = rng.randint(2, 12)
            out += [bar + rng.choice([0, 0, 0, 1]) for _ in range(rng.choice([1, 1, 2, 4, 6]))]        # its barrier
        out.append(rng.randint(0, 2))
        return [int(2 * v) for v in out] if rng.random() < 0.5 else [int(v) for v in out]
    if kind < 0.35:
        lv = rng.choice([2, 3, 4, 6])
        return [rng.randint(0, lv - 1) for _ in range(n)]
    if kind < 0.6:      # downhill trend with bumps
        z = n + rng.randint(0, 3)
        out = []
        for _ in range(n):
            z += rng.choice([-2, -1, -1, 0, 0, 1, 2])
            out.append(z)
        return out
    if kind < 0.7:      # non-increasing
        return sorted((rng.randint(0, 6) for _ in range(n)), reverse=True)
    if kind < 0.8:      # contains nodata values
        return [NODATA if rng.random() < 0.2 else rng.randint(0, 9) for _ in range(n)]
    return [rng.randint(-5, 30) for _ in range(n)]


# ----------------------------------------------------------------------------------------
# elevation fields
# ----------------------------------------------------------------------------------------
def _dist_to_pit(ds):
    n = len(ds)
    d = [0] * n
    for i in topo_of(ds):
        if ds[i] != i:
            d[i] = d[ds[i]] + 1
    return d


def gen_elev(rng, ds):
    """integer field (scaled by `scale`), family name"""
    n = len(ds)
    u = rng.random()
    scale = 1
    if u < 0.3:
        lv = rng.choice([2, 3, 4, 8])
        e, fam = [rng.randint(0, lv - 1) for _ in range(n)], "plateaus"
    elif u < 0.55:
        d = _dist_to_pit(ds)
        amp = rng.choice([1, 2, 3])
        e, fam = [d[i] + rng.randint(-amp, amp) for i in range(n)], "noisy-distance"
    elif u < 0.65:
        d = _dist_to_pit(ds)
        k = rng.choice([0, 1, 2])
        e, fam = [d[i] * k + 3 for i in range(n)], "conforming"
        for i in range(n):          # arbitrary values off the network do not matter
            if ds[i] == n:
                e[i] = rng.randint(-3, 9)
    elif u < 0.8:
        e, fam = [rng.randint(-5, 40) for _ in range(n)], "random"
    else:
        scale = 2
        e, fam = [rng.randint(0, 12) for _ in range(n)], "half-integers"
    if rng.random() < 0.25:
        fam += "+nodata"
        for i in range(n):
            if ds[i] == n and rng.random() < 0.8 or rng.random() < 0.08:
                e[i] = NODATA * scale
    return e, scale, fam


def _to_np(e, scale, dtype, shape):
    if scale == 1:
        return np.array(e, dtype=dtype).reshape(shape)
    return (np.array(e, dtype=np.float64) / scale).astype(dtype).reshape(shape)


def _scaled_ints(a, scale):
    v = [float(x) * scale for x in np.asarray(a).ravel().tolist()]
    r = [int(round(x)) for x in v]
    return r, all(x == y for x, y in zip(v, r))


class _ProfileLog:
    """records every (input, output) of dem._adjust_elevation while dem_adjust runs (interpreted mode only)"""

    def __init__(self):
        from pyflwdir import dem
        self.dem = dem
        self.orig = dem._adjust_elevation
        self.log = []
        self.active = os.environ.get("NUMBA_DISABLE_JIT", "0") == "1" and not hasattr(self.orig, "py_func")

    def __enter__(self):
        if self.active:
            def wrapped(e):
                inp = np.array(e, copy=True)
                out = self.orig(e)
                self.log.append((inp, np.array(out, copy=True)))
                return out
            self.dem._adjust_elevation = wrapped
        return self

    def __exit__(self, *a):
        self.dem._adjust_elevation = self.orig


def _case_adjust(ctx, rng, ds, shape, fam, vector, seen_profiles):
    n = len(ds)
    feat = net_features(ds)
    e, scale, efam = gen_elev(rng, ds)
    dtype = rng.choice(ELEV_DTYPES if scale == 1 else [np.float32, np.float64])
    unsigned = False
    if scale == 1 and min(e) >= 0 and rng.random() < 0.2:
        # unsigned elevation rasters (uint8/uint16/uint32 DEMs are common): the property clauses must hold;
        # the Lean model is NOT compared here, because `abs(a - b)` on unsigned values wraps inside
        # _adjust_elevation's cost comparison (the result is then another conforming profile, see DESIGN 8)
        dtype = rng.choice([np.uint8, np.uint16, np.uint32])
        unsigned = max(e) < 250
        if not unsigned:
            dtype = np.uint16
            unsigned = True
        ctx.count("adjust:unsigned-elevation")
    elif scale == 1 and rng.random() < 0.12:
        # narrow signed DEMs (int8 / int16, e.g. SRTM with -32768 voids) with values at the ends of the dtype's
        # range: differences overflow the dtype. Property clauses only (same reason as for unsigned rasters).
        dtype = rng.choice([np.int8, np.int16])
        info = np.iinfo(dtype)
        e = [rng.choice([info.min, info.max, rng.randint(info.min, info.max), max(info.min, min(info.max, x))])
             for x in e]
        unsigned = True
        efam += "+dtype-extremes"
        ctx.count("adjust:narrow-signed-extremes")
    if not unsigned and scale == 1 and dtype != np.float32 and "nodata" not in efam and rng.random() < 0.15:
        # elevations that need more than 24 bits (mm above a far datum): exact in the raster's own dtype
        base = rng.randint(2 ** 24, 2 ** 30 if dtype == np.int32 else 2 ** 40)
        e = [base + x for x in e]
        efam += "+large-magnitude"
    idt = rng.choice(IDX_DTYPES)
    try:
        flw = mk_vector(ds, idt) if vector else mk_raster(ds, shape, idt)
    except ValueError:
        ctx.count("ctor-rejected")
        return
    if rng.random() < 0.3:
        flw.order_cells(method="walk")
    seq = canon_idx(flw.idxs_seq, n)
    elv = _to_np(e, scale, dtype, (n,) if vector else shape)
    with _ProfileLog() as plog:
        out = flw.dem_adjust(elv)
    impl, exact = _scaled_ints(out, scale)
    # idempotence (trivial oracle): a second application returns the same array
    out2 = flw.dem_adjust(out)
    idem = bool(np.array_equal(np.asarray(out2), np.asarray(out)))
    shape_ok = np.asarray(out).shape == elv.shape
    changed = sum(1 for i in range(n) if impl[i] != e[i])
    nontriv = feat["valid"] >= 2 and changed >= 1
    ctx.count("adjust:net:" + fam + ("(vector)" if vector else ""))
    ctx.count("adjust:elev:" + efam)
    ctx.count("adjust:dtype:" + np.dtype(dtype).name)
    if changed:
        ctx.count("adjust:changed")
    if feat["confluences"] >= 1 and changed:
        ctx.count("adjust:changed-with-confluence")
    desc = {"op": "dem_adjust", "class": "Flwdir" if vector else "FlwdirRaster", "ds": ds, "shape": list(shape),
            "elevtn": e, "scale": scale, "dtype": np.dtype(dtype).name, "idx_dtype": np.dtype(idt).name}

    def judge(ans):
        a = ans[0]
        if "__err__" in a:
            return [{"kind": "model", "what": "driver error " + a["__err__"]}]
        fs = []
        if a["topo"] != [1]:
            fs.append({"kind": "spec", "what": "cell order handed to adjust_elevation is not downstream-first (C03 hypothesis)"})
        if a["spec.size"] != [1] or not shape_ok:
            fs.append({"kind": "spec", "what": "output shape differs from input shape"})
        if a["spec.uphill"] != [0]:
            bad = [i for i in range(n) if ds[i] != n and impl[ds[i]] > impl[i]][:5]
            fs.append({"kind": "spec", "what": f"adjusted elevation rises downstream at cells {bad}", "impl": impl})
        if a["spec.outside"] != [0]:
            fs.append({"kind": "spec", "what": "a cell outside the network was modified", "impl": impl})
        if a["spec.range"] != [0]:
            fs.append({"kind": "spec", "what": "a value left the range of the input on the network", "impl": impl})
        if a["spec.fix"] != [1]:
            fs.append({"kind": "spec", "what": "an already conforming elevation was modified", "impl": impl})
        if not idem:
            fs.append({"kind": "spec", "what": "dem_adjust is not idempotent", "impl": impl, "second": ints(np.asarray(out2) * scale)})
        if not exact:
            fs.append({"kind": "model", "what": "dem_adjust produced a value outside the scaled grid", "impl": np.asarray(out).ravel().tolist()})
        if impl != a["model"] and not unsigned:
            fs.append({"kind": "model", "what": "dem_adjust: implementation != Lean model", "impl": impl, "model": a["model"]})
        return fs

    ctx.add(desc, [("dem_adjust", {"ds": ds, "seq": seq, "elev": e, "impl": impl})], judge, nontrivial=nontriv)
    if a_conform(ds, e):
        ctx.count("adjust:input-conforming")
    # the streamline profiles actually used
    for inp, outp in plog.log:
        if unsigned:
            break
        pin, ok1 = _scaled_ints(inp, scale)
        key = (tuple(pin), np.dtype(dtype).name)
        if key in seen_profiles or len(seen_profiles) > (3000 if ctx.tier == "quick" else 30000):
            continue
        seen_profiles.add(key)
        _add_profile(ctx, pin, scale, dtype, "streamline")


def a_conform(ds, e):
    n = len(ds)
    return all(ds[i] == n or e[ds[i]] <= e[i] for i in range(n))


# ----------------------------------------------------------------------------------------
# D4 digging
# ----------------------------------------------------------------------------------------
def _upcount(ds):
    n = len(ds)
    cnt = [1 if ds[i] != n else 0 for i in range(n)]
    for i in reversed(topo_of(ds)):
        if ds[i] != i:
            cnt[ds[i]] += cnt[i]
    return cnt


def _case_dig(ctx, rng, max_cells):
    shape = gen_shape(rng, max_cells=max_cells)
    if rng.random() < 0.5:
        shape = (max(shape[0], 3), max(shape[1], 3))
    nrow, ncol = shape
    n = nrow * ncol
    ds = gen_dem_net(rng, shape, p_nodata=rng.choice([0.0, 0.1, 0.2]), p_extra_pit=rng.choice([0.02, 0.1]))
    feat = net_features(ds)
    idt = rng.choice(IDX_DTYPES)
    flw = mk_raster(ds, shape, idt)
    if rng.random() < 0.3:
        flw.order_cells(method="walk")
    seq = canon_idx(flw.idxs_seq, n)
    # river mask
    mk = rng.choice(["none", "random", "uparea", "all-false"])
    if mk == "none":
        mask = None
    elif mk == "random":
        mask = [rng.random() < 0.5 for _ in range(n)]
    elif mk == "uparea":
        cnt = _upcount(ds)
        thr = rng.choice([2, 3, 4])
        mask = [c >= thr for c in cnt]
    else:
        mask = [False] * n
    # elevation
    u = rng.random()
    if u < 0.4:
        e = [rng.randint(0, 4) for _ in range(n)]
        efam = "plateaus"
    elif u < 0.7:
        d = _dist_to_pit(ds)
        e = [d[i] + rng.randint(-1, 1) for i in range(n)]
        efam = "noisy-distance"
    else:
        e = [rng.randint(-6, 25) for _ in range(n)]
        efam = "random"
    if rng.random() < 0.5:
        efam += "+nodata"
        for i in range(n):
            if (ds[i] == n and rng.random() < 0.8) or rng.random() < 0.06:
                e[i] = NODATA
    mode = rng.choice(["wrapper-int", "wrapper-float", "kernel-dyadic"])
    from pyflwdir import dem
    mnp = None if mask is None else np.array(mask, dtype=bool).reshape(shape)
    if mnp is not None and mode != "kernel-dyadic" and rng.random() < 0.3:
        # a 0/1 integer river mask: either rejected with a documented error or honoured like the boolean mask
        mint = mnp.astype(rng.choice([np.uint8, np.int32, np.int64]))
        try:
            flw.dem_dig_d4(np.zeros(shape, dtype=np.float64), rivmsk=mint)
            mnp = mint
            ctx.count("dig:mask-dtype:" + mint.dtype.name)
        except (ValueError, TypeError):
            ctx.count("dig:integer-mask-rejected")
    if mode == "wrapper-int":
        dtype = rng.choice([np.int32, np.int64])
        elv = np.array(e, dtype=dtype).reshape(shape)
        out = flw.dem_dig_d4(elv, rivmsk=mnp)
        scale, dz, trunc = 1, 0, 1
        impl, exact = _scaled_ints(out, 1)
    elif mode == "wrapper-float":
        dtype = rng.choice([np.float32, np.float64])
        elv = np.array(e, dtype=dtype).reshape(shape)
        out = flw.dem_dig_d4(elv, rivmsk=mnp)
        scale, dz, trunc = 1000, 1, 0
        # dz_min = 1e-3 is not a binary fraction: every value is (integer - k/1000) up to k roundings
        # (k < 100, |values| < 10^4), so the nearest multiple of 1/1000 identifies it exactly
        v = [float(x) * 1000 for x in np.asarray(out).ravel().tolist()]
        impl = [int(round(x)) for x in v]
        exact = all(abs(x - y) < 0.2 for x, y in zip(v, impl))
    else:
        dtype = rng.choice([np.float32, np.float64])
        dzf = rng.choice([1.0, 0.5, 0.25, 0.0])
        elv = np.array(e, dtype=dtype).reshape(shape)
        out = dem.dig_4connectivity(idxs_ds=flw.idxs_ds, seq=flw.idxs_seq, elv_flat=elv.ravel(), shape=flw.shape,
                                    mask=None if mnp is None else mnp.ravel(), nodata=float(NODATA), dz_min=dzf)
        scale, dz, trunc = 4, int(dzf * 4), 0
        impl, exact = _scaled_ints(out, 4)
    es = [x * scale for x in e]
    # trivial oracles on the unscaled output
    o = np.asarray(out).ravel()
    ein = np.asarray(elv).ravel()
    raised = [int(i) for i in np.nonzero(o > ein)[0][:5]]
    nd_changed = [int(i) for i in np.nonzero((ein == NODATA) & (o != ein))[0][:5]]
    changed_cells = [int(i) for i in np.nonzero(o != ein)[0]]
    nonlocal_py = [c for c in changed_cells if not _allowed(c, ds, mask, nrow, ncol)][:5]
    shape_ok = np.asarray(out).shape == tuple(shape) or mode == "kernel-dyadic"
    ndiag = sum(1 for i in range(n) if ds[i] != n and ds[i] != i and abs(i // ncol - ds[i] // ncol) == 1
                and abs(i % ncol - ds[i] % ncol) == 1 and (mask is None or mask[i]))
    nontriv = feat["valid"] >= 2 and len(changed_cells) >= 1
    ctx.count("dig:mode:" + mode)
    ctx.count("dig:mask:" + mk)
    ctx.count("dig:elev:" + efam)
    if ndiag:
        ctx.count("dig:has-considered-diagonal-link")
    if changed_cells:
        ctx.count("dig:changed")
    desc = {"op": "dem_dig_d4", "via": mode, "ds": ds, "shape": list(shape), "elevtn": e, "rivmsk": mask,
            "nodata": NODATA, "dtype": np.dtype(dtype).name, "dz_min": None if mode != "kernel-dyadic" else dz / 4,
            "idx_dtype": np.dtype(idt).name}

    def judge(ans):
        a = ans[0]
        if "__err__" in a:
            return [{"kind": "model", "what": "driver error " + a["__err__"]}]
        fs = []
        if a["topo"] != [1]:
            fs.append({"kind": "spec", "what": "cell order handed to dig_4connectivity is not downstream-first (C03 hypothesis)"})
        if not shape_ok or a["spec.size"] != [1]:
            fs.append({"kind": "spec", "what": "output shape differs from raster shape"})
        if raised or a["spec.raised"] != [0]:
            fs.append({"kind": "spec", "what": f"D4 digging raised the elevation at cells {raised}", "impl": o.tolist()})
        if nd_changed or a["spec.nodata"] != [0]:
            fs.append({"kind": "spec", "what": f"D4 digging altered nodata cells {nd_changed}", "impl": o.tolist()})
        if nonlocal_py or a["spec.nonlocal"] != [0]:
            fs.append({"kind": "spec", "what": f"D4 digging changed cells {nonlocal_py} that are not side-adjacent to a considered river cell or its pit",
                       "impl": o.tolist()})
        if not exact:
            fs.append({"kind": "model", "what": "dem_dig_d4 produced a value outside the scaled grid", "impl": o.tolist()})
        if impl != a["model"]:
            fs.append({"kind": "model", "what": "dem_dig_d4: implementation != Lean model", "impl": impl, "model": a["model"]})
        return fs

    args = {"ds": ds, "seq": seq, "nrow": nrow, "ncol": ncol, "elev": es, "impl": impl, "nodata": NODATA * scale,
            "mask": mask, "trunc": trunc, "dz": dz}
    ctx.add(desc, [("dem_dig_d4", args)], judge, nontrivial=nontriv)


def _allowed(c, ds, mask, nrow, ncol):
    """c is side-adjacent to a considered river cell, or to the pit directly downstream of one"""
    n = len(ds)
    r, q = divmod(c, ncol)
    for dr, dq in ((-1, 0), (1, 0), (0, -1), (0, 1)):
        r1, q1 = r + dr, q + dq
        if not (0 <= r1 < nrow and 0 <= q1 < ncol):
            continue
        j = r1 * ncol + q1
        if ds[j] == n:
            continue
        if mask is None or mask[j]:
            return True
        if ds[j] == j:   # j is a pit: considered if some considered cell drains directly into it
            for i in range(n):
                if ds[i] == j and (mask is None or mask[i]):
                    return True
    return False


# ----------------------------------------------------------------------------------------
def run(ctx):
    rng = ctx.rng
    quick = ctx.tier == "quick"
    esc = ctx.escalate
    # 1. profiles
    nprof = (800 if quick else 12000) * esc
    for _ in range(nprof):
        p = gen_profile(rng)
        scale = 2 if rng.random() < 0.15 else 1
        dtype = rng.choice(ELEV_DTYPES if scale == 1 else [np.float32, np.float64])
        _add_profile(ctx, p, scale, dtype, "random")
        if len(ctx.cases) > 2000:
            ctx.flush()
    # exhaustive tiny universe: all profiles of length <= L over 4 levels (3 levels in the quick tier)
    L, lv = (5, 3) if quick else (7, 4)
    for ln in range(1, L + 1):
        for p in itertools.product(range(lv), repeat=ln):
            _add_profile(ctx, list(p), 1, np.float64 if (sum(p) + ln) % 2 else np.int32, "exhaustive")
        ctx.flush()
    ctx.exhaustive = True
    ctx.notes.append(f"exhaustive: all {sum(lv ** k for k in range(1, L + 1))} profiles of length <= {L} over {lv} levels "
                     "(validates model = code on that universe; the Fix1D contract itself is a theorem, fix1d_ok)")
    # 2. dem_adjust
    seen = set()
    ncase = (220 if quick else 4000) * esc
    max_cells = 56 if quick else 400
    for k in range(ncase):
        vector = rng.random() < 0.25
        if vector:
            n = rng.randint(2, 40 if quick else 150)
            ds = gen_forest(rng, n, fanin_bias=rng.choice([0.0, 0.0, 0.5]))
            shape, fam = (n, 1), "forest"
        else:
            ds, shape, fam = gen_raster_net(rng, max_cells=max_cells)
        _case_adjust(ctx, rng, ds, shape, fam, vector, seen)
        if len(ctx.cases) > 600:
            ctx.flush()
    # 3. dem_dig_d4
    ncase = (260 if quick else 4000) * esc
    for k in range(ncase):
        _case_dig(ctx, rng, max_cells)
        if len(ctx.cases) > 600:
            ctx.flush()
