"""C05 - basins and outlets: correspondence of FlwdirRaster.basins / basin_outlets with the Lean
model (eq) and with the declarative first-outlet walk (spec)."""
import numpy as np
from common import (gen_raster_net, mk_raster, canon_idx, ints, net_features, max_path_len,
                    exc_class, topo_of, gen_channel_net, ds_to_nextxy, aged)

OPS = ["basins(default)", "basins(idxs,ids)", "basins(xy,ids)", "basins(errors)", "basin_outlets"]
RULE = ("random loop-free networks on rasters <= 56 cells (quick) / <= 400 (thorough): D8 networks from "
        "random DEMs and arbitrary forests; outlet sets = pits, interior cells, nested outlets, duplicates, "
        "coordinates (any position inside the cell: centre, k/8, 2**-20/-33/-40 of a cell from the low / high edge; "
        "unit and dyadic georeferences); ids random non-zero of dtype u8/u32/i64. One network in five consists mostly of "
        "ONE long flow path (1 x N / N x 1 channels and snakes through r x c rasters along rows / columns from any corner, "
        "5..40 cells, a quarter of them up to 4 x the size limit; main path > half of the cells, the rest nodata or short "
        "side branches, sometimes cut by a nodata cell). Every network is used with the default cell order or (a third; "
        "three quarters of the long-path networks) with order_cells('sort'), as an ftype='nextxy' object, or parsed from "
        "its NEXTXY raster with from_array. non-trivial = >= 2 valid cells, >= 1 confluence, "
        "path length >= 3; distinct = SHA-1 of (op, network, build, outlets, ids)")
ID_DTYPES = [np.uint8, np.uint32, np.int64, np.uint64]
# georeferences for outlets given by coordinates: all coefficients dyadic, so that cell edges, the offsets below and
# the library's inverse transform are exact in binary64 and 'the cell containing the point' is unambiguous
XY_TRANSFORMS = [None, None, (0.5, 0.0, 10.0, 0.0, -0.25, 20.0), (2.0, 0.0, -16.0, 0.0, -2.0, 8.0),
                 (0.25, 0.0, -3.0, 0.0, -0.5, -5.0)]
EDGE_EXPS = [20, 33, 40]     # distance to the cell edge = 2**-e of a cell


def _cell_fraction(rng, ctx):
    """position inside a cell along one axis, as an exact Fraction in [0, 1): the centre, k/8, or 2**-e from the low
    / high edge"""
    from fractions import Fraction
    u = rng.random()
    if u < 0.25:
        return Fraction(1, 2), "centre"
    if u < 0.5:
        k = rng.randint(0, 7)
        return Fraction(k, 8), ("low-edge" if k == 0 else "eighth")
    e = rng.choice(EDGE_EXPS)
    if rng.random() < 0.5:
        return Fraction(1, 2 ** e), "edge-low"
    return 1 - Fraction(1, 2 ** e), "edge-high"


def _xy_of(rng, ctx, outlets, shape, tr):
    """coordinates of points inside the outlet cells + the exact (rational arithmetic) cell containing each point"""
    from fractions import Fraction
    import math
    a, _, c, _, e, f = [Fraction(v) for v in (tr or (1.0, 0.0, 0.0, 0.0, -1.0, 0.0))]
    ncol = shape[1]
    xs, ys, cells = [], [], []
    for o in outlets:
        fx, kx = _cell_fraction(rng, ctx)
        fy, ky = _cell_fraction(rng, ctx)
        ctx.count("xy-pos:" + kx)
        ctx.count("xy-pos:" + ky)
        x = float(c + a * (o % ncol + fx))
        y = float(f + e * (o // ncol + fy))
        col = math.floor((Fraction(x) - c) / a)
        row = math.floor((Fraction(y) - f) / e)
        assert (row, col) == divmod(o, ncol), ("harness: coordinate not exactly representable", o, x, y)
        xs.append(x)
        ys.append(y)
        cells.append(row * ncol + col)
    return xs, ys, cells


def _build(ctx, ds, shape, how, transform=None):
    """the network as a FlwdirRaster: 'walk' = the default object (D8 type, walk order); 'sort' = the same after
    order_cells('sort'); 'nextxy' = an ftype='nextxy' object (always ordered by rank); 'nextxy-parsed' = parsed from the
    network's NEXTXY raster by pyflwdir.from_array. May raise ValueError (constructor rejects)."""
    n = len(ds)
    kw = {} if transform is None else {"transform": transform}
    if how == "nextxy-parsed":
        import pyflwdir
        nx, ny = ds_to_nextxy(ds, shape, pit_code=ctx.rng.choice([-9, -9, -10]))
        data = (nx, ny) if ctx.rng.random() < 0.5 else np.stack([nx, ny])
        flw = pyflwdir.from_array(data, ftype="nextxy", **kw)
        if canon_idx(flw.idxs_ds, n) == list(ds):
            return aged(flw)
        ctx.count("nextxy-parse-differs(C01 matter; object built from the network instead)")
        how = "nextxy"
    if how == "nextxy":
        return mk_raster(ds, shape, ftype="nextxy", **kw)
    flw = mk_raster(ds, shape, **kw)
    if how == "sort":
        flw.order_cells("sort")
    return flw


def run(ctx):
    rng = ctx.rng
    ncase = (150 if ctx.tier == "quick" else 2500) * ctx.escalate
    max_cells = 56 if ctx.tier == "quick" else 400
    for k in range(ncase):
        if rng.random() < 0.2:
            # mostly ONE long flow path: small (5..40 cells) and, a quarter of them, up to 4 x the usual size limit
            ds, shape, fam = gen_channel_net(rng, max_cells=4 * max_cells if rng.random() < 0.25 else 40)
            how = rng.choice(["walk", "sort", "nextxy", "nextxy-parsed"])
            plen = max_path_len(ds)
            ctx.count("feature:long-path:" + ("> half of the cells" if 2 * plen > len(ds) else "<= half of the cells"))
            ctx.count("feature:long-path:cells " + ("<= 40" if len(ds) <= 40 else "> 40"))
            if how != "walk":
                ctx.count("feature:long-path:rank-ordered (sort / nextxy)")
        else:
            ds, shape, fam = gen_raster_net(rng, max_cells=max_cells)
            how = rng.choice(["walk"] * 6 + ["sort", "nextxy", "nextxy-parsed"])
        n = len(ds)
        feat = net_features(ds)
        nontriv = feat["valid"] >= 2 and feat["confluences"] >= 1 and max_path_len(ds) >= 3
        ctx.count("family:" + fam)
        ctx.count("feature:build:" + how)
        try:
            flw = _build(ctx, ds, shape, how)
        except ValueError:
            ctx.count("ctor-rejected")
            continue
        seq = canon_idx(flw.idxs_seq, n)
        valid = [i for i in range(n) if ds[i] != n]
        mode = rng.choice(["default", "idxs", "idxs", "xy", "err"])
        ctx.count("mode:" + mode)
        base = {"ds": ds, "shape": list(shape)}
        if how != "walk":
            base["build"] = how
        if mode == "default":
            if rng.random() < 0.35:
                # the full basin map with user ids for the pits, asked for before the default map on the same object
                pits0 = canon_idx(flw.idxs_pit, n)
                dt0 = rng.choice(ID_DTYPES)
                ids0 = rng.sample(range(1, 250), len(pits0)) if len(pits0) < 249 else list(range(1, len(pits0) + 1))
                out0 = flw.basins(ids=np.array(ids0, dtype=dt0))
                ctx.count("pit-ids-before-default")
                _add_basins(ctx, {"op": "basins", **base, "outlets": None, "ids": ids0, "dtype": np.dtype(dt0).name, "via": "pits"},
                            ds, seq, pits0, ids0, out0, dt0, nontriv)
            out = flw.basins()
            outlets = canon_idx(flw.idxs_pit, n)
            ids = list(range(1, len(outlets) + 1))
            desc = {"op": "basins", **base, "outlets": None, "ids": None}
            _add_basins(ctx, desc, ds, seq, outlets, ids, out, None, nontriv)
        elif mode in ("idxs", "xy"):
            m = rng.randint(1, min(6, len(valid)))
            outlets = [rng.choice(valid) for _ in range(m)]
            if rng.random() < 0.4:  # nested: add the downstream cell of an outlet
                o = rng.choice(outlets)
                outlets.append(ds[o])
            if rng.random() < 0.7:
                outlets = list(dict.fromkeys(outlets))  # distinct
            dt = rng.choice(ID_DTYPES)
            hi = 250 if dt == np.uint8 else 100000
            if rng.random() < 0.5:
                pool = rng.sample(range(1, hi), len(outlets))
            else:
                pool = [rng.randint(1, 6) for _ in outlets]
            if dt == np.int64 and rng.random() < 0.6:
                # "every id vector without zeros": negative ids are legal for signed dtypes
                pool = [(-x if rng.random() < 0.5 else x) for x in pool]
                ctx.count("negative-ids")
            if dt in (np.int64, np.uint32, np.uint64) and rng.random() < (0.5 if dt == np.uint64 else 0.2):
                # ids beyond 2**24 (2**53 for int64, 2**63 for uint64): survive only if no float32 / float64 buffer
                # (or a signed 64-bit one) is in the way
                big = 2 ** 54 if dt == np.int64 else (2 ** 31 if dt == np.uint32 else rng.choice([2 ** 54, 2 ** 63 + 2 ** 54]))
                pool = [x + big * (1 if x > 0 else -1) + 2 * k + 1 for k, x in enumerate(pool)]
                ctx.count("large-ids")
            ids_np = np.array(pool, dtype=dt)
            desc = {"op": "basins", **base, "outlets": outlets, "ids": pool, "dtype": np.dtype(dt).name, "via": mode}
            if mode == "idxs":
                out = flw.basins(idxs=np.array(outlets, dtype=np.int64), ids=ids_np)
            else:
                # outlets given by coordinates behave as the cell containing the point: any position inside the cell
                # (centre, k/8, 2**-20 .. 2**-40 of a cell from the low / high edge), unit and dyadic georeferences
                tr = rng.choice(XY_TRANSFORMS)
                if tr is not None:
                    from affine import Affine
                    try:
                        flw = _build(ctx, ds, shape, how, transform=Affine(*tr))
                    except ValueError:
                        ctx.count("ctor-rejected")
                        continue
                    seq = canon_idx(flw.idxs_seq, n)
                    ctx.count("xy-dyadic-transform")
                xs, ys, _ = _xy_of(rng, ctx, outlets, shape, tr)
                desc.update({"xy": [xs, ys], "xy_hex": [[v.hex() for v in xs], [v.hex() for v in ys]],
                             "transform": list(tr) if tr is not None else None})
                try:
                    out = flw.basins(xy=(np.array(xs), np.array(ys)), ids=ids_np)
                except Exception as e:
                    ctx.evaluations += 1
                    ctx.fail(desc, "spec", f"basins(xy=...) with points inside valid cells {outlets} raised "
                             f"{exc_class(e)}: {e}")
                    continue
            _add_basins(ctx, desc, ds, seq, outlets, pool, out, dt, nontriv)
            # outlet query on the produced map (distinct ids -> exactly one outlet per basin)
            if len(set(pool)) == len(pool) and len(set(outlets)) == len(outlets):
                lbs, idxs_out = flw.basin_outlets(out)
                _add_outlets(ctx, {"op": "basin_outlets", **base, "regions": ints(out)}, ds, seq,
                             ints(out), lbs, idxs_out, n, expect=sorted((l, o) for l, o in zip(pool, outlets) if l > 0), nontriv=nontriv)
        else:
            outlets = [rng.choice(valid) for _ in range(2)]
            bad = rng.choice(["zero", "size"])
            ids_np = np.array([3, 0]) if bad == "zero" else np.array([1, 2, 3])
            try:
                flw.basins(idxs=np.array(outlets), ids=ids_np)
                got = "returns"
            except Exception as e:
                got = exc_class(e)
            ctx.evaluations += 1
            if got != "ValueError":
                ctx.fail({"op": "basins", **base, "outlets": outlets, "ids": ints(ids_np)}, "spec",
                         f"ids with {bad} must raise ValueError, got {got}")
        # default basins on an object parsed from a D8 raster with edge pits (cells whose code points off the
        # raster or at nodata): from_array sets idxs_outlet (explicit pit codes only) next to idxs_pit
        if fam == "dem" and rng.random() < 0.5:
            import pyflwdir
            from catalogue import ds_to_d8
            codes = ds_to_d8(ds, shape)
            nrow, ncol = shape
            drdc = {1: (0, 1), 2: (1, 1), 4: (1, 0), 8: (1, -1), 16: (0, -1), 32: (-1, -1), 64: (-1, 0), 128: (-1, 1)}
            for i in range(n):
                if codes[i] == 0 and rng.random() < 0.6:   # turn pits into edge pits where geometry allows
                    r, c = divmod(i, ncol)
                    for code, (dr, dc) in drdc.items():
                        r1, c1 = r + dr, c + dc
                        if not (0 <= r1 < nrow and 0 <= c1 < ncol) or ds[r1 * ncol + c1] == n:
                            codes[i] = code
                            ctx.count("edge-pit")
                            break
            try:
                flw2 = pyflwdir.from_array(np.array(codes, dtype=np.uint8).reshape(shape), ftype="d8")
            except ValueError:
                flw2 = None
            if flw2 is not None:
                out2 = flw2.basins()
                _add_basins(ctx, {"op": "basins", **base, "d8": codes, "outlets": None, "ids": None, "via": "from_array"},
                            ds, canon_idx(flw2.idxs_seq, n), canon_idx(flw2.idxs_pit, n),
                            list(range(1, len(flw2.idxs_pit) + 1)), out2, None, nontriv)
        # arbitrary label maps for the outlet query
        if rng.random() < 0.3:
            regions = [rng.randint(0, 3) if ds[i] != n else 0 for i in range(n)]
            lbs, idxs_out = flw.basin_outlets(np.array(regions, dtype=np.int32).reshape(shape))
            _add_outlets(ctx, {"op": "basin_outlets", **base, "regions": regions}, ds, seq, regions,
                         lbs, idxs_out, n, expect=None, nontriv=nontriv)
        if len(ctx.cases) > 400:
            ctx.flush()


def _add_basins(ctx, desc, ds, seq, outlets, ids, out, dt, nontriv):
    impl = ints(out)
    dtype_ok = (dt is None and out.dtype == np.uint32) or (dt is not None and out.dtype == np.dtype(dt))

    def judge(ans):
        a = ans[0]
        fs = []
        if "__err__" in a:
            return [{"kind": "model", "what": "driver error " + a["__err__"]}]
        if a["topo"] != [1]:
            fs.append({"kind": "spec", "what": "cell order handed to the sweep is not downstream-first (C03 hypothesis)"})
        if impl != a["spec"]:
            bad = [i for i in range(len(impl)) if impl[i] != a["spec"][i]][:5]
            fs.append({"kind": "spec", "what": f"basin label differs from first-outlet walk at cells {bad}",
                       "impl": impl, "spec": a["spec"]})
        if impl != a["model"]:
            fs.append({"kind": "model", "what": "basins: implementation != Lean model", "impl": impl, "model": a["model"]})
        if not dtype_ok:
            fs.append({"kind": "spec", "what": f"ids dtype not carried through: got {out.dtype}"})
        return fs

    ctx.add(desc, [("basins", {"ds": ds, "seq": seq, "outlets": outlets, "ids": ids})], judge, nontrivial=nontriv)


def _add_outlets(ctx, desc, ds, seq, regions, lbs, idxs_out, n, expect, nontriv):
    impl = sorted(zip(ints(lbs), canon_idx(idxs_out, n)))
    sorted_ok = ints(lbs) == sorted(ints(lbs))

    def judge(ans):
        a = ans[0]
        if "__err__" in a:
            return [{"kind": "model", "what": "driver error " + a["__err__"]}]
        fs = []
        spec = list(zip(a["spec.lbs"], a["spec.idxs"]))
        model = list(zip(a["model.lbs"], a["model.idxs"]))
        if impl != spec:
            fs.append({"kind": "spec", "what": "outlet query differs from declarative outlet set", "impl": impl, "spec": spec})
        if impl != model:
            fs.append({"kind": "model", "what": "region_outlets: implementation != Lean model", "impl": impl, "model": model})
        if not sorted_ok:
            fs.append({"kind": "spec", "what": "labels not sorted"})
        if expect is not None and impl != expect:
            fs.append({"kind": "spec", "what": "basin map from distinct outlets: outlet query must return exactly the listed outlets",
                       "impl": impl, "expect": expect})
        return fs

    ctx.add(desc, [("region_outlets", {"ds": ds, "seq": seq, "regions": regions})], judge, nontrivial=nontriv)
