"""C07 - compiled (JIT) execution agrees with interpreted execution: every catalogue operation is
executed on the same inputs in worker processes with NUMBA_DISABLE_JIT=1 and =0 (kernels compiled
by Numba in that process); results are canonicalised (dtype, shape, values) and compared: integers,
booleans, shapes and dtypes identical, floats within 4 ulp of their storage dtype. A compile failure
is a result ("does not compile") and differs from "returns". Inputs avoid exactly-equal competing
upstream areas (catalogue.World.uparea_distinct)."""
import hashlib
import json

import catalogue
import matrix

OPS = sorted(catalogue.OPS)
RULE = ("random worlds (D8 rasters <= 42 cells incl. 1xN/Nx1/nodata/geographic, vector networks) x every public "
        "operation of the catalogue x random option signatures (optional arguments given/omitted, int/float/bool "
        "fields, Affine transforms); each executed interpreted and compiled; non-trivial = the op reaches at least "
        "one @njit kernel and returned in both modes; distinct = SHA-1 of (world, op, args)")
PURE_PY = {"bounds", "extent", "mask", "index_xy", "conversion", "set_transform", "dump_load"}
EPS = {"float32": 4 * 2.0 ** -23, "float64": 4 * 2.0 ** -52, "float16": 4 * 2.0 ** -10}


def same(a, b):
    """identical structure / dtypes / ints / bools; floats within 4 ulp of the storage dtype"""
    if isinstance(a, list) and isinstance(b, list):
        if len(a) == 4 and len(b) == 4 and a[0] == "arr" and b[0] == "arr":
            if a[1] != b[1] or a[2] != b[2] or len(a[3]) != len(b[3]):
                return False
            eps = EPS.get(a[1])
            if eps is None:
                return a[3] == b[3]
            for x, y in zip(a[3], b[3]):
                if x == y:
                    continue
                if not (isinstance(x, float) and isinstance(y, float)) or abs(x - y) > eps * max(abs(x), abs(y)):
                    return False
            return True
        return len(a) == len(b) and all(same(x, y) for x, y in zip(a, b))
    if isinstance(a, float) and isinstance(b, float):
        return a == b or abs(a - b) <= EPS["float64"] * max(abs(a), abs(b))
    return a == b


def affine_typing(r):
    s = (r.get("msg", "") + r.get("tb", ""))
    return r.get("status") == "exc" and r.get("exc") in ("TypingError", "ValueError", "NumbaValueError") and "ffine" in s


def classify(f):
    return f.get("sig")


def run(ctx):
    ctx.no_watchdog()   # this check runs the implementation in worker processes / under its own alarms
    rng = ctx.rng
    nworlds = (10 if ctx.tier == "quick" else 60) * ctx.escalate
    tasks = matrix.gen_tasks(rng, nworlds, ctx.tier if ctx.tier == "quick" else "quick")
    if ctx.replay:
        d = ctx.replay["failure"]["desc"]
        tasks.insert(0, {"id": "replay", "world": d["world"], "op": d["op"], "args": d["args"], "group": catalogue.OPS[d["op"]]["group"]})
    if ctx.tier == "thorough":
        # the unsigned index dtypes are further argument-type signatures of every kernel
        extra = matrix.gen_tasks(rng, 8, "quick", dtypes=["uint32", "uint64"])
        tasks += [t for t in extra if t["op"] not in ("from_array", "conversion", "from_dem", "slope", "spread2d", "gis_utils")]
    for t in tasks:
        t["timeout"] = 400
    interp = matrix.run_workers(tasks, "plain", {"NUMBA_DISABLE_JIT": "1"}, nproc=4)
    jit = matrix.run_workers(tasks, "plain", {"NUMBA_DISABLE_JIT": "0"}, nproc=16, group_key="op", timeout=2400)
    affine_ops = set()
    for t in tasks:
        a, b = interp[t["id"]], jit[t["id"]]
        ctx.evaluations += 1
        ctx.count("op:" + t["op"])
        for _k in catalogue.features(t):
            ctx.count("feature:" + _k)
        desc = {"op": t["op"], "args": t["args"], "world": t["world"], "dtype": t.get("dtype")}
        if len(ctx.samples) < 3:
            ctx.samples.append({"op": t["op"], "args": t["args"], "shape": t["world"]["shape"]})
        for r in (a, b):
            if r.get("status") == "harness-exc":
                raise RuntimeError(f"harness failure in worker: {r}")
        if b.get("status") in ("worker-died",) or a.get("status") == "worker-died":
            ctx.fail(desc, "spec", f"worker died: interp={a.get('status')} jit={b.get('status')} {b.get('msg', '')}")
            continue
        if t.get("dtype") == "uint64" and a.get("status") == "ok" and b.get("status") == "exc" and b.get("exc") == "TypingError" \
                and not affine_typing(b):
            ctx.failures.append({"desc": desc, "kind": "spec", "sig": "jit-uint64-typing",
                                 "what": f"{t['op']} with uint64 indices does not compile under the JIT: {b.get('msg')}"})
            continue
        if t.get("dtype") in ("uint32", "uint64") and t["op"] == "dem_dig_d4" and a.get("status") == "ok" \
                and b.get("status") == "exc" and b.get("exc") == "ValueError" and "not in list" in b.get("msg", ""):
            ctx.failures.append({"desc": desc, "kind": "spec", "sig": "jit-unsigned-dig-d4",
                                 "what": f"dem_dig_d4 with {t['dtype']} indices raises under the JIT only: {b.get('msg')}"})
            continue
        if affine_typing(b) and a.get("status") == "ok":
            affine_ops.add(t["op"])
            ctx.failures.append({"desc": desc, "kind": "spec", "sig": "jit-affine-typing:" + t["op"],
                                 "what": f"{t['op']} does not compile under the JIT: {b.get('msg')}"})
            continue
        ctx.impl_validated += 1
        if a.get("status") != b.get("status") or (a.get("status") == "exc" and a.get("exc") != b.get("exc")):
            ctx.fail(desc, "spec", f"interpreted: {a.get('status')} {a.get('exc', '')} {a.get('msg', '')[:120]} | "
                     f"compiled: {b.get('status')} {b.get('exc', '')} {b.get('msg', '')[:160]}")
            continue
        if a.get("status") == "ok":
            if t["op"] not in PURE_PY:
                ctx.nontrivial.add(hashlib.sha1(json.dumps([t["world"], t["op"], t["args"]], sort_keys=True).encode()).hexdigest())
            if not same(a["result"], b["result"]):
                ctx.fail(desc, "spec", "compiled result differs from interpreted result",
                         interpreted=json.dumps(a["result"])[:400], compiled=json.dumps(b["result"])[:400])
    ctx.hist["ops_not_compiling_affine"] = sorted(affine_ops)
    ctx.notes.append("ops whose kernels fail to type with affine %s (known finding F07): %s" % (
        __import__("affine").__version__, ", ".join(sorted(affine_ops)) or "none"))
