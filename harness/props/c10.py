"""C10 - unit catchments and sub-grid river segments.

Correspondence of FlwdirRaster.ucat_outlets / ucat_area / ucat_volume / subgrid_rivlen / rivavg /
rivmed / rivslp (and the subgrid.py kernels behind them) with the Lean model (`model`, exact) and with
the declarative definitions the theorems of Props/C10.lean speak about (`spec`: first-outlet walk and
brute-force sums per label; least-stop-index segment along the iterates of the direction array;
outlet pixel inside its coarse cell / leaves it). Float inputs are small integers or dyadic rationals
and cell sizes Pythagorean, so the implementation's arithmetic is exact or one correctly rounded
division, which the harness reproduces from the model's exact fraction."""
import math
import os
import warnings
from fractions import Fraction

import numpy as np
from common import (gen_shape, gen_dem_net, gen_forest, mk_raster, canon_idx, ints, net_features,
                    max_path_len)

OPS = ["ucat_outlets(cellsize,method,uparea)", "ucat_area(unit)", "subgrid.ucat_area(kernel)",
       "ucat_volume", "subgrid.ucat_volume(kernel)", "subgrid_rivlen(direction,mask,unit)",
       "subgrid_rivavg(direction,mask,weights,nodata)", "subgrid_rivmed(direction,mask,nodata)",
       "subgrid_rivslp(direction,method,mask)", "subgrid.segment_slope(kernel)",
       "subgrid_rivslp(both,length,method)", "subgrid.fixed_length_slope(kernel)"]
RULE = ("random loop-free networks on rasters <= 56 cells (quick) / <= 340 (thorough): D8 networks from random "
        "DEMs and arbitrary forests laid on a raster; outlet sets = derived (cell size 1..4, eam_plus / dmm, own or "
        "user upstream area with ties), random cells with missing entries, cells outside the network and pixels listed "
        "twice, outlets nested on one flow path, "
        "all cells; directions up/down, river masks from an upstream-area threshold or random, data with nodata, "
        "zero weights. non-trivial = >= 2 valid cells, >= 1 confluence, path length >= 3 and >= 1 non-missing outlet; "
        "distinct = SHA-1 of (op, network, outlets, options, fields)")

RES = [(3, -4), (4, -3), (3000, -4000), (4000, -3000), (3, 4), (-4, -3), (-3, 4)]   # incl. south-up and west-east flipped grids


# ----------------------------------------------------------------------------------------
# exact number helpers
# ----------------------------------------------------------------------------------------
def scaled(*arrs):
    """common denominator D and the integer lists x*D of several float/int arrays (exact)"""
    fr = [[Fraction(float(x)) if not isinstance(x, (int, np.integer)) else Fraction(int(x))
           for x in np.asarray(a).ravel().tolist()] for a in arrs]
    D = 1
    for l in fr:
        for f in l:
            D = D * f.denominator // math.gcd(D, f.denominator)
    return D, [[int(f * D) for f in l] for l in fr]


def round_to(q, dtype):
    """correctly rounded value of the exact rational q in a float dtype"""
    dtype = np.dtype(dtype)
    if dtype == np.float64:
        return np.float64(float(q))
    x = np.float32(float(q))
    best = x
    for y in (np.nextafter(x, np.float32(-np.inf)), np.nextafter(x, np.float32(np.inf))):
        if np.isfinite(y) and abs(Fraction(float(y)) - q) < abs(Fraction(float(best)) - q):
            best = y
    return best


def same_float(a, b):
    a, b = float(a), float(b)
    return (math.isnan(a) and math.isnan(b)) or a == b


def err(a):
    return [{"kind": "model", "what": "driver error " + a["__err__"]}]


# ----------------------------------------------------------------------------------------
# outlet sets
# ----------------------------------------------------------------------------------------
def gen_outlets(rng, ds, n, valid):
    """(list with n = missing, tag)"""
    u = rng.random()
    if u < 0.45:
        m = rng.randint(1, min(8, len(valid)))
        outs = rng.sample(valid, m)
        tag = "random"
    elif u < 0.75:  # nested outlets on one flow path (+ a few others)
        i = max(valid, key=lambda j: (_plen(ds, j), rng.random()))
        path = [i]
        while ds[path[-1]] != path[-1]:
            path.append(ds[path[-1]])
        k = rng.randint(1, min(4, len(path)))
        outs = rng.sample(path, k)
        others = [v for v in valid if v not in outs]
        outs += rng.sample(others, min(len(others), rng.randint(0, 3)))
        rng.shuffle(outs)
        tag = "nested"
    elif u < 0.85:
        outs = [i for i in valid if rng.random() < 0.5] or [valid[0]]
        rng.shuffle(outs)
        tag = "dense"
    else:
        outs = list(range(n))
        tag = "all"
    if tag != "all" and rng.random() < 0.5:  # missing entries
        for _ in range(rng.randint(1, 3)):
            outs.insert(rng.randint(0, len(outs)), n)
        tag += "+missing"
    if tag != "all" and rng.random() < 0.12:  # an outlet pixel listed twice (the last entry labels)
        real = [o for o in outs if o != n]
        if real:
            outs.insert(rng.randint(0, len(outs)), rng.choice(real))
            tag += "+dup"
    if tag != "all" and rng.random() < 0.2:
        nod = [i for i in range(n) if ds[i] == n]
        if nod:  # outlets on cells outside the network (nodata cells)
            for c in rng.sample(nod, min(len(nod), rng.randint(1, 2))):
                outs.insert(rng.randint(0, len(outs)), c)
            tag += "+offnet"
    return outs, tag


def _plen(ds, i):
    k = 0
    while ds[i] != i and k <= len(ds):
        i = ds[i]
        k += 1
    return k


def outs_np(outs, n, flw, rng):
    """outlet vector as the array a caller would pass: dtype of idxs_ds (missing = its mv) or intp,
    1-D or 2-D"""
    mv = int(flw._mv)
    if rng.random() < 0.5:
        a = np.array([mv if o == n else o for o in outs], dtype=np.uint64 if mv > 2**40 else np.int64).astype(flw.idxs_ds.dtype)
    else:
        if mv < 0 or mv > 2**40:
            a = np.array([-1 if o == n else o for o in outs], dtype=np.intp)
        else:  # uint32 network: the sentinel only exists in that dtype
            a = np.array([mv if o == n else o for o in outs], dtype=np.int64).astype(flw.idxs_ds.dtype)
    if len(outs) % 2 == 0 and len(outs) > 2 and rng.random() < 0.4:
        a = a.reshape(2, -1)
    return a


def gen_net(rng, max_cells, max_side):
    """loop-free network on a raster shape: true D8 links from a random DEM, or an arbitrary forest"""
    shape = gen_shape(rng, max_cells=max_cells, max_side=max_side)
    n = shape[0] * shape[1]
    if rng.random() < 0.75:
        return gen_dem_net(rng, shape, p_nodata=rng.choice([0.0, 0.1, 0.25])), shape, "dem"
    return gen_forest(rng, n, fanin_bias=rng.choice([0.0, 0.0, 0.5])), shape, "forest"


def tiny_universe(ctx):
    """thorough tier: EVERY loop-free network on 4 cells (links 0..3 or nodata) x EVERY non-empty set of
    valid cells as outlets (listed in a seeded order): kernel ucat_area with areas 1,2,4,8 (every subset
    sum is distinct) and river length / median in both directions"""
    import itertools
    rng = ctx.rng
    for dsv in itertools.product(range(5), repeat=4):
        ds = list(dsv)
        n = 4
        if any(d != n and ds[d] == n for d in ds):
            continue  # link into a nodata cell
        valid = [i for i in range(n) if ds[i] != n]
        if len(valid) < 2 or max_path_len(ds) > n or any(_plen(ds, i) > n for i in valid):
            continue
        try:
            flw = mk_raster(ds, (2, 2) if rng.random() < 0.5 else (1, 4))
            seq = canon_idx(flw.idxs_seq, n)
        except ValueError:
            continue
        if sorted(seq) != valid:
            continue  # a loop: not in the property's domain
        feat = net_features(ds)
        nt = feat["confluences"] >= 1 and max_path_len(ds) >= 3
        W = {"flw": flw, "ds": ds, "n": n, "seq": seq, "shape": tuple(flw.shape), "fam": "tiny", "res": (3, -4),
             "valid": valid, "env": {"ds": ds, "shape": list(flw.shape), "family": "tiny"}, "nontriv": nt}
        ctx.count("tiny-networks")
        for r in range(1, len(valid) + 1):
            for sub in itertools.combinations(valid, r):
                outs = list(sub)
                rng.shuffle(outs)
                case_area(ctx, W, outs, nt, kernel=True, area_fixed=[1, 2, 4, 8])
                case_rivlen(ctx, W, outs, nt, unit="cell")
                case_rivavg(ctx, W, outs, nt, median=True)
        if len(ctx.cases) > 2000:
            ctx.flush()
    ctx.exhaustive = True


# ----------------------------------------------------------------------------------------
def run(ctx):
    warnings.simplefilter("ignore")
    np.seterr(all="ignore")
    rng = ctx.rng
    nnet = (110 if ctx.tier == "quick" else 1500) * ctx.escalate
    max_cells, max_side = (56, 9) if ctx.tier == "quick" else (340, 18)
    from affine import Affine
    if ctx.tier != "quick":
        tiny_universe(ctx)
    for _ in range(nnet):
        ds, shape, fam = gen_net(rng, max_cells, max_side)
        n = len(ds)
        feat = net_features(ds)
        net_nontriv = feat["valid"] >= 2 and feat["confluences"] >= 1 and max_path_len(ds) >= 3
        ctx.count("family:" + fam)
        res = rng.choice(RES)
        dt = rng.choice([np.int32, np.int32, np.uint32, np.int64])
        try:
            flw = mk_raster(ds, shape, dtype=dt, transform=Affine(res[0], 0, 0, 0, res[1], 0), latlon=False)
        except ValueError:
            ctx.count("ctor-rejected")
            continue
        seq = canon_idx(flw.idxs_seq, n)
        valid = [i for i in range(n) if ds[i] != n]
        env = {"ds": ds, "shape": list(shape), "res": list(res), "family": fam, "idx_dtype": np.dtype(dt).name}
        W = {"flw": flw, "ds": ds, "n": n, "seq": seq, "shape": shape, "fam": fam, "res": res,
             "valid": valid, "env": env, "nontriv": net_nontriv}

        # ---- derived outlets -------------------------------------------------------------
        sets = []
        for _ in range(rng.randint(1, 2)):
            cs = rng.choice([1, 2, 2, 3, 3, 4, 5])
            method = rng.choice(["eam_plus", "eam_plus", "dmm"])
            o = case_outlets(ctx, W, cs, method)
            if o is not None and rng.random() < 0.7:
                sets.append((o, f"derived:{method}"))
        for _ in range(rng.randint(1, 2)):
            sets.append(gen_outlets(rng, ds, n, valid))
        for outs, tag in sets:
            ctx.count("outlets:" + tag.split(":")[0])
            nt = net_nontriv and any(o != n for o in outs)
            todo = rng.sample(["area", "areak", "vol", "len", "avg", "med", "slp"], rng.randint(3, 5))
            for t in todo:
                if t == "area":
                    case_area(ctx, W, outs, nt, kernel=False)
                elif t == "areak":
                    case_area(ctx, W, outs, nt, kernel=True)
                elif t == "vol":
                    case_volume(ctx, W, outs, nt)
                elif t == "len":
                    case_rivlen(ctx, W, outs, nt)
                elif t == "avg":
                    case_rivavg(ctx, W, outs, nt, median=False)
                elif t == "med":
                    case_rivavg(ctx, W, outs, nt, median=True)
                else:
                    case_rivslp(ctx, W, outs, nt)
        if len(ctx.cases) > 300:
            ctx.flush()


# ----------------------------------------------------------------------------------------
# ucat_outlets
# ----------------------------------------------------------------------------------------
def case_outlets(ctx, W, cs, method):
    from pyflwdir import upscale
    rng, flw, ds, n, shape = ctx.rng, W["flw"], W["ds"], W["n"], W["shape"]
    nrowc, ncolc = -(-shape[0] // cs), -(-shape[1] // cs)
    user = rng.random() < 0.4
    if user:  # user upstream area with many ties (first index must win)
        upa_np = np.array([rng.randint(1, 4) for _ in range(n)], dtype=rng.choice([np.float32, np.int32])).reshape(shape)
        upa_np = np.where(flw.idxs_ds.reshape(shape) == flw._mv, upa_np.dtype.type(-9999), upa_np)
        out = flw.ucat_outlets(cs, uparea=upa_np, method=method)
    else:
        upa_np = flw.upstream_area()
        out = flw.ucat_outlets(cs, method=method.upper() if rng.random() < 0.2 else method)
    ctx.count("outlets-method:" + method)
    ctx.count(f"cellsize:{cs}")
    impl = canon_idx(out, n)
    shape_ok = tuple(out.shape) == (nrowc, ncolc)
    D, (upa,) = scaled(upa_np)
    eff = (upscale.map_effare(flw.idxs_ds, shape, cs, mv=flw._mv) == 1)
    desc = {"op": "ucat_outlets", **W["env"], "cellsize": cs, "method": method,
            "uparea": ints(upa_np) if user else None}
    args = {"ds": ds, "upa": upa, "effare": eff, "dmm": int(method == "dmm"), "subncol": shape[1],
            "cellsize": cs, "nrowc": nrowc, "ncolc": ncolc, "impl": impl}

    def judge(ans):
        a = ans[0]
        if "__err__" in a:
            return err(a)
        fs = []
        if not shape_ok:
            fs.append({"kind": "spec", "what": f"outlet raster shape {out.shape} != ceil(shape/cellsize) {(nrowc, ncolc)}"})
        if a["spec.in_cell"] != [1]:
            fs.append({"kind": "spec", "what": "an outlet pixel is not a valid pixel of its own coarse cell", "impl": impl})
        if method == "eam_plus" and a["spec.leaves"] != [1]:
            fs.append({"kind": "spec", "what": "eam_plus: the pixel downstream of an outlet pixel lies in the same coarse "
                                               "cell although the outlet is not a pit", "impl": impl})
        if impl != a["model.outs"]:
            fs.append({"kind": "model", "what": "ucat_outlets: implementation != Lean model", "impl": impl,
                       "model": a["model.outs"]})
        return fs

    ncoarse = nrowc * ncolc
    ctx.add(desc, [("c10.outlets", args)], judge, nontrivial=W["nontriv"] and ncoarse >= 2)
    return impl


# ----------------------------------------------------------------------------------------
# ucat_area / ucat_volume
# ----------------------------------------------------------------------------------------
def case_area(ctx, W, outs, nt, kernel, area_fixed=None):
    from pyflwdir import subgrid
    rng, flw, ds, n, seq, res = ctx.rng, W["flw"], W["ds"], W["n"], W["seq"], W["res"]
    o_np = outs_np(outs, n, flw, rng)
    if kernel:
        adt = rng.choice([np.float32, np.float64, np.int32])
        area_np = np.array(area_fixed or [rng.randint(0, 9) for _ in range(n)], dtype=adt)
        m, are = subgrid.ucat_area(o_np.ravel(), flw.idxs_ds, flw.idxs_seq, area_np, mv=flw._mv)
        desc = {"op": "subgrid.ucat_area", **W["env"], "outlets": outs, "area": ints(area_np), "area_dtype": np.dtype(adt).name}
        shape_ok = True
    else:
        big = abs(res[0]) >= 1000
        unit = rng.choice(["cell", "m2", "ha", "km2"] if big else ["cell", "m2"])
        ctx.count("area-unit:" + unit)
        m, are = flw.ucat_area(o_np, unit=unit.upper() if rng.random() < 0.1 else unit)
        a1 = abs(res[0] * res[1])
        fac = {"cell": None, "m2": 1, "ha": 10**4, "km2": 10**6}[unit]
        area_np = np.ones(n, dtype=np.int64) if unit == "cell" else np.full(n, Fraction(a1, fac))
        desc = {"op": "ucat_area", **W["env"], "outlets": outs, "unit": unit}
        shape_ok = m.shape == tuple(W["shape"]) and are.shape == o_np.shape
    D, (area,) = scaled(area_np)
    assert D == 1
    impl_map = ints(m)
    impl_are = [Fraction(float(x)) for x in np.asarray(are).ravel().tolist()]
    # the property's sum clause evaluated directly on the implementation's output
    # (entries that are the last one of their pixel; an earlier duplicate reports the pixel's own area)
    tot_are = sum(impl_are[k] for k, o in enumerate(outs) if o != n and o not in outs[k + 1:])
    tot_cells = sum(area[i] for i in range(n) if impl_map[i] != 0)

    def judge(ans):
        a = ans[0]
        if "__err__" in a:
            return err(a)
        fs = []
        if a["topo"] != [1]:
            fs.append({"kind": "spec", "what": "cell order handed to the sweep is not downstream-first (C03 hypothesis)"})
        if not shape_ok:
            fs.append({"kind": "spec", "what": "output shapes differ from (raster shape, idxs_out shape)"})
        if impl_map != a["spec.map"]:
            bad = [i for i in range(n) if impl_map[i] != a["spec.map"][i]][:5]
            fs.append({"kind": "spec", "what": f"unit catchment label differs from first-outlet walk at cells {bad}",
                       "impl": impl_map, "spec": a["spec.map"]})
        if impl_are != [Fraction(x) for x in a["spec.are"]]:
            fs.append({"kind": "spec", "what": "catchment area differs from the sum of cell areas over the cells carrying the label",
                       "impl": [str(x) for x in impl_are], "spec": a["spec.are"]})
        if tot_are != tot_cells:
            fs.append({"kind": "spec", "what": f"areas add up to {tot_are}, labelled cells to {tot_cells}"})
        if impl_map != a["model.map"] or impl_are != [Fraction(x) for x in a["model.are"]]:
            fs.append({"kind": "model", "what": "ucat_area: implementation != Lean model", "impl_map": impl_map,
                       "impl_are": [str(x) for x in impl_are], "model_map": a["model.map"], "model_are": a["model.are"]})
        return fs

    ctx.add(desc, [("c10.ucat_area", {"ds": ds, "seq": seq, "outs": outs, "area": area})], judge, nontrivial=nt)


def case_volume(ctx, W, outs, nt):
    from pyflwdir import subgrid
    rng, flw, ds, n, seq, res, shape = ctx.rng, W["flw"], W["ds"], W["n"], W["seq"], W["res"], W["shape"]
    o_np = outs_np(outs, n, flw, rng)
    hdt = rng.choice([np.float32, np.float64])
    # HAND field: the property quantifies over the field as handed in.  `FlwdirRaster.hand()` on a raw (not
    # hydrologically conditioned) DEM yields cells BELOW their drain (negative values) and exact zeros on the
    # drain itself, so both signs and zeros are generated; all values stay multiples of 1/4 (exact in float32).
    hfam = rng.choice(["nonneg", "signed", "signed", "raw-dem", "raw-dem", "below-drain"])
    if hfam == "nonneg":
        hl = [Fraction(rng.randint(0, 14), 4) for _ in range(n)]
    elif hfam == "signed":
        hl = [Fraction(rng.choice([0, 0, rng.randint(-14, 14)]), 4) for _ in range(n)]
    elif hfam == "below-drain":  # (almost) every cell at or below drain level: max(0, .) never clips
        hl = [Fraction(-rng.randint(0, 14), 4) if rng.random() < 0.9 else Fraction(rng.randint(0, 14), 4) for _ in range(n)]
    else:
        # elevation minus the elevation of the first drain cell on the downstream path (0 if there is none),
        # for a raw random elevation (depressions: cells below their drain) and a random / outlet-pixel drain
        el = [rng.randint(0, 14) for _ in range(n)]
        pd = rng.choice([0.15, 0.4])
        drain = [ds[i] != n and (ds[i] == i or i in outs or rng.random() < pd) for i in range(n)]
        hl = []
        for i in range(n):
            j, k = i, 0
            while ds[i] != n and not drain[j] and ds[j] != j and k <= n:
                j, k = ds[j], k + 1
            hl.append(Fraction(el[i] - el[j], 4) if ds[i] != n and drain[j] else Fraction(0))
    ctx.count("volume-hand:" + hfam)
    lab = [i for i in range(n) if ds[i] != n]
    ctx.count("volume-hand-negative-cells:" + ("yes" if any(hl[i] < 0 for i in lab) else "no"))
    ctx.count("volume-hand-zero-cells:" + ("yes" if any(hl[i] == 0 for i in lab) else "no"))
    hand_np = np.array([float(h) for h in hl], dtype=hdt)
    kind = rng.choice(["default", "f32", "f64"])
    if kind == "default":
        depths = np.arange(0.5, 3.0, 0.5, dtype=np.float32)
    else:
        dl = rng.sample([0.0, 0.25, 0.5, 1.0, 1.75, 2.5, 3.0], rng.randint(1, 4))
        order = rng.choice(["ascending", "ascending", "descending", "unordered"])
        if order == "ascending":
            dl = sorted(dl)
        elif order == "descending":
            dl = sorted(dl, reverse=True)
        ctx.count("volume-depths:" + order)
        depths = np.array(dl, dtype=np.float32 if kind == "f32" else np.float64)
    kernel = abs(res[0]) >= 1000 or rng.random() < 0.4   # large cell areas would leave float32's exact range
    if kernel:
        area_np = np.array([rng.randint(0, 9) for _ in range(n)], dtype=rng.choice([np.float32, np.float64]))
        m, vol = subgrid.ucat_volume(o_np.ravel(), flw.idxs_ds, flw.idxs_seq, hand_np, area_np, depths=depths, mv=flw._mv)
        desc = {"op": "subgrid.ucat_volume", **W["env"], "outlets": outs, "area": ints(area_np)}
    else:
        area_np = np.full(n, abs(res[0] * res[1]), dtype=np.int64)
        if kind == "default":
            m, vol = flw.ucat_volume(o_np, hand_np.reshape(shape))
        else:
            m, vol = flw.ucat_volume(o_np, hand_np.reshape(shape), depths=depths)
        desc = {"op": "ucat_volume", **W["env"], "outlets": outs}
        if vol.shape != (depths.size, *o_np.shape):
            ctx.fail(desc, "spec", f"volume shape {vol.shape}")
    Dh, (hand, dep) = scaled(hand_np, depths)
    _, (area,) = scaled(area_np)
    desc.update({"hand_x%d" % Dh: hand, "depths_x%d" % Dh: dep})
    impl_map = ints(m)
    nout = len(outs)
    impl_vol = [Fraction(float(x)) for x in np.asarray(vol).ravel().tolist()]
    miss = [outs[k % nout] == n for k in range(len(impl_vol))]

    # the property's sum clause evaluated directly on the implementation's output, per depth row: the entries
    # that are the last one of their pixel add up to sum(area * max(0, depth - hand)) over the labelled cells
    last = [k for k, o in enumerate(outs) if o != n and o not in outs[k + 1:]]
    dep_q = [Fraction(float(x)) for x in np.asarray(depths).ravel().tolist()]
    tot_bad = []
    for r, dq in enumerate(dep_q):
        tot_vol = sum(impl_vol[r * nout + k] for k in last)
        tot_cells = sum(area[i] * max(Fraction(0), dq - hl[i]) for i in range(n) if impl_map[i] != 0)
        if tot_vol != tot_cells:
            tot_bad.append((str(dq), str(tot_vol), str(tot_cells)))

    def norm(v):  # model values are scaled by Dh, except the untouched -9999 of missing outlets
        return [Fraction(x) if miss[k] else Fraction(x, Dh) for k, x in enumerate(v)]

    def judge(ans):
        a = ans[0]
        if "__err__" in a:
            return err(a)
        fs = []
        if impl_map != a["spec.map"]:
            fs.append({"kind": "spec", "what": "ucat_volume: label differs from first-outlet walk", "impl": impl_map, "spec": a["spec.map"]})
        if impl_vol != norm(a["spec.vol"]):
            fs.append({"kind": "spec", "what": "flood volume differs from the sum of area*max(0,depth-hand) over the labelled cells",
                       "impl": [str(x) for x in impl_vol], "spec": [str(x) for x in norm(a["spec.vol"])]})
        if tot_bad:
            fs.append({"kind": "spec", "what": "flood volumes do not add up to the total over the labelled cells "
                       f"(depth, sum of volumes, sum over cells): {tot_bad[:3]}"})
        if impl_map != a["model.map"] or impl_vol != norm(a["model.vol"]):
            fs.append({"kind": "model", "what": "ucat_volume: implementation != Lean model",
                       "impl": [str(x) for x in impl_vol], "model": [str(x) for x in norm(a["model.vol"])]})
        return fs

    ctx.add(desc, [("c10.ucat_volume", {"ds": ds, "seq": seq, "outs": outs, "area": area, "hand": hand, "depths": dep})],
            judge, nontrivial=nt)


# ----------------------------------------------------------------------------------------
# river segments
# ----------------------------------------------------------------------------------------
def gen_mask(ctx, W):
    rng, flw, n = ctx.rng, W["flw"], W["n"]
    u = rng.random()
    if u < 0.4:
        ctx.count("mask:none")
        return None
    if u < 0.75:
        upa = flw.upstream_area().ravel()
        thr = rng.choice([2, 2, 3, 4, 6])
        ctx.count("mask:uparea")
        return (upa >= thr).reshape(W["shape"])
    ctx.count("mask:random")
    return np.array([rng.random() < 0.7 for _ in range(n)]).reshape(W["shape"])


def direction_nxt(ctx, W):
    flw, n = W["flw"], W["n"]
    d = ctx.rng.choice(["up", "down"])
    ctx.count("direction:" + d)
    nxt = canon_idx(flw.idxs_ds if d == "down" else flw.idxs_us_main, n)
    return d, nxt


def outs_arg(ctx, W, outs):
    """(argument passed to the wrapper, list the model gets)"""
    n = W["n"]
    if outs == list(range(n)) and ctx.rng.random() < 0.6:
        ctx.count("idxs_out=None" + ("(raster with nodata)" if len(W["valid"]) < n else ""))
        return None, outs
    return outs_np(outs, n, W["flw"], ctx.rng), outs


def case_rivlen(ctx, W, outs, nt, unit=None):
    rng, flw, n = ctx.rng, W["flw"], W["n"]
    d, nxt = direction_nxt(ctx, W)
    mask = gen_mask(ctx, W)
    unit = unit or ("m" if (W["fam"] == "dem" and rng.random() < 0.6) else "cell")
    o_np, outs = outs_arg(ctx, W, outs)
    riv = flw.subgrid_rivlen(o_np, mask=mask, direction=d.upper() if rng.random() < 0.1 else d, unit=unit)
    dist_np = flw.distnc if unit == "m" else flw.stream_distance(unit="cell")
    D, (dist,) = scaled(dist_np)
    impl = [Fraction(float(x)) for x in np.asarray(riv).ravel().tolist()]
    desc = {"op": "subgrid_rivlen", **W["env"], "outlets": outs, "direction": d, "unit": unit,
            "mask": None if mask is None else ints(mask)}
    if o_np is not None and riv.shape != o_np.shape:
        ctx.fail(desc, "spec", f"rivlen shape {riv.shape}")

    def val(a, p):
        return [Fraction(v, D) if ok else Fraction(-9999) for v, ok in zip(a[p + ".val"], a[p + ".ok"])]

    def judge(ans):
        a = ans[0]
        if "__err__" in a:
            return err(a)
        fs = []
        if impl != val(a, "spec"):
            fs.append({"kind": "spec", "what": "river length differs from |dist(end) - dist(outlet)| with end = next outlet pixel "
                       "(or last admissible cell) in the chosen direction", "impl": [str(x) for x in impl],
                       "spec": [str(x) for x in val(a, "spec")]})
        if impl != val(a, "model"):
            fs.append({"kind": "model", "what": "subgrid_rivlen: implementation != Lean model", "impl": [str(x) for x in impl],
                       "model": [str(x) for x in val(a, "model")]})
        return fs

    ctx.add(desc, [("c10.seg_length", {"nxt": nxt, "outs": outs, "distnc": dist,
                                       "mask": None if mask is None else mask})], judge, nontrivial=nt)


def gen_data(ctx, W, nodata):
    rng, n = ctx.rng, W["n"]
    ddt = rng.choice([np.float32, np.float64])
    p_nd = rng.choice([0.0, 0.15, 0.5])
    vals = [nodata if rng.random() < p_nd else rng.randint(-8, 40) / rng.choice([1, 1, 2, 4]) for _ in range(n)]
    return np.array(vals, dtype=ddt).reshape(W["shape"])


def case_rivavg(ctx, W, outs, nt, median):
    rng, flw, n = ctx.rng, W["flw"], W["n"]
    d, nxt = direction_nxt(ctx, W)
    mask = gen_mask(ctx, W)
    nodata = rng.choice([-9999.0, -9999.0, -1.0])
    data_np = gen_data(ctx, W, nodata)
    o_np, outs = outs_arg(ctx, W, outs)
    kw = {} if nodata == -9999.0 and rng.random() < 0.5 else {"nodata": nodata}
    nan_nd = (not median) and rng.random() < 0.25
    data_call = data_np
    if nan_nd:   # NaN as the nodata value: the same field with the empty cells holding NaN
        data_call = np.where(data_np == data_np.dtype.type(nodata), np.nan, data_np).astype(data_np.dtype)
        kw = {"nodata": float("nan")}
        ctx.count("rivavg:nodata=NaN")
    if median:
        out = flw.subgrid_rivmed(o_np, data_np, mask=mask, direction=d, **kw)
        w_np = None
    else:
        if rng.random() < 0.5:
            w_np = None
        else:  # raster-shaped (as documented) or flat weights, zeros allowed
            w_np = np.array([rng.choice([0, 0, 1, 2, 3, 0.5]) for _ in range(n)], dtype=rng.choice([np.float32, np.float64]))
            if rng.random() < 0.6:
                w_np = w_np.reshape(W["shape"])
        try:
            out = flw.subgrid_rivavg(o_np, data_call, weights=w_np, mask=mask, direction=d, **kw)
        except Exception as e:  # documented argument shapes must be accepted
            ctx.evaluations += 1
            ctx.fail({"op": "subgrid_rivavg", **W["env"], "outlets": outs, "direction": d,
                      "weights_shape": None if w_np is None else list(w_np.shape)}, "spec",
                     f"subgrid_rivavg raised {type(e).__name__}: {e}")
            return
        ctx.count("weights:" + ("none" if w_np is None else "2d" if w_np.ndim == 2 else "1d"))
    Dd, (data, (nd,)) = scaled(data_np, [nodata])
    ddt = data_np.dtype
    impl = [(float(ddt.type(nodata)) if (nan_nd and x != x) else float(x)) for x in np.asarray(out).ravel().tolist()]
    desc = {"op": "subgrid_rivmed" if median else "subgrid_rivavg", **W["env"], "outlets": outs, "direction": d,
            "mask": None if mask is None else ints(mask), "nodata": nodata, "nodata_is_nan": nan_nd, "data_x%d" % Dd: data,
            "data_dtype": ddt.name}
    if out.dtype != ddt:
        ctx.fail(desc, "spec", f"result dtype {out.dtype} != data dtype {ddt}")
    args = {"nxt": nxt, "outs": outs, "data": data, "nodata": nd, "mask": None if mask is None else mask}
    if median:
        def val(a, p):
            r = []
            for m2, ok in zip(a[p + ".m2"], a[p + ".ok"]):
                r.append(float(ddt.type(nodata)) if ok == 0 else float("nan") if ok == 2 else float(round_to(Fraction(m2, 2 * Dd), ddt)))
            return r
        op = "c10.seg_median"
    else:
        Dw, (wts,) = scaled(np.ones(n) if w_np is None else w_np)
        args["weights"] = wts
        desc["weights_x%d" % Dw] = None if w_np is None else wts

        def val(a, p):
            r = []
            for num, den, ok in zip(a[p + ".num"], a[p + ".den"], a[p + ".ok"]):
                # v / w is one correctly rounded float64 division of exact operands, then stored in data's dtype
                r.append(float(ddt.type(nodata)) if ok == 0 else float(ddt.type(float(Fraction(num, den * Dd)))))
            return r
        op = "c10.seg_average"

    def judge(ans):
        a = ans[0]
        if "__err__" in a:
            return err(a)
        fs = []
        name = "median" if median else "weighted mean"
        s, m = val(a, "spec"), val(a, "model")
        if not all(same_float(x, y) for x, y in zip(impl, s)) or len(impl) != len(s):
            fs.append({"kind": "spec", "what": f"segment {name} differs from the {name} over the cells from the outlet pixel up to "
                       "(excluding) the next outlet pixel in the chosen direction", "impl": [repr(x) for x in impl],
                       "spec": [repr(x) for x in s]})
        if not all(same_float(x, y) for x, y in zip(impl, m)) or len(impl) != len(m):
            fs.append({"kind": "model", "what": f"{desc['op']}: implementation != Lean model", "impl": [repr(x) for x in impl],
                       "model": [repr(x) for x in m]})
        return fs

    ctx.add(desc, [(op, args)], judge, nontrivial=nt)



def den_check(a, method):
    """third round: `slope_den_pos` - on strictly monotone distances along the segment the model's / spec's
    denominator is > 0 (least squares; Lagrange's identity) resp. != 0 (mean); the hypothesis (distances
    strictly monotone along the cells of the declarative segment) is evaluated by the driver on every case"""
    fs = []
    mono = a.get("spec.mono")
    if mono is None:
        return [{"kind": "model", "what": "driver did not report spec.mono (hypothesis of slope_den_pos)"}]
    for k, (ok, mo) in enumerate(zip(a["spec.ok"], mono)):
        if ok == 0:
            continue
        if mo != 1:
            fs.append({"kind": "spec", "what": "distances along the cells of the segment are not strictly monotone "
                       "(hypothesis of slope_den_pos; distnc is the implementation's own stream distance)", "outlet": k})
            continue
        for p in ("spec", "model"):
            den = a[p + ".den"][k]
            if (method == "lstsq" and den <= 0) or den == 0:
                fs.append({"kind": "model", "what": f"{p}: slope denominator {den} on strictly monotone distances "
                           "(contradicts slope_den_pos)", "outlet": k})
    return fs

def case_rivslp_both(ctx, W, outs, nt):
    """subgrid_rivslp(direction='both') = fixed_length_slope around the outlet pixel"""
    from pyflwdir import subgrid
    rng, flw, n, res, ds = ctx.rng, W["flw"], W["n"], W["res"], W["ds"]
    method = rng.choice(["mean", "lstsq"])
    ctx.count("slope-both:" + method)
    edt = rng.choice([np.float32, np.float64])
    elev_np = np.array([rng.randint(0, 60) / rng.choice([1, 1, 2]) for _ in range(n)], dtype=edt).reshape(W["shape"])
    o_np, outs = outs_arg(ctx, W, outs)
    mask = gen_mask(ctx, W)
    wrapper = W["fam"] == "dem" and abs(res[0]) < 1000
    try:
        if wrapper:
            length = rng.choice([2, 5, 8, 10, 15, 24, 1000])
            kw = {} if length == 1000 and rng.random() < 0.5 else {"length": length}
            out = flw.subgrid_rivslp(o_np, elev_np, direction="both", method=method, mask=mask, **kw)
            dist_np = flw.distnc.ravel()
            opname = "subgrid_rivslp(both)"
        else:
            length = rng.choice([1, 2, 3, 4, 6, 9])
            dist_np = flw.stream_distance(unit="cell").ravel().astype(rng.choice([np.float32, np.float64]))
            arr = np.arange(n, dtype=np.intp) if o_np is None else o_np.ravel()
            out = subgrid.fixed_length_slope(arr, flw.idxs_ds, flw.idxs_us_main, elev_np.ravel(), dist_np, length=length,
                                             mask=None if mask is None else mask.ravel(), lstsq=method == "lstsq", mv=flw._mv)
            opname = "subgrid.fixed_length_slope"
    except Exception as e:  # outlet pixels outside the network and masks are in the documented domain
        ctx.evaluations += 1
        ctx.fail({"op": "subgrid_rivslp(both)", **W["env"], "outlets": outs, "method": method,
                  "mask": None if mask is None else ints(mask)}, "spec",
                 f"slope around the outlet pixel raised {type(e).__name__}: {e}")
        return
    De, (elev,) = scaled(elev_np)
    Dx, (dist, (half,)) = scaled(dist_np, [Fraction(length, 2)])
    impl = [float(x) for x in np.asarray(out).ravel().tolist()]
    desc = {"op": opname, **W["env"], "outlets": outs, "length": length, "method": method,
            "mask": None if mask is None else ints(mask), "elevtn_x%d" % De: elev, "elev_dtype": np.dtype(edt).name}
    qt = np.result_type(edt, dist_np.dtype)
    if out.dtype != np.float32:
        ctx.fail(desc, "model", f"fixed_length_slope dtype {out.dtype}")

    def val(a, p):
        r = []
        for num, den, ok in zip(a[p + ".num"], a[p + ".den"], a[p + ".ok"]):
            if ok == 0:
                r.append(-9999.0)
            elif den == 0:
                r.append(None)
            else:
                q = abs(Fraction(num * Dx, den * De))
                r.append(float(np.float32(float(q))) if method == "lstsq" else float(np.float32(round_to(q, qt))))
        return r

    def judge(ans):
        a = ans[0]
        if "__err__" in a:
            return err(a)
        fs = den_check(a, method)
        s, m = val(a, "spec"), val(a, "model")
        if len(impl) != len(s) or not all(y is None or same_float(x, y) for x, y in zip(impl, s)):
            fs.append({"kind": "spec", "what": "slope around the outlet pixel differs from the slope over the cells within half the "
                       "length down- and (main-)upstream of it", "impl": [repr(x) for x in impl], "spec": [repr(x) for x in s]})
        if len(impl) != len(m) or not all(y is None or same_float(x, y) for x, y in zip(impl, m)):
            fs.append({"kind": "model", "what": f"{opname}: implementation != Lean model", "impl": [repr(x) for x in impl],
                       "model": [repr(x) for x in m]})
        return fs

    ctx.add(desc, [("c10.fixed_length_slope", {"ds": ds, "usmain": canon_idx(flw.idxs_us_main, n), "outs": outs,
                                               "elevtn": elev, "distnc": dist, "half": half,
                                               "lstsq": int(method == "lstsq"),
                                               "mask": None if mask is None else mask})], judge, nontrivial=nt)


def case_rivslp(ctx, W, outs, nt):
    from pyflwdir import subgrid
    rng, flw, n, res = ctx.rng, W["flw"], W["n"], W["res"]
    if rng.random() < 0.3:
        return case_rivslp_both(ctx, W, outs, nt)
    d, nxt = direction_nxt(ctx, W)
    mask = gen_mask(ctx, W)
    method = rng.choice(["mean", "lstsq"])
    ctx.count("slope:" + method)
    edt = rng.choice([np.float32, np.float64])
    elev_np = np.array([rng.randint(0, 60) / rng.choice([1, 1, 2]) for _ in range(n)], dtype=edt).reshape(W["shape"])
    o_np, outs = outs_arg(ctx, W, outs)
    wrapper = W["fam"] == "dem" and abs(res[0]) < 1000   # squares of large / irrational distances are not exact
    if wrapper:
        out = flw.subgrid_rivslp(o_np, elev_np, direction=d, method=method, mask=mask)
        dist_np = flw.distnc.ravel()
        opname = "subgrid_rivslp"
    else:
        dist_np = flw.stream_distance(unit="cell").ravel().astype(rng.choice([np.float32, np.float64]))
        arr = np.arange(n, dtype=np.intp) if o_np is None else o_np.ravel()
        out = subgrid.segment_slope(arr, flw.idxs_ds if d == "down" else flw.idxs_us_main, elev_np.ravel(), dist_np,
                                    mask=None if mask is None else mask.ravel(), lstsq=method == "lstsq", mv=flw._mv)
        opname = "subgrid.segment_slope"
    De, (elev,) = scaled(elev_np)
    Dx, (dist,) = scaled(dist_np)
    impl = [float(x) for x in np.asarray(out).ravel().tolist()]
    desc = {"op": opname, **W["env"], "outlets": outs, "direction": d, "method": method,
            "mask": None if mask is None else ints(mask), "elevtn_x%d" % De: elev, "elev_dtype": np.dtype(edt).name}
    qt = np.result_type(edt, dist_np.dtype)

    def val(a, p):
        r = []
        for num, den, ok in zip(a[p + ".num"], a[p + ".den"], a[p + ".ok"]):
            if ok == 0:
                r.append(float(edt(-9999.0)))
            elif den == 0:
                r.append(None)
            else:
                q = abs(Fraction(num * Dx, den * De))
                # lstsq: float64 division stored in elevtn's dtype; mean: division in the operands' common dtype
                r.append(float(edt(float(q))) if method == "lstsq" else float(edt(round_to(q, qt))))
        return r

    def judge(ans):
        a = ans[0]
        if "__err__" in a:
            return err(a)
        fs = den_check(a, method)
        s, m = val(a, "spec"), val(a, "model")
        if len(impl) != len(s) or not all(y is None or same_float(x, y) for x, y in zip(impl, s)):
            fs.append({"kind": "spec", "what": "segment slope differs from the slope over the cells from the outlet pixel up to "
                       "(excluding) the next outlet pixel in the chosen direction", "impl": [repr(x) for x in impl],
                       "spec": [repr(x) for x in s]})
        if len(impl) != len(m) or not all(y is None or same_float(x, y) for x, y in zip(impl, m)):
            fs.append({"kind": "model", "what": f"{opname}: implementation != Lean model", "impl": [repr(x) for x in impl],
                       "model": [repr(x) for x in m]})
        return fs

    ctx.add(desc, [("c10.seg_slope", {"nxt": nxt, "outs": outs, "elevtn": elev, "distnc": dist,
                                      "lstsq": int(method == "lstsq"),
                                      "mask": None if mask is None else mask})], judge, nontrivial=nt)
