"""C20 - nearest-source spreading (gis_utils.spread2d) and region_dissolve (regions.py).

Correspondence: the real kernels are run in-process on exact-arithmetic inputs (Pythagorean cell
sizes, dyadic friction) so that every float the implementation produces is an exact rational.
 * model (eq): src / dst / out of spread2d and the relabelled raster of region_dissolve equal the
   Lean model, cell for cell.
 * spec: dst equals the least walk cost computed in Lean by exhaustive relaxation (independent of
   the heap algorithm); the proven-sound certificate `spreadCert` is evaluated on the
   implementation's (src, dst, out) for every case (this is what fixes src/out where ties leave a
   choice); unreached and disallowed cells are unchanged; row latitudes of geographic grids are
   observed (spy on degree_metres_x/y) and compared with north + (r + 1/2) * transform[4].
Geographic grids: the metres-per-degree functions are transcendental, so they are *parameters*: the
harness substitutes an exact, hemisphere-asymmetric table function for gis_utils.degree_metres_x/y
(the kernel still decides at which latitudes it evaluates them and how it combines the results),
records the latitudes the implementation asked for and passes latitude -> value to the model.
"""
import heapq
import math
from fractions import Fraction

import numpy as np
from affine import Affine

from common import gen_shape, ints, exc_class

OPS = ["spread2d(projected)", "spread2d(latlon)", "spread2d(defaults)", "region_dissolve(labels)",
       "region_dissolve(idxs)", "region_dissolve(errors)"]
RULE = ("rasters <= 56 cells (quick) / <= 225 (thorough); observations: 0..6 sources (int32/int64/uint8/float32, "
        "nodata 0/-9999/255), masks: none, random obstacles, walls with a gap, sources inside obstacles; friction none or "
        "in {1/2,1,2,3} (float32/float64); cell sizes from Pythagorean pairs with either sign of xres and yres, default "
        "transform on one-row/one-column rasters; geographic grids on both hemispheres with an exact table in place of "
        "degree_metres_x/y; scale families: in ~45 % of the cases the cell sizes (projected: transform, geographic: the "
        "metres-per-degree table) and/or the whole friction field are multiplied by one power of two 2**-24..2**20 (every float "
        "operation stays exact), spread2d is run on the unscaled twin too: dst must scale exactly; dissolve: Voronoi label rasters with background, 1..K-1 labels dissolved by label or by location. "
        "non-trivial = >= 2 sources or >= 1 obstacle (spread), >= 2 surviving regions (dissolve); distinct = SHA-1 of all inputs. "
        "geographic grids with the library's REAL metres-per-degree functions (nothing substituted; spread2d, <= 56 cells, "
        "cells 1/8 .. 5 degrees, north-up and south-up, either sign of xres, both hemispheres): polar caps whose outer row "
        "touches +-90, caps ending 1/2 .. 3 cells before the pole, rows at 60..90, anywhere, across the equator; sources "
        "on the most polar row in half of the cases; the step lengths handed to the Lean least-walk-cost specification "
        "come from the harness' own evaluation (math module) of the documented WGS84 series at north + (r+1/2)*transform[4]; "
        "dst is compared within 2e-5 relative (float32 accumulation), src must be an allowed observation attaining the "
        "least cost within that tolerance")

PYTH = [(3, 4), (4, 3), (0.75, 1), (1.5, 2), (6, 8), (5, 12), (8, 15), (2, 1.5), (12, 5), (1, 0.75)]
TRIPLES = [(3, 4), (4, 3), (5, 12), (12, 5), (8, 15), (15, 8), (6, 8), (20, 21)]
FRICTION = [0.5, 1.0, 2.0, 3.0]
OBS_DT = [np.int32, np.int64, np.uint8, np.float32]
SCALE_LO, SCALE_HI = -24, 20   # exponents of the power-of-two scale families


def gen_exp(rng):
    """exponent k of a scale 2**k: the ends of the range, or anything in between (never 0)"""
    u = rng.random()
    if u < 0.3:
        return SCALE_LO if rng.random() < 0.7 else SCALE_HI
    while True:
        k = rng.randint(SCALE_LO, SCALE_HI)
        if k != 0:
            return k


def gen_scales(rng, geo_kind):
    """(exponent of the cell-size scale, exponent of the friction scale); multiplying by a power of two is exact in
    binary floating point (no overflow / underflow here: |exponent| <= 48 in total), so a scaled case is the same
    exact-arithmetic case at another magnitude of the step costs. Default transform: only friction can be scaled."""
    u = rng.random()
    if u < 0.55:
        return 0, 0
    if geo_kind == "default" or u < 0.70:
        return 0, gen_exp(rng)
    if u < 0.85:
        return gen_exp(rng), 0
    return gen_exp(rng), gen_exp(rng)


def bucket(k):
    if k == 0:
        return "1"
    a = abs(k)
    return ("2^-" if k < 0 else "2^+") + ("1..7" if a <= 7 else "8..15" if a <= 15 else "16..24" if a <= 24 else "25..48")


def frac(x):
    return Fraction(float(x))


def rat_args(name, vals):
    fs = [frac(v) for v in np.asarray(vals, dtype=np.float64).ravel().tolist()]
    return {name + ".n": [f.numerator for f in fs], name + ".d": [f.denominator for f in fs]}


def rats_out(ans, name):
    return [Fraction(n, d) for n, d in zip(ans[name + ".n"], ans[name + ".d"])]


# ------------------------------------------------------------------------------------------
# geometry
# ------------------------------------------------------------------------------------------
class Geo:
    """transform + latlon flag; for latlon an exact stand-in for degree_metres_x/y that records
    the latitudes it is evaluated at"""

    def __init__(self, rng, shape, kind):
        self.kind = kind
        self.latlon = kind == "latlon"
        self.seen = {}
        self.cexp = 0        # cell sizes are multiplied by 2**cexp (set_scale)
        self.mscale = 1.0    # geographic grids: factor on the metres-per-degree table
        nrow, ncol = shape
        if kind == "default":
            self.transform = None
            self.xres, self.t4, self.north = 1.0, -1.0, 0.0
        elif kind == "projected":
            dx, dy = rng.choice(PYTH)
            self.xres = dx * rng.choice([1, 1, 1, -1])
            self.t4 = dy * rng.choice([-1, -1, 1])
            self.north = float(rng.randint(-50, 50))
        else:
            self.xres = rng.choice([0.25, 0.5, 1.0, 2.0]) * rng.choice([1, 1, 1, -1])
            self.t4 = rng.choice([0.25, 0.5, 1.0, 2.0, 4.0]) * rng.choice([-1, -1, 1])
            hemi = rng.choice(["north", "south", "cross"])
            span = nrow * abs(self.t4)
            if hemi == "north":
                lo = rng.randint(0, 40)
                self.north = float(lo + span) if self.t4 < 0 else float(lo)
            elif hemi == "south":
                hi = -rng.randint(0, 40)
                self.north = float(hi) if self.t4 < 0 else float(hi - span)
            else:
                k = rng.randint(0, nrow) * abs(self.t4)
                self.north = float(k) if self.t4 < 0 else float(-k)
            self.hemi = hemi
            self.salt = rng.randint(0, 1000)
        self.xres0, self.t40 = self.xres, self.t4
        if kind != "default":
            self.west = float(rng.randint(-20, 20))
            self.transform = Affine(self.xres, 0.0, self.west, 0.0, self.t4, self.north)

    def set_scale(self, k):
        """cell sizes times 2**k. projected: xres and transform[4]; geographic: the cell stays the same in degrees (row
        latitudes unchanged) and the metres-per-degree table is scaled; default transform: not scalable"""
        assert self.kind != "default" or k == 0
        self.cexp = k
        self.seen = {}
        if self.kind == "projected":
            self.xres, self.t4 = self.xres0 * 2.0 ** k, self.t40 * 2.0 ** k
            self.transform = Affine(self.xres, 0.0, self.west, 0.0, self.t4, self.north)
        elif self.kind == "latlon":
            self.mscale = 2.0 ** k

    # exact table functions of the latitude (not symmetric in lat on purpose)
    def _key(self, lat):
        return int(np.floor(float(lat) * 8)) + self.salt

    def _mxy(self, lat):
        k = self._key(lat)
        a, b = TRIPLES[k % len(TRIPLES)]
        s = 1 + (k // len(TRIPLES)) % 3
        return a * s * self.mscale / abs(self.xres), b * s * self.mscale / abs(self.t4)

    def stub_x(self, lat):
        lat = np.asarray(lat, dtype=np.float64)
        out = np.array([self._mxy(v)[0] for v in lat.ravel()]).reshape(lat.shape)
        for v, o in zip(lat.ravel().tolist(), out.ravel().tolist()):
            self.seen.setdefault(v, [None, None])[0] = o
        return out

    def stub_y(self, lat):
        lat = np.asarray(lat, dtype=np.float64)
        out = np.array([self._mxy(v)[1] for v in lat.ravel()]).reshape(lat.shape)
        for v, o in zip(lat.ravel().tolist(), out.ravel().tolist()):
            self.seen.setdefault(v, [None, None])[1] = o
        return out

    def call(self, fn, *args, **kw):
        """run fn with the geometry keyword arguments (and the table functions installed)"""
        from pyflwdir import gis_utils
        if self.kind != "default":
            kw = dict(kw, transform=self.transform, latlon=self.latlon)
        if not self.latlon:
            return fn(*args, **kw)
        ox, oy = gis_utils.degree_metres_x, gis_utils.degree_metres_y
        gis_utils.degree_metres_x, gis_utils.degree_metres_y = self.stub_x, self.stub_y
        try:
            return fn(*args, **kw)
        finally:
            gis_utils.degree_metres_x, gis_utils.degree_metres_y = ox, oy

    def expected_lats(self, nrow):
        return [frac(self.north) + (Fraction(2 * r + 1, 2)) * frac(self.t4) for r in range(nrow)]

    def driver_args(self, shape):
        a = {"nrow": shape[0], "ncol": shape[1], "latlon": int(self.latlon)}
        a.update(rat_args("xres", [self.xres]))
        a.update(rat_args("t4", [self.t4]))
        a.update(rat_args("north", [self.north]))
        if self.latlon:
            lats = sorted(self.seen)
            mx = [self.seen[v][0] if self.seen[v][0] is not None else self._mxy(v)[0] for v in lats]
            my = [self.seen[v][1] if self.seen[v][1] is not None else self._mxy(v)[1] for v in lats]
            dg = [float(np.hypot(y * abs(self.t4), x * self.xres)) for x, y in zip(mx, my)]
            a.update(rat_args("tab.lat", lats))
            a.update(rat_args("tab.mx", mx))
            a.update(rat_args("tab.my", my))
            a.update(rat_args("tab.dg", dg))
        else:
            a.update(rat_args("dg", [float(np.hypot(abs(self.t4), self.xres))]))
        return a

    def desc(self):
        d = {"geo": self.kind, "xres": self.xres, "transform[4]": self.t4, "north": self.north}
        if self.cexp:
            d["cell_scale"] = f"2**{self.cexp}" + (" (on the degree_metres table)" if self.latlon else " (in xres, transform[4])")
        if self.latlon:
            d["degree_metres_table(lat:[x,y])"] = {str(k): v for k, v in sorted(self.seen.items())}
        return d

    def lat_failures(self, nrow, ans):
        """spec failures about the row latitudes of a geographic grid"""
        if not self.latlon:
            return []
        exp = self.expected_lats(nrow)
        got_x = sorted(frac(v) for v, o in self.seen.items() if o[0] is not None)
        got_y = sorted(frac(v) for v, o in self.seen.items() if o[1] is not None)
        fs = []
        if got_x != sorted(exp) or got_y != sorted(exp):
            fs.append({"kind": "spec", "what": "row latitudes handed to degree_metres_x/y are not north + (r+1/2)*transform[4]",
                       "expected": [float(x) for x in exp], "got_x": [float(x) for x in got_x],
                       "got_y": [float(x) for x in got_y]})
        if "__err__" not in ans and rats_out(ans, "model.lats") != exp:
            fs.append({"kind": "model", "what": "model row latitudes differ from the harness' own"})
        return fs


def gen_geo(rng, shape):
    u = rng.random()
    if (shape[0] == 1 or shape[1] == 1) and u < 0.5:
        return Geo(rng, shape, "default")
    if u < 0.6:
        return Geo(rng, shape, "projected")
    return Geo(rng, shape, "latlon")


# ------------------------------------------------------------------------------------------
# masks, friction
# ------------------------------------------------------------------------------------------
def gen_mask(rng, shape):
    nrow, ncol = shape
    n = nrow * ncol
    u = rng.random()
    if u < 0.3:
        return None, "none"
    if u < 0.65:
        p = rng.choice([0.1, 0.2, 0.35, 0.5])
        m = np.array([rng.random() >= p for _ in range(n)]).reshape(shape)
        return m, "random"
    m = np.ones(shape, dtype=bool)
    # one or two walls with a gap
    for _ in range(rng.randint(1, 2)):
        if rng.random() < 0.5 and nrow >= 3:
            r = rng.randint(1, nrow - 2)
            m[r, :] = False
            if rng.random() < 0.8:
                m[r, rng.randint(0, ncol - 1)] = True
        elif ncol >= 3:
            c = rng.randint(1, ncol - 2)
            m[:, c] = False
            if rng.random() < 0.8:
                m[rng.randint(0, nrow - 1), c] = True
    return m, "wall"


def gen_frc(rng, shape):
    n = shape[0] * shape[1]
    u = rng.random()
    if u < 0.3:
        return None, "none"
    dt = rng.choice([np.float32, np.float64])
    if u < 0.7:
        f = [rng.choice(FRICTION) for _ in range(n)]
        return np.array(f, dtype=dt).reshape(shape), "random"
    # two zones
    f = np.full(shape, rng.choice(FRICTION), dtype=dt)
    if rng.random() < 0.5:
        f[: shape[0] // 2 + 1, :] = rng.choice(FRICTION)
    else:
        f[:, : shape[1] // 2 + 1] = rng.choice(FRICTION)
    return f, "zones"


def scale_frc(rng, shape, frc, fk, k):
    """whole friction field times 2**k (no friction = uniform 1 -> uniform 2**k)"""
    if k == 0:
        return frc, fk
    if frc is None:
        frc, fk = np.ones(shape, dtype=rng.choice([np.float32, np.float64])), "uniform"
    out = frc * frc.dtype.type(2.0 ** k)
    assert out.dtype == frc.dtype and np.array_equal(out.astype(np.float64), frc.astype(np.float64) * 2.0 ** k)
    return out, fk


def common_args(geo, shape, msk, frc):
    a = geo.driver_args(shape)
    if msk is not None:
        a["msk"] = ints(msk)
    if frc is not None:
        a.update(rat_args("frc", frc))
    return a


# ------------------------------------------------------------------------------------------
# spread2d
# ------------------------------------------------------------------------------------------
def case_spread(ctx, max_cells):
    rng = ctx.rng
    shape = gen_shape(rng, max_cells=max_cells, max_side=9 if ctx.tier == "quick" else 15)
    nrow, ncol = shape
    n = nrow * ncol
    geo = gen_geo(rng, shape)
    msk, mk = gen_mask(rng, shape)
    frc, fk = gen_frc(rng, shape)
    cexp, fexp = gen_scales(rng, geo.kind)
    dt = rng.choice(OBS_DT)
    nodata = rng.choice([0, 0, 0, -9999, 255, 7])
    if dt == np.uint8 and nodata < 0:
        nodata = 255
    u = rng.random()
    nsrc = 0 if u < 0.04 else (n if u < 0.07 else rng.randint(1, min(6, n)))
    cells = rng.sample(range(n), nsrc)
    obs = np.full(n, nodata, dtype=dt)
    vals = [v for v in range(1, 40) if v != nodata]
    same = rng.random() < 0.2
    v0 = rng.choice(vals)
    for i in cells:
        obs[i] = v0 if same else rng.choice(vals)
    obs = obs.reshape(shape)
    if msk is not None and cells and rng.random() < 0.5:
        # make sure at least one source is allowed (otherwise nothing spreads)
        msk[np.unravel_index(cells[0], shape)] = True
    from pyflwdir import gis_utils
    kw = {}
    if msk is not None:
        kw["msk"] = msk
    if frc is not None:
        kw["frc"] = frc
    if nodata != 0 or rng.random() < 0.5:
        kw["nodata"] = nodata
    obs_in = obs.copy()
    twin = None
    try:
        if cexp or fexp:
            # scale family: first the unscaled twin, then the same case with cell sizes * 2**cexp, friction * 2**fexp
            twin = geo.call(gis_utils.spread2d, obs, **kw)
            geo.set_scale(cexp)
            frc, fk = scale_frc(rng, shape, frc, fk, fexp)
            if frc is not None:
                kw["frc"] = frc
        out, src, dst = geo.call(gis_utils.spread2d, obs, **kw)
    except Exception as e:  # valid input: any exception is a failure of the property at this input
        ctx.evaluations += 1
        ctx.fail({"op": "spread2d", "shape": list(shape), "obs": ints(obs_in), "nodata": int(nodata),
                  "msk": None if msk is None else ints(msk), "frc": None if frc is None else [float(x) for x in frc.ravel()],
                  **geo.desc()}, "spec", f"spread2d raised {exc_class(e)}: {e} on a valid input")
        return
    pure = np.array_equal(obs, obs_in)
    dtypes_ok = out.dtype == obs.dtype and src.dtype == np.int32 and dst.dtype == np.float32

    allowed = np.ones(n, dtype=bool) if msk is None else msk.ravel()
    n_allowed_src = int(sum(1 for i in cells if allowed[i]))
    obstacles = int((~allowed).sum())
    nontriv = n >= 2 and (n_allowed_src >= 2 or (obstacles >= 1 and n_allowed_src >= 1))
    ctx.count("spread:geo:" + geo.kind)
    ctx.count("spread:mask:" + mk)
    ctx.count("spread:frc:" + fk)
    ctx.count("spread:sources:" + str(min(n_allowed_src, 4)) + ("+" if n_allowed_src >= 4 else ""))
    if any(not allowed[i] for i in cells):
        ctx.count("spread:source-in-obstacle")
    if geo.latlon:
        ctx.count("spread:hemisphere:" + geo.hemi)
    if geo.kind != "default" and abs(geo.xres) != abs(geo.t4):
        ctx.count("spread:non-square-cells")
    if geo.kind != "default" and geo.xres < 0:
        ctx.count("spread:negative-xres")
    if geo.kind != "default" and geo.t4 > 0:
        ctx.count("spread:south-up")
    ctx.count("spread:scale:cells:" + bucket(cexp))
    ctx.count("spread:scale:friction:" + bucket(fexp))
    ctx.count("spread:scale:step-costs:" + bucket(cexp + fexp))
    if nontriv and (obstacles or fk in ("random", "zones")):
        ctx.count("spread:scale:step-costs:" + bucket(cexp + fexp) + ":with-obstacles-or-varying-friction")

    i_src = ints(src)
    i_out = ints(out)
    i_dst = [frac(x) for x in dst.ravel().tolist()]
    i_obs = ints(obs_in)
    args = common_args(geo, shape, msk, frc)
    args.update({"obs": i_obs, "nodata": int(nodata), "impl.src": i_src, "impl.out": i_out})
    args.update(rat_args("impl.dst", dst))
    desc = {"op": "spread2d", "shape": list(shape), "obs": i_obs, "obs_dtype": np.dtype(dt).name, "nodata": int(nodata),
            "msk": None if msk is None else ints(msk), "frc": None if frc is None else [float(x) for x in frc.ravel()],
            "frc_dtype": None if frc is None else frc.dtype.name, **geo.desc()}
    if fexp:
        desc["frc_scale"] = f"2**{fexp}"
    if twin is not None:
        factor = Fraction(2) ** (cexp + fexp)
        t_dst = [frac(x) * factor for x in twin[2].ravel().tolist()]
        t_src, t_out = ints(twin[1]), ints(twin[0])

    def judge(ans):
        a = ans[0]
        fs = geo.lat_failures(nrow, a)
        if "__err__" in a:
            if a["__err__"].startswith("domain:row-latitude"):
                return fs or [{"kind": "spec", "what": "implementation evaluated degree_metres at other latitudes than the model"}]
            return fs + [{"kind": "model", "what": "driver error " + a["__err__"]}]
        # (default transform: hypot(1, 1) is irrational, but on one-row / one-column rasters no diagonal step exists)
        if (a["geom"] != [1] and geo.kind != "default") or a["positive"] != [1]:
            raise RuntimeError("harness generated an inconsistent geometry / non-positive cost: " + repr(desc))
        if a["cert.model"] != [1]:
            fs.append({"kind": "model", "what": "Lean model output rejected by spreadCert"})
        m_dst = rats_out(a, "model.dst")
        s_dst = rats_out(a, "spec.dst")
        reach = a["spec.reach"]
        # --- spec: least cost, unchanged cells, certificate
        bad = [i for i in range(n) if reach[i] and (i_src[i] < 0 or i_dst[i] != s_dst[i])]
        if bad:
            i = bad[0]
            fs.append({"kind": "spec", "what": f"distance is not the least walk cost at cells {bad[:5]}: "
                       f"cell {i} got {float(i_dst[i])} (src {i_src[i]}), least cost {float(s_dst[i])}",
                       "impl.dst": [float(x) for x in i_dst], "spec.dst": [float(x) for x in s_dst]})
        for i in range(n):
            if reach[i]:
                continue
            exp_src = i if (i_obs[i] != nodata) else -1
            if i_src[i] != exp_src or i_dst[i] != 0 or i_out[i] != i_obs[i]:
                fs.append({"kind": "spec", "what": f"unreachable/disallowed cell {i} was changed: src {i_src[i]} dst {float(i_dst[i])} "
                           f"out {i_out[i]} (obs {i_obs[i]})"})
                break
        for i in range(n):
            if reach[i] and i_src[i] >= 0:
                s = i_src[i]
                if s >= n or i_obs[s] == nodata or i_out[i] != i_obs[s]:
                    fs.append({"kind": "spec", "what": f"cell {i}: src {s} is not an observation cell or out {i_out[i]} is not its value"})
                    break
        if a["cert.impl"] != [1]:
            fs.append({"kind": "spec", "what": "spreadCert rejects the implementation's (src, dst, out): origin/value not "
                       "inherited along a tight predecessor chain, or a step is infeasible", "impl.src": i_src,
                       "impl.dst": [float(x) for x in i_dst], "impl.out": i_out})
        if not pure:
            fs.append({"kind": "spec", "what": "input observation raster was modified"})
        if not dtypes_ok:
            fs.append({"kind": "spec", "what": f"dtypes out/src/dst = {out.dtype}/{src.dtype}/{dst.dtype}"})
        # --- scale family: least costs are homogeneous in the step costs and a power-of-two factor is exact in every
        # float operation, so dst of the scaled case is exactly factor * dst of the unscaled twin (one of the two is not
        # the least cost otherwise); src/out may only differ where equally near observations leave a choice
        if twin is not None:
            if t_dst != i_dst:
                bad = [i for i in range(n) if t_dst[i] != i_dst[i]]
                i = bad[0]
                fs.append({"kind": "spec", "what": f"distances do not scale with the step costs (cells * 2**{cexp}, friction * "
                           f"2**{fexp}) at cells {bad[:5]}: cell {i} got {float(i_dst[i])}, unscaled twin {float(twin[2].ravel()[i])} "
                           f"* 2**{cexp + fexp} = {float(t_dst[i])}", "impl.dst": [float(x) for x in i_dst],
                           "twin.dst*factor": [float(x) for x in t_dst]})
            elif t_src != i_src or t_out != i_out:
                if a["cert.impl"] == [1] and not any(f["kind"] == "spec" for f in fs):
                    ctx.count("spread:scale:tie-broken-differently-from-unscaled-twin")
                else:
                    fs.append({"kind": "spec", "what": "src/out differ from the unscaled twin and are not certified",
                               "impl.src": i_src, "twin.src": t_src, "impl.out": i_out, "twin.out": t_out})
            else:
                ctx.count("spread:scale:identical-to-unscaled-twin")
        # --- model: cell for cell
        if i_dst != m_dst:
            fs.append({"kind": "model", "what": "spread2d dst: implementation != Lean model",
                       "impl": [float(x) for x in i_dst], "model": [float(x) for x in m_dst]})
        # src / out: the property leaves the choice between equally near observations free (`sat`): a difference
        # from the model is a mismatch only if the certificate does not accept the implementation's choice
        if i_src != a["model.src"] or i_out != a["model.out"]:
            if a["cert.impl"] == [1] and not any(f["kind"] == "spec" for f in fs):
                ctx.count("spread:tie-broken-differently-from-model")
            else:
                fs.append({"kind": "model", "what": "spread2d src/out: implementation != Lean model", "impl.src": i_src,
                           "model.src": a["model.src"], "impl.out": i_out, "model.out": a["model.out"]})
        else:
            ctx.count("spread:src-out-equal-to-model")
        return fs

    ctx.add(desc, [("spread2d", args)], judge, nontrivial=nontriv)


# ------------------------------------------------------------------------------------------
# region_dissolve
# ------------------------------------------------------------------------------------------
def gen_regions(rng, shape):
    """connected label regions 1..K (nearest seed in the chessboard metric) with some background 0"""
    nrow, ncol = shape
    n = nrow * ncol
    K = rng.randint(2, min(6, n))
    seeds = rng.sample(range(n), K)
    reg = np.zeros(n, dtype=np.int64)
    for i in range(n):
        r, c = divmod(i, ncol)
        best = min(range(K), key=lambda k: (max(abs(r - seeds[k] // ncol), abs(c - seeds[k] % ncol)), k))
        reg[i] = best + 1
    if rng.random() < 0.5:
        for i in range(n):
            if i not in seeds and rng.random() < 0.12:
                reg[i] = 0
    # arbitrary positive label values
    if rng.random() < 0.5:
        names = rng.sample(range(1, 60), K)
        reg = np.array([0 if v == 0 else names[v - 1] for v in reg.tolist()], dtype=np.int64)
    return reg.reshape(shape), K


def _all_reachable(regions, labels, msk):
    """every cell of a dissolved region can be reached from an allowed surviving cell through allowed cells"""
    nrow, ncol = regions.shape
    seen = np.zeros(regions.shape, dtype=bool)
    todo = [(r, c) for r in range(nrow) for c in range(ncol)
            if msk[r, c] and regions[r, c] != 0 and int(regions[r, c]) not in labels]
    for rc in todo:
        seen[rc] = True
    while todo:
        r, c = todo.pop()
        for dr in (-1, 0, 1):
            for dc in (-1, 0, 1):
                r1, c1 = r + dr, c + dc
                if 0 <= r1 < nrow and 0 <= c1 < ncol and msk[r1, c1] and not seen[r1, c1]:
                    seen[r1, c1] = True
                    todo.append((r1, c1))
    return all(seen[r, c] for r in range(nrow) for c in range(ncol) if int(regions[r, c]) in labels)


def case_dissolve(ctx, max_cells):
    rng = ctx.rng
    from pyflwdir import regions as R
    while True:
        shape = gen_shape(rng, max_cells=max_cells, max_side=9 if ctx.tier == "quick" else 13)
        if shape[0] * shape[1] >= 3:
            break
    nrow, ncol = shape
    n = nrow * ncol
    geo = gen_geo(rng, shape)
    dt = rng.choice([np.int32, np.int64, np.uint32])
    regions, K = gen_regions(rng, shape)
    regions = regions.astype(dt)
    present = sorted(set(regions.ravel().tolist()) - {0})
    if len(present) < 2:
        ctx.count("dissolve:skipped-one-region")
        return
    k = rng.randint(1, len(present) - 1)
    labels = rng.sample(present, k)
    frc, fk = gen_frc(rng, shape) if rng.random() < 0.5 else (None, "none")
    cexp, fexp = gen_scales(rng, geo.kind)
    geo.set_scale(cexp)
    frc, fk = scale_frc(rng, shape, frc, fk, fexp)
    # optional mask (keyword passed through to spread2d): only obstacles inside surviving regions
    # and background, so that every cell of a dissolved region is allowed
    msk = None
    if rng.random() < 0.3:
        m = np.ones(n, dtype=bool)
        flat = regions.ravel()
        for i in range(n):
            if int(flat[i]) not in labels and rng.random() < 0.3:
                m[i] = False
        msk = m.reshape(shape)
        if not _all_reachable(regions, labels, msk):
            # a dissolved region that cannot be reached from any surviving region has no nearest region
            # (the property is silent; the code relabels it 0): outside the domain of the check
            ctx.count("dissolve:mask-dropped-unreachable")
            msk = None
    mode = rng.choice(["labels", "labels", "idxs"])
    kw = {}
    if frc is not None:
        kw["frc"] = frc
    if msk is not None:
        kw["msk"] = msk
    idxs = None
    if mode == "idxs":
        flat = regions.ravel()
        idxs = [rng.choice([i for i in range(n) if int(flat[i]) == lab]) for lab in labels]
        kw["idxs"] = np.array(idxs, dtype=np.int64)
    else:
        kw["labels"] = np.array(labels, dtype=dt) if rng.random() < 0.7 else [int(x) for x in labels]
        if len(labels) == 1 and rng.random() < 0.3:
            kw["labels"] = int(labels[0])
    reg_in = regions.copy()
    try:
        res = geo.call(R.region_dissolve, regions, **kw)
    except Exception as e:  # valid input: any exception is a failure of the property at this input
        ctx.evaluations += 1
        ctx.fail({"op": "region_dissolve", "shape": list(shape), "regions": ints(reg_in), "labels": [int(x) for x in labels],
                  "idxs": idxs, "msk": None if msk is None else ints(msk),
                  "frc": None if frc is None else [float(x) for x in frc.ravel()], **geo.desc()},
                 "spec", f"region_dissolve raised {exc_class(e)}: {e} on a valid input")
        return
    pure = np.array_equal(regions, reg_in)
    survivors = len(present) - len(labels)
    ctx.count("dissolve:mode:" + mode)
    ctx.count("dissolve:geo:" + geo.kind)
    ctx.count("dissolve:frc:" + fk)
    ctx.count("dissolve:mask:" + ("yes" if msk is not None else "none"))
    ctx.count("dissolve:survivors:" + str(min(survivors, 3)) + ("+" if survivors >= 3 else ""))
    ctx.count("dissolve:scale:step-costs:" + bucket(cexp + fexp))
    i_res = ints(res)
    i_reg = ints(reg_in)
    args = common_args(geo, shape, msk, frc)
    args.update({"regions": i_reg, "labels": [int(x) for x in labels], "impl.out": i_res})
    if idxs is not None:
        args["idxs"] = idxs
    desc = {"op": "region_dissolve", "shape": list(shape), "regions": i_reg, "dtype": np.dtype(dt).name,
            "labels": [int(x) for x in labels], "idxs": idxs, "msk": None if msk is None else ints(msk),
            "frc": None if frc is None else [float(x) for x in frc.ravel()], **geo.desc()}
    if fexp:
        desc["frc_scale"] = f"2**{fexp}"

    def judge(ans):
        a = ans[0]
        fs = geo.lat_failures(nrow, a)
        if "__err__" in a:
            if a["__err__"].startswith("domain:row-latitude"):
                return fs or [{"kind": "spec", "what": "implementation evaluated degree_metres at other latitudes than the model"}]
            return fs + [{"kind": "model", "what": "driver error " + a["__err__"]}]
        if a["labels_ok"] != [1]:
            raise RuntimeError("harness generated invalid labels")
        if a["specm.keep"] != [1] or a["specm.near"] != [1]:
            fs.append({"kind": "model", "what": "Lean model output rejected by the dissolve specification"})
        if a["spec.keep"] != [1]:
            bad = [i for i in range(n) if i_reg[i] not in labels and i_res[i] != i_reg[i]][:5]
            fs.append({"kind": "spec", "what": f"cells of regions that were not dissolved changed label: {bad}", "impl": i_res})
        if a["spec.near"] != [1]:
            fs.append({"kind": "spec", "what": "a dissolved region did not get (uniformly) the label of a nearest surviving region",
                       "impl": i_res, "model": a["model.out"]})
        if not pure:
            fs.append({"kind": "spec", "what": "input regions raster was modified"})
        # model comparison: exact, except that scipy's minimum_position breaks ties between equally near
        # cells of a region by an unstable sort (free under the property): there the implementation's label
        # must be one the model's spreading result offers at a cell of least distance
        ok = len(i_res) == n
        for j, lab in enumerate(labels):
            got = {i_res[i] for i in range(n) if i_reg[i] == lab} if ok else set()
            if len(got) != 1 or not got <= set(a[f"model.cand{j}"]):
                ok = False
        if ok:
            ok = all(i_res[i] == i_reg[i] for i in range(n) if i_reg[i] not in labels)
        if not ok:
            if a["spec.keep"] == [1] and a["spec.near"] == [1]:
                ctx.count("dissolve:tie-broken-differently-from-model")  # another nearest region: free under the property
            else:
                fs.append({"kind": "model", "what": "region_dissolve: implementation != Lean model (modulo ties of minimum_position)",
                           "impl": i_res, "model": a["model.out"]})
        if i_res == a["model.out"]:
            ctx.count("dissolve:equal-to-model-cell-for-cell")
        return fs

    ctx.add(desc, [("region_dissolve", args)], judge, nontrivial=survivors >= 2)


def case_dissolve_errors(ctx):
    rng = ctx.rng
    from pyflwdir import regions as R
    regions = np.array([[1, 1, 2], [3, 3, 2]], dtype=np.int32)
    bad = rng.choice(["neither", "both", "zero", "dup", "dup-idxs", "ndim"])
    ctx.count("dissolve:error:" + bad)
    try:
        if bad == "neither":
            R.region_dissolve(regions)
        elif bad == "both":
            R.region_dissolve(regions, labels=[1], idxs=np.array([0]))
        elif bad == "zero":
            R.region_dissolve(regions, labels=[0, 1])
        elif bad == "dup":
            R.region_dissolve(regions, labels=[1, 1])
        elif bad == "dup-idxs":
            R.region_dissolve(regions, idxs=np.array([0, 1]))
        else:
            R.region_dissolve(regions.ravel(), labels=[1])
        got = "returns"
    except Exception as e:
        got = exc_class(e)
    ctx.evaluations += 1
    if got != "ValueError":
        ctx.fail({"op": "region_dissolve", "regions": ints(regions), "bad": bad}, "spec",
                 f"invalid arguments ({bad}) must raise ValueError, got {got}")


# ------------------------------------------------------------------------------------------
# geographic grids with the real metres-per-degree functions: mid latitudes to pole-touching rows
# ------------------------------------------------------------------------------------------
REAL_TOL = Fraction(2, 10 ** 5)   # float32 storage of dst / of the heap key: <= 2**-24 relative per step, <= ~60 steps


def ref_degree_metres(lat):
    """(east-west, north-south) length in metres of one degree at latitude `lat`: the documented WGS84 series, typed in
    here and evaluated with the math module (independent of the source tree)"""
    r = math.radians(lat)
    x = 111412.84 * math.cos(r) - 93.5 * math.cos(3 * r) + 0.118 * math.cos(5 * r)
    y = 111132.92 - 559.82 * math.cos(2 * r) + 1.175 * math.cos(4 * r) - 0.0023 * math.cos(6 * r)
    return x, y


class RealGeo:
    """geographic transform (dyadic degrees: the row latitudes are exact); nothing of the library is substituted"""
    kind, latlon = "latlon", True

    def __init__(self, rng, shape):
        nrow, ncol = shape
        yres = rng.choice([0.125, 0.25, 0.5, 1.0, 2.0, 5.0])
        while yres * nrow > 90:
            yres /= 2
        self.xres = rng.choice([0.125, 0.25, 0.5, 1.0, 2.0, 5.0]) * rng.choice([1, 1, 1, -1])
        span = yres * nrow
        where = rng.choice(["pole", "pole", "pole", "near-pole", "near-pole", "high", "any", "equator"])
        if where == "pole":            # the outer edge of the outer row is the pole
            lo = 90 - span
        elif where == "near-pole":     # the cap ends half a cell .. three cells before the pole
            lo = max(0.0, 90 - span - yres * rng.choice([0.5, 1, 1, 2, 3]))
        elif where == "high":
            lo = min(90 - span, 60 + rng.randint(0, 240) / 8)
        elif where == "any":
            lo = rng.randint(0, int((90 - span) * 8)) / 8
        else:                          # across the equator
            lo = -yres * rng.randint(0, nrow)
        if rng.random() < 0.5 and where != "equator":
            lo = -(lo + span)          # the same rows on the southern hemisphere
        self.where = where
        if rng.random() < 0.7:
            self.t4, self.north = -yres, float(lo + span)    # north-up
        else:
            self.t4, self.north = yres, float(lo)            # south-up
        self.west = float(rng.randint(-180, 170))
        self.transform = Affine(self.xres, 0.0, self.west, 0.0, self.t4, self.north)
        self.lats = [float(frac(self.north) + Fraction(2 * r + 1, 2) * frac(self.t4)) for r in range(nrow)]
        assert all(-90 < v < 90 for v in self.lats) and min(self.lats) - yres / 2 >= -90 and max(self.lats) + yres / 2 <= 90
        ref = [ref_degree_metres(v) for v in self.lats]
        self.dx = [frac(x) * frac(abs(self.xres)) for x, _ in ref]      # exact products, as in the Lean specification
        self.dy = [frac(y) * frac(abs(self.t4)) for _, y in ref]
        self.dg = [frac(math.hypot(y * abs(self.t4), x * self.xres)) for x, y in ref]
        self.ref = ref

    def driver_args(self, shape):
        a = {"nrow": shape[0], "ncol": shape[1], "latlon": 1}
        a.update(rat_args("xres", [self.xres]))
        a.update(rat_args("t4", [self.t4]))
        a.update(rat_args("north", [self.north]))
        order = sorted(range(len(self.lats)), key=lambda r: self.lats[r])
        a.update(rat_args("tab.lat", [self.lats[r] for r in order]))
        a.update(rat_args("tab.mx", [self.ref[r][0] for r in order]))
        a.update(rat_args("tab.my", [self.ref[r][1] for r in order]))
        a.update(rat_args("tab.dg", [float(self.dg[r]) for r in order]))
        return a

    def desc(self):
        return {"geo": "latlon(real degree_metres_x/y)", "xres": self.xres, "transform[4]": self.t4, "north": self.north,
                "west": self.west, "row_latitudes": self.lats,
                "reference_degree_metres(lat:[x,y])": {str(v): list(xy) for v, xy in zip(self.lats, self.ref)}}

    def step(self, r, dr, dc):
        return self.dx[r] if dr == 0 else self.dy[r] if dc == 0 else self.dg[r]


def least_costs(geo, shape, allowed, frc, sources):
    """least walk cost (exact rationals; step length at the row of the cell stepped from, times its friction) from the
    cells `sources` to every cell through allowed cells; None = no walk"""
    nrow, ncol = shape
    D = [None] * (nrow * ncol)
    heap = []
    for s in sources:
        D[s] = Fraction(0)
        heapq.heappush(heap, (Fraction(0), s))
    while heap:
        d0, a = heapq.heappop(heap)
        if D[a] < d0:
            continue
        r, c = divmod(a, ncol)
        f = Fraction(1) if frc is None else frc[a]
        for dr in (-1, 0, 1):
            for dc in (-1, 0, 1):
                r1, c1 = r + dr, c + dc
                if (dr == 0 and dc == 0) or not (0 <= r1 < nrow and 0 <= c1 < ncol) or not allowed[r1 * ncol + c1]:
                    continue
                d = d0 + geo.step(r, dr, dc) * f
                b = r1 * ncol + c1
                if D[b] is None or d < D[b]:
                    D[b] = d
                    heapq.heappush(heap, (d, b))
    return D


def case_spread_real(ctx, max_cells):
    rng = ctx.rng
    from pyflwdir import gis_utils
    while True:
        shape = (rng.randint(2, 9), rng.randint(1, 9))
        if 2 <= shape[0] * shape[1] <= max_cells:
            break
    nrow, ncol = shape
    n = nrow * ncol
    geo = RealGeo(rng, shape)
    msk, mk = gen_mask(rng, shape)
    frc, fk = gen_frc(rng, shape)
    dt = rng.choice(OBS_DT)
    nodata = rng.choice([0, 0, 0, -9999, 255, 7])
    if dt == np.uint8 and nodata < 0:
        nodata = 255
    nsrc = rng.randint(1, min(4, n))
    cells = rng.sample(range(n), nsrc)
    polar_row = max(range(nrow), key=lambda r: abs(geo.lats[r]))
    if rng.random() < 0.5:             # an observation on the most polar row
        cells[0] = polar_row * ncol + rng.randrange(ncol)
        cells = sorted(set(cells))
    obs = np.full(n, nodata, dtype=dt)
    vals = [v for v in range(1, 40) if v != nodata]
    for i in cells:
        obs[i] = rng.choice(vals)
    obs = obs.reshape(shape)
    if msk is not None:
        msk[np.unravel_index(cells[0], shape)] = True
    kw = {"transform": geo.transform, "latlon": True}
    if msk is not None:
        kw["msk"] = msk
    if frc is not None:
        kw["frc"] = frc
    if nodata != 0 or rng.random() < 0.5:
        kw["nodata"] = nodata
    obs_in = obs.copy()
    i_obs = ints(obs_in)
    desc = {"op": "spread2d", "shape": list(shape), "obs": i_obs, "obs_dtype": np.dtype(dt).name, "nodata": int(nodata),
            "msk": None if msk is None else ints(msk), "frc": None if frc is None else [float(x) for x in frc.ravel()],
            "frc_dtype": None if frc is None else frc.dtype.name, **geo.desc()}
    try:
        out, src, dst = gis_utils.spread2d(obs, **kw)
    except Exception as e:  # valid input: any exception is a failure of the property at this input
        ctx.evaluations += 1
        ctx.fail(desc, "spec", f"spread2d raised {exc_class(e)}: {e} on a valid input")
        return
    pure = np.array_equal(obs, obs_in)
    allowed = [True] * n if msk is None else [bool(x) for x in msk.ravel()]
    srcs = [i for i in cells if allowed[i]]
    obstacles = n - sum(allowed)
    amax = max(abs(v) for v in geo.lats)
    ctx.count("spread:geo:latlon(real degree lengths)")
    ctx.count("feature:real-degree-lengths:" + geo.where)
    ctx.count("feature:real-degree-lengths:hemisphere:" + ("both" if min(geo.lats) < 0 < max(geo.lats) else
                                                            "north" if geo.lats[0] > 0 else "south"))
    for lim in (60, 80, 85, 88, 89.5):
        if amax > lim:
            ctx.count("feature:real-degree-lengths:row centre beyond %s deg" % lim)
    if amax + abs(geo.t4) / 2 == 90:
        ctx.count("feature:real-degree-lengths:outer row touches the pole")
    if amax > 85 and any(i // ncol == polar_row for i in srcs):
        ctx.count("feature:real-degree-lengths:observation on a row beyond 85 deg")
    if geo.t4 > 0:
        ctx.count("feature:real-degree-lengths:south-up")
    i_src, i_out = ints(src), ints(out)
    i_dst = [frac(x) for x in dst.ravel().tolist()]
    frc_q = None if frc is None else [frac(x) for x in frc.ravel().tolist()]
    D = least_costs(geo, shape, allowed, frc_q, srcs)
    Ds = {s: least_costs(geo, shape, allowed, frc_q, [s]) for s in set(i_src) if 0 <= s < n and s in srcs}
    args = common_args(geo, shape, msk, frc)
    args.update({"obs": i_obs, "nodata": int(nodata)})

    def judge(ans):
        a = ans[0]
        if "__err__" in a:
            return [{"kind": "model", "what": "driver error " + a["__err__"]}]
        if a["positive"] != [1]:
            raise RuntimeError("harness generated a non-positive step cost: " + repr(desc))
        fs = []
        s_dst, reach = rats_out(a, "spec.dst"), a["spec.reach"]
        if rats_out(a, "model.lats") != [frac(v) for v in geo.lats]:
            fs.append({"kind": "model", "what": "model row latitudes differ from the harness' own"})
        # the harness' own least costs and the Lean specification agree exactly (same exact step lengths)
        if [int(x is not None) for x in D] != reach or any(D[i] != s_dst[i] for i in range(n) if reach[i]):
            fs.append({"kind": "model", "what": "least walk cost: python oracle != Lean specification (real degree lengths)"})
            return fs
        bad = [i for i in range(n) if reach[i] and (i_src[i] < 0 or abs(i_dst[i] - s_dst[i]) > REAL_TOL * s_dst[i])]
        if bad:
            i = bad[0]
            fs.append({"kind": "spec", "what": f"geographic grid, row latitudes {geo.lats}: distance is not the least walk cost "
                       f"(step lengths from the reference series for the length of a degree) at cells {bad[:5]}: cell {i} got "
                       f"{float(i_dst[i])} (src {i_src[i]}), least cost {float(s_dst[i])}",
                       "impl.dst": [float(x) for x in i_dst], "spec.dst": [float(x) for x in s_dst]})
        for i in range(n):
            if reach[i]:
                s = i_src[i]
                if s not in Ds or i_out[i] != i_obs[s]:
                    fs.append({"kind": "spec", "what": f"cell {i}: src {s} is not an allowed observation cell or out {i_out[i]} is not its value"})
                    break
                if Ds[s][i] is None or Ds[s][i] - s_dst[i] > REAL_TOL * s_dst[i]:
                    fs.append({"kind": "spec", "what": f"geographic grid, row latitudes {geo.lats}: cell {i}: observation {s} is not a "
                               f"nearest one: its least cost is {None if Ds[s][i] is None else float(Ds[s][i])}, the least cost over all "
                               f"observations {float(s_dst[i])}", "impl.src": i_src})
                    break
            else:
                exp_src = i if (i_obs[i] != nodata) else -1
                if i_src[i] != exp_src or i_dst[i] != 0 or i_out[i] != i_obs[i]:
                    fs.append({"kind": "spec", "what": f"unreachable/disallowed cell {i} was changed: src {i_src[i]} dst {float(i_dst[i])} "
                               f"out {i_out[i]} (obs {i_obs[i]})"})
                    break
        if not pure:
            fs.append({"kind": "spec", "what": "input observation raster was modified"})
        if not (out.dtype == obs.dtype and src.dtype == np.int32 and dst.dtype == np.float32):
            fs.append({"kind": "spec", "what": f"dtypes out/src/dst = {out.dtype}/{src.dtype}/{dst.dtype}"})
        return fs

    ctx.add(desc, [("spread2d", args)], judge, nontrivial=len(srcs) >= 2 or (obstacles >= 1 and len(srcs) >= 1))


def run(ctx):
    quick = ctx.tier == "quick"
    ncase = (700 if quick else 4000) * ctx.escalate
    max_cells = 56 if quick else 225
    for k in range(ncase):
        u = ctx.rng.random()
        if u < 0.62:
            case_spread(ctx, max_cells)
        elif u < 0.97:
            case_dissolve(ctx, min(max_cells, 120))
        else:
            case_dissolve_errors(ctx)
        if len(ctx.cases) >= 200:
            ctx.flush()
    # geographic grids with the real metres-per-degree functions, mid latitudes to pole-touching rows
    for k in range((80 if quick else 600) * ctx.escalate):
        case_spread_real(ctx, max_cells if quick else 100)
        if len(ctx.cases) >= 200:
            ctx.flush()
