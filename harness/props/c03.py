"""C03 - cell order, rank, loop detection, repair: correspondence of core.rank / core.idxs_seq /
core.loop_indices / Flwdir(.Raster).rank, isvalid, nnodes, order_cells('walk'|'sort'), idxs_seq,
repair_loops with the Lean models (model failures) and with the declarative specification: the rank
certificate and the complete-downstream-first-order certificate of Props/C03.lean evaluated on the
implementation's own output plus a fuel-bounded walk oracle (spec failures)."""
import itertools
import numpy as np
from common import (gen_funcgraph, gen_forest, mk_raster, mk_vector, canon_idx, ints, net_features,
                    ds_to_np, exc_class)

OPS = ["core.rank", "core.loop_indices", "core.idxs_seq", "core.pit_indices", "rank", "isvalid", "nnodes",
       "order_cells(walk)", "order_cells(sort)", "idxs_seq(default)", "repair_loops"]
RULE = ("arbitrary functional graphs (uniform random maps, single long cycles, trees hanging on cycles, stars with "
        ">= 130 inflows, chains, many pits, forests) on 2..40 cells (quick) / ..400 and 2000-cell chains (thorough), "
        "both classes (Flwdir, FlwdirRaster incl. 1xN / Nx1), index dtypes i32/i64/u32/u64, both order methods; "
        "exhaustive: every well-formed map with nodata on <= 4 cells (quick) / <= 5 (thorough). non-trivial = "
        ">= 2 valid cells and (>= 1 confluence or >= 1 cycle); distinct = SHA-1 of (network, class, shape)")
DTYPES = [np.int32, np.int64, np.uint32, np.uint64]


# ----------------------------------------------------------------------------------------
# generators
# ----------------------------------------------------------------------------------------
def relabel(rng, ds):
    """random relabelling of a network (n = missing)"""
    n = len(ds)
    perm = list(range(n))
    rng.shuffle(perm)
    out = [n] * n
    for i, d in enumerate(ds):
        out[perm[i]] = n if d == n else perm[d]
    return out


def gen_cycle_trees(rng, n, ncyc=None):
    """ncyc disjoint cycles (lengths >= 1; length 1 = pit) with random trees hanging on them"""
    ncyc = ncyc or rng.randint(1, 3)
    ds = [n] * n
    k = 0
    roots = []
    for _ in range(ncyc):
        if k >= n:
            break
        ln = rng.randint(1, max(1, min(n - k, rng.choice([1, 2, 3, 5, n // 2 + 1]))))
        cyc = list(range(k, k + ln))
        for a, b in zip(cyc, cyc[1:] + cyc[:1]):
            ds[a] = b
        roots += cyc
        k += ln
    nodata = rng.random() < 0.3
    for i in range(k, n):
        if nodata and rng.random() < 0.15:
            continue
        ds[i] = rng.choice(roots)
        roots.append(i)
    return relabel(rng, ds)


def gen_long_cycle(rng, n):
    """one cycle through (almost) all cells, optionally a few tributaries and a pit elsewhere"""
    m = rng.randint(max(2, n - 3), n)
    ds = [n] * n
    for i in range(m):
        ds[i] = (i + 1) % m
    for i in range(m, n):
        ds[i] = rng.choice([i, rng.randrange(0, m), rng.randrange(0, i + 1)])
    return relabel(rng, ds)


def gen_star(rng, n, centre_kind):
    """n-1 cells draining straight into one cell; centre is a pit, on a 2-cycle, or drains to a pit"""
    ds = [0] * n
    if centre_kind == "pit":
        ds[0] = 0
    elif centre_kind == "cycle":
        ds[0] = 1
        ds[1] = 0
    else:
        ds[0] = 1
        ds[1] = 1
    return relabel(rng, ds) if rng.random() < 0.5 else ds


def gen_chain(rng, n, closed):
    ds = [max(i - 1, 0) for i in range(n)]
    if closed:
        ds[0] = rng.randrange(0, n)
    return relabel(rng, ds) if rng.random() < 0.7 else (ds if rng.random() < 0.5 else [n - 1 - d for d in reversed(ds)])


def gen_many_pits(rng, n):
    ds = gen_funcgraph(rng, n, p_nodata=0.05)
    for i in range(n):
        if ds[i] != n and rng.random() < 0.4:
            ds[i] = i
    return ds


def all_wf_maps(n):
    for t in itertools.product(range(n + 1), repeat=n):
        if all(d == n or t[d] != n for d in t):
            yield list(t)


def py_rank(ds):
    """trivial Python oracle: steps to the pit, -1 if none, -9999 off the network"""
    n = len(ds)
    out = []
    for i in range(n):
        if ds[i] == n:
            out.append(-9999)
            continue
        j, k = i, 0
        while ds[j] != j and k <= n:
            j = ds[j]
            k += 1
        out.append(k if ds[j] == j else -1)
    return out


def shapes_for(rng, n):
    opts = [(1, n), (n, 1)]
    for r in range(2, n):
        if n % r == 0:
            opts.append((r, n // r))
    return rng.choice(opts)


# ----------------------------------------------------------------------------------------
def run(ctx):
    rng = ctx.rng
    quick = ctx.tier == "quick"
    if ctx.replay:
        d = ctx.replay.get("failure", {}).get("desc") or ctx.replay.get("model_mismatches", [{}])[0].get("desc")
        if d:
            check_graph(ctx, d["ds"], d["cls"], d.get("shape"), np.dtype(d["dtype"]).type, d.get("ftype", "d8"), "replay")
            return
    # corpus of hand-made cases
    n0 = 135
    corpus = [
        ([0] * n0, "star-pit-134"),                               # F03: >= 128 inflows into a pit
        ([1, 0] + [0] * (n0 - 2), "star-cycle-133"),                # >= 128 inflows into a 2-cycle
        ([1, 1] + [0] * 258, "star-258"),                           # > 255 inflows (uint8 wrap)
        ([1, 2, 0, 3, 3, 6, 5, 7], "two-cycles-two-pits"),
        ([1, 2, 3, 4, 0, 0, 5, 5, 8], "5-cycle-with-tree-and-pit"),
        ([0, 0, 1, 1, 2, 2, 3, 3], "binary-tree"),
        ([2, 2, 2], "nodata-free-no-pit-star"),
        ([3, 3, 3], "all-nodata"),
        ([0, 2, 1], "pit-and-2cycle"),
    ]
    for ds, fam in corpus:
        for cls in ("vector", "raster"):
            for dt in (np.int32, np.uint32):
                shape = (1, len(ds)) if cls == "raster" else None
                check_graph(ctx, ds, cls, shape, dt, "d8", "corpus:" + fam)
    ctx.flush()
    # exhaustive tiny universes (validate model = code = spec; not the proof)
    nmax = 4 if quick else 5
    for n in range(1, nmax + 1):
        for ds in all_wf_maps(n):
            cls = "vector" if (sum(ds) + n) % 2 == 0 else "raster"
            shape = ((1, n) if sum(ds) % 3 else (n, 1)) if cls == "raster" else None
            check_graph(ctx, ds, cls, shape, np.int32, "d8", f"exhaustive-{n}")
        ctx.flush()
    ctx.exhaustive = True
    # random structured graphs
    ncase = (260 if quick else 6000) * ctx.escalate
    nhi = 40 if quick else 400
    for k in range(ncase):
        fam = rng.choice(["funcgraph", "funcgraph", "cycle-trees", "cycle-trees", "long-cycle", "star",
                          "chain", "many-pits", "forest"])
        n = rng.randint(2, nhi if rng.random() < 0.3 else min(nhi, 24))
        if fam == "funcgraph":
            ds = gen_funcgraph(rng, n, p_nodata=rng.choice([0.0, 0.1, 0.3]))
        elif fam == "cycle-trees":
            ds = gen_cycle_trees(rng, n)
        elif fam == "long-cycle":
            ds = gen_long_cycle(rng, n)
        elif fam == "star":
            n = rng.randint(130, 300) if rng.random() < 0.5 else n
            ds = gen_star(rng, max(n, 3), rng.choice(["pit", "cycle", "chain"]))
        elif fam == "chain":
            ds = gen_chain(rng, n, closed=rng.random() < 0.5)
        elif fam == "many-pits":
            ds = gen_many_pits(rng, n)
        else:
            ds = gen_forest(rng, n, fanin_bias=rng.choice([0.0, 0.5]))
        n = len(ds)
        cls = rng.choice(["vector", "raster"])
        shape = shapes_for(rng, n) if cls == "raster" else None
        dt = rng.choice(DTYPES)
        ftype = rng.choice(["d8", "d8", "ldd", "nextxy"])
        check_graph(ctx, ds, cls, shape, dt, ftype, fam)
        if len(ctx.cases) > 300:
            ctx.flush()
    # large networks: ranks beyond 2**15 and rank * size beyond 2**31 (any 16/32-bit intermediate in the ordering
    # overflows here and nowhere on small graphs). Chain towards lower indices (core.rank is linear on it) with
    # short side branches and a few cells outside the network.
    for _ in range(1 if quick else 3):
        L = rng.randint(46400, 52000)
        ds = [0] + list(range(L - 1))
        for _b in range(rng.randint(3, 30)):
            ds.append(rng.randint(0, len(ds) - 1))
        for _b in range(rng.randint(0, 5)):
            ds.append(len(ds) + 10 ** 9)   # placeholder for the missing value, fixed below
        n_ = len(ds)
        ds = [d if d < n_ else n_ for d in ds]
        check_large(ctx, ds, rng.choice([np.int32, np.int64, np.uint32]))
    if not quick:
        # O(n^2) stack membership test of core.rank: long chains, open and closed (time bound for C13)
        for closed in (False, True):
            ds = gen_chain(rng, 2000, closed)
            check_graph(ctx, ds, "vector", None, np.int32, "d8", "chain-2000")
        ctx.flush()


# ----------------------------------------------------------------------------------------
def check_large(ctx, ds, dt):
    """large loop-free network, linear-time oracles only (the declarative reading itself, evaluated in Python):
    rank = distance to the pit, both orders list every network cell exactly once and after its downstream cell"""
    n = len(ds)
    ctx.evaluations += 1
    ctx.count("family:large-chain")
    desc = {"op": "c03-large", "n": n, "dtype": np.dtype(dt).name,
            "ds": "chain i -> i-1 for i < L, then branches/missing: " + str(ds[-40:]), "L": next(i for i in range(1, n) if ds[i] != i - 1)}
    dist = [0] * n
    for i in range(1, n):          # ds[i] < i for every network cell of this family
        dist[i] = -9999 if ds[i] == n else dist[ds[i]] + 1
    valid = [i for i in range(n) if ds[i] != n]
    flw = mk_vector(ds, dt)
    rk = ints(flw.rank)
    if rk != dist:
        bad = [i for i in range(n) if rk[i] != dist[i]][:5]
        ctx.fail(desc, "spec", f"rank differs from the distance to the pit at cells {bad} (n={n})")
    for method in ("sort", "walk"):
        flw.order_cells(method)
        seq = canon_idx(flw.idxs_seq, n)
        pos = {}
        for k, c in enumerate(seq):
            pos.setdefault(c, k)
        if len(seq) != len(valid) or len(pos) != len(seq) or any(ds[c] == n for c in seq if c < n) or any(c >= n for c in seq):
            ctx.fail(desc, "spec", f"order_cells('{method}') does not list exactly the {len(valid)} network cells once (n={n}, listed {len(seq)}, distinct {len(pos)})")
            continue
        bad = [c for c in valid if ds[c] != c and pos[ds[c]] > pos[c]][:5]
        if bad:
            ctx.fail(desc, "spec", f"order_cells('{method}') lists cells {bad} before their downstream cell (n={n})")
    ctx.nontrivial.add("large:%d:%s" % (n, np.dtype(dt).name))


def check_graph(ctx, ds, cls, shape, dt, ftype, fam):
    from pyflwdir import core
    n = len(ds)
    ds = [int(d) for d in ds]
    pr = py_rank(ds)
    feat = net_features(ds)
    has_cycle = -1 in pr
    on_cycle = 0
    if has_cycle:  # cells on a cycle (not merely tributary)
        for i in range(n):
            if pr[i] == -1:
                j = ds[i]
                k = 0
                while j != i and k <= n:
                    j = ds[j]
                    k += 1
                on_cycle += j == i
    tributary_to_cycle = has_cycle and on_cycle < pr.count(-1)
    nontriv = feat["valid"] >= 2 and (feat["confluences"] >= 1 or has_cycle)
    ctx.count("family:" + fam.split(":")[0])
    ctx.count("class:" + cls)
    ctx.count("dtype:" + np.dtype(dt).name)
    ctx.count("cycle:" + ("none" if not has_cycle else ("with-tributaries" if tributary_to_cycle else "bare")))
    if has_cycle:
        ctx.count("cells-on-cycles:" + ("1-3" if on_cycle <= 3 else "4-9" if on_cycle <= 9 else ">=10"))
    ctx.count("max-inflow:" + ("<2" if feat["max_inflow"] < 2 else "2-7" if feat["max_inflow"] < 8 else
                               "8-127" if feat["max_inflow"] < 128 else ">=128"))
    ctx.count("pits:" + ("0" if feat["pits"] == 0 else "1" if feat["pits"] == 1 else ">=2"))
    desc = {"op": "c03", "ds": ds, "cls": cls, "shape": list(shape) if shape else None,
            "dtype": np.dtype(dt).name, "ftype": ftype}
    obs = {}  # everything observed on the implementation

    def mk():
        return mk_vector(ds, dt) if cls == "vector" else mk_raster(ds, shape, dt, ftype=ftype)

    # ---- kernel level (works for every graph, also without pits) ----
    dsn = ds_to_np(ds, dt)
    mv = dt(np.iinfo(dt).max) if dt in (np.uint32, np.uint64) else core._mv   # as Flwdir.__init__ does
    try:
        rk, nn = core.rank(dsn, mv)
        obs["core.rank"] = ints(rk)
        obs["core.n"] = int(nn)
        obs["core.loops"] = canon_idx(core.loop_indices(dsn, mv), n)
        pits = core.pit_indices(dsn)
        obs["core.pits"] = canon_idx(pits, n)
        # (a raster without a single cell is not a network: upstream_matrix has no row width there)
        obs["core.walk"] = canon_idx(core.idxs_seq(dsn, pits, mv), n) if feat["valid"] > 0 else []
        obs["input_intact"] = canon_idx(dsn, n) == ds
    except Exception as e:  # no exception is documented for these kernels
        ctx.evaluations += 1
        ctx.fail(desc, "spec", f"kernel raised {exc_class(e)}: {e}")
        return
    # ---- class level ----
    expect_ctor = n > 1 and feat["pits"] > 0
    try:
        flw = mk()
        ctor = True
    except ValueError:
        ctor = False
    ctx.count("ctor:" + ("ok" if ctor else "rejected"))
    if ctor != expect_ctor:
        ctx.evaluations += 1
        ctx.fail(desc, "model", f"constructor {'accepted' if ctor else 'rejected'} a network with {feat['pits']} pits, size {n}")
        return
    if ctor:
        try:
            obs["rank"] = ints(flw.rank)
            obs["rank_shape_ok"] = tuple(np.shape(flw.rank)) == (tuple(shape) if shape else (n,))
            obs["isvalid"] = bool(flw.isvalid)
            obs["nnodes"] = int(flw.nnodes)                      # via rank (no order computed yet)
            for method in ("walk", "sort"):
                f2 = mk()
                f2.order_cells(method)
                obs["seq." + method] = canon_idx(f2.idxs_seq, n)
                obs["nnodes." + method] = int(f2.nnodes)
            f3 = mk()
            obs["seq.default"] = canon_idx(f3.idxs_seq, n)
            obs["nnodes.default"] = int(f3.nnodes)
            f4 = mk()
            f4.repair_loops()
            obs["rep.ds"] = canon_idx(f4.idxs_ds, n)
            obs["rep.isvalid"] = bool(f4.isvalid)
            obs["rep.rank"] = ints(f4.rank)
            obs["rep.nnodes"] = int(f4.nnodes)
            obs["rep.pits"] = canon_idx(f4.idxs_pit, n)
            obs["rep.seq"] = canon_idx(f4.idxs_seq, n)
            f4.repair_loops()                                    # idempotent on a valid network
            obs["rep2.ds"] = canon_idx(f4.idxs_ds, n)
            # the same repair on an object whose count / rank / order were already evaluated
            f5 = mk()
            _ = (f5.nnodes, f5.rank, f5.idxs_seq, f5.isvalid)
            f5.repair_loops()
            got5 = (int(f5.nnodes), ints(f5.rank), sorted(canon_idx(f5.idxs_seq, n)), canon_idx(f5.idxs_pit, n), bool(f5.isvalid))
            want5 = (obs["rep.nnodes"], obs["rep.rank"], sorted(obs["rep.seq"]), obs["rep.pits"], obs["rep.isvalid"])
            ctx.evaluations += 1
            if got5 != want5:
                ctx.fail(desc, "spec", "repair_loops on an object whose node count / rank / order had been queried before "
                         "reports stale values (node count, rank, sequence, pits, isvalid)", got=list(got5), fresh=list(want5))
        except Exception as e:
            ctx.evaluations += 1
            ctx.fail(desc, "spec", f"{cls} method raised {exc_class(e)}: {e}", observed=obs)
            return
    reqs = [("c03_rank", {"ds": ds, "impl": obs["core.rank"]}),
            ("c03_loops", {"ds": ds}),
            ("c03_seq", {"ds": ds, "seq": obs["core.walk"]})]
    if ctor:
        reqs += [("c03_seq", {"ds": ds, "seq": obs["seq.walk"]}),
                 ("c03_seq", {"ds": ds, "seq": obs["seq.sort"]}),
                 ("c03_seq", {"ds": ds, "seq": obs["seq.default"]}),
                 ("c03_repair", {"ds": ds, "impl": obs["rep.ds"], "implrank": obs["rep.rank"]}),
                 ("c03_seq", {"ds": obs["rep.ds"], "seq": obs["rep.seq"]})]
    default_method = "sort" if (cls == "vector" or ftype == "nextxy") else "walk"

    def judge(ans):
        fs = []
        for a in ans:
            if "__err__" in a:
                return [{"kind": "model", "what": "driver error " + a["__err__"]}]

        def spec(what, **kw):
            fs.append({"kind": "spec", "what": what, **kw})

        def model(what, **kw):
            fs.append({"kind": "model", "what": what, **kw})

        a = ans[0]
        srank = a["spec.rank"]
        if srank != pr:
            model("Lean walk oracle differs from the Python walk oracle", lean=srank, py=pr)
        if a["wf"] != [1]:
            model("harness generated an ill-formed network")
        # rank
        r = obs["core.rank"]
        if a["cert.impl"] != [1]:
            spec("core.rank output violates the rank certificate (rank != steps to pit / -1 off loops)", impl=r, spec=srank)
        if r != srank:
            bad = [i for i in range(n) if r[i] != srank[i]][:5]
            spec(f"rank differs from the number of steps to the pit at cells {bad}", impl=r, spec=srank)
        if obs["core.n"] != a["spec.n"][0]:
            spec("core.rank count != number of cells draining to a pit", impl=obs["core.n"], spec=a["spec.n"][0])
        if r != a["model.rank"] or obs["core.n"] != a["model.n"][0]:
            model("core.rank: implementation != Lean model", impl=[r, obs["core.n"]], model=[a["model.rank"], a["model.n"]])
        if a["cert.model"] != [1]:
            model("the Lean model's rank violates the certificate")
        if not obs["input_intact"]:
            spec("kernels modified idxs_ds")
        # loops
        b = ans[1]
        if obs["core.loops"] != b["spec.loops"]:
            spec("loop_indices != cells that never reach a pit", impl=obs["core.loops"], spec=b["spec.loops"])
        if obs["core.loops"] != b["model.loops"]:
            model("loop_indices: implementation != Lean model", impl=obs["core.loops"], model=b["model.loops"])
        if obs["core.pits"] != [i for i in range(n) if ds[i] == i]:
            spec("pit_indices != fixed points", impl=obs["core.pits"])
        members = ans[2]["spec.members"]
        seqs = [("core.idxs_seq", "walk", ds, obs["core.walk"], ans[2], None)]
        if ctor:
            if obs["rank"] != srank or not obs["rank_shape_ok"]:
                spec(f"{cls}.rank differs from steps to pit", impl=obs["rank"], spec=srank)
            if obs["isvalid"] != (b["spec.isvalid"] == [1]):
                spec("isvalid is not equivalent to 'no cell fails to reach a pit'", impl=obs["isvalid"], loops=b["spec.loops"])
            if obs["isvalid"] != (b["model.isvalid"] == [1]):
                model("isvalid: implementation != Lean model")
            if obs["nnodes"] != b["spec.nnodes"][0]:
                spec("nnodes != number of cells draining to a pit", impl=obs["nnodes"], spec=b["spec.nnodes"][0])
            if obs["nnodes"] != b["model.nnodes"][0]:
                model("nnodes: implementation != Lean model")
            seqs += [(f"order_cells('walk')", "walk", ds, obs["seq.walk"], ans[3], obs["nnodes.walk"]),
                     (f"order_cells('sort')", "sort", ds, obs["seq.sort"], ans[4], obs["nnodes.sort"]),
                     (f"idxs_seq(default)", default_method, ds, obs["seq.default"], ans[5], obs["nnodes.default"])]
        for name, method, net, seq, s, nnodes in seqs:
            if s["topo"] != [1]:
                spec(f"{name}: a cell is listed before its downstream cell, twice, or out of range", seq=seq)
            if s["complete"] != [1] or sorted(seq) != s["spec.members"]:
                spec(f"{name}: sequence is not exactly the cells draining to a pit, once each", seq=seq, members=s["spec.members"])
            if nnodes is not None and nnodes != len(s["spec.members"]):
                spec(f"{name}: nnodes != number of cells draining to a pit", impl=nnodes)
            if method == "walk" and seq != s["model.walk"]:
                model(f"{name}: implementation != Lean model (breadth-first order)", impl=seq, model=s["model.walk"])
            if method == "sort" and (s["ranksorted"] != [1] or sorted(seq) != sorted(s["model.sort"])):
                model(f"{name}: not a rank-sorted arrangement of the model's cells", impl=seq, model=s["model.sort"])
            # (without a pit `argsort(rnk)[-0:]` is the whole array; the constructors reject such networks)
            if s["complete.walk"] != [1] or (s["complete.sort"] != [1] and any(net[i] == i for i in range(n))):
                model("the Lean model's own order is rejected by the certificate")
        if ctor:
            c = ans[6]
            rep, rrk = obs["rep.ds"], obs["rep.rank"]
            before = c["spec.rank_before"]
            if c["cert.after"] != [1] or c["wf.after"] != [1] or -1 in rrk or -1 in c["spec.rank_after"] or not obs["rep.isvalid"]:
                spec("repair_loops did not produce a valid network", after=rep, rank_after=rrk)
            if rrk != c["spec.rank_after"]:
                spec("rank after repair_loops is stale / wrong", impl=rrk, spec=c["spec.rank_after"])
            keep = [i for i in range(n) if before[i] >= 0]
            if any(rep[i] != ds[i] or rrk[i] != before[i] for i in keep):
                spec("repair_loops changed a link or the rank of a cell that drained to a pit", before=ds, after=rep)
            if any((rep[i] == n) != (ds[i] == n) for i in range(n)):
                spec("repair_loops changed the set of missing cells", before=ds, after=rep)
            if obs["rep.nnodes"] != sum(1 for d in ds if d != n):
                spec("nnodes after repair != number of cells", impl=obs["rep.nnodes"])
            if obs["rep.pits"] != [i for i in range(n) if rep[i] == i]:
                spec("idxs_pit after repair != fixed points", impl=obs["rep.pits"])
            if rep != c["model.ds"]:
                model("repair_loops: implementation != Lean model", impl=rep, model=c["model.ds"])
            if obs["rep2.ds"] != rep:
                spec("second repair_loops changed a valid network", first=rep, second=obs["rep2.ds"])
            s = ans[7]
            if s["topo"] != [1] or s["complete"] != [1] or len(obs["rep.seq"]) != sum(1 for d in ds if d != n):
                spec("idxs_seq after repair_loops is not a complete downstream-first order of all cells", seq=obs["rep.seq"])
        for f in fs:
            f["observed"] = obs
        return fs

    ctx.add(desc, reqs, judge, nontrivial=nontriv, key={"ds": ds, "cls": cls, "shape": desc["shape"]})
