"""C12 - history independence: random call histories on real Flwdir / FlwdirRaster objects; after
every step the query's result is compared with the same query on a freshly constructed object
holding the same network / transform / settings (and the same explicit cell order, if one was
requested since the last mutation). The `_cached` key set observed after every call is compared
with what the protocol table extracted from the source (tie 1) allows.

Configurations: raster and vector objects, cache on and off; vector objects with and without a non-uniform per-node
`area=` (the twin is built with the same area); rasters on projected grids and on geographic grids whose cell area
differs strongly from row to row (1-4 degree rows between 60 and 88 degrees N or S), at construction or by
set_transform; sub-basin queries (by area with thresholds of a few cells of the current georeference, Pfafstetter with
the default / the object's km2 / a user upstream-area map) placed before and after queries that memoise the
main-upstream cells (upstream path, classic stream order, moving average, idxs_us_main, main_upstream()).

add_pits is drawn in all its argument variants: start cells by `idxs` or (rasters) by `xy` (points inside the cells, in
the georeference the object has at that point of the history), with and without a `streams=` mask the start cells are
snapped downstream to (upstream cell count >= k, downstream-closed, random, all-True / all-False; start cells on and off
the mask). The network after the call is compared with the harness' own snap (walk downstream to the first True cell or
pit). After every mutator the probe set also holds basins() (rasters) and, on a state-sharing clone of the object and of
the twin, the explicit cell order of both methods with the node count, upstream area and basins derived from it.

Mutators that raise: only the documented ValueError / IndexError are accepted (the object must then answer like before);
any other exception of a mutator is a failure. The save/load round trip has no documented error at all: it must succeed
on every object, whatever ran before (its outcome is compared with the round trip of the fresh twin). A third of the
histories holds, at a random position, a query that memoises the cell-area grid (area, upstream_area / ucat_area in a
unit other than cells, subbasins_area, floodplains without an upstream-area map) directly followed by a round trip.

Networks with loops (cells that reach no pit): arbitrary functional graphs and loop-free networks into which cycles of
2-4 cells are wired (a cycle takes its tributaries with it). Before the repair every query may run whose work does not
follow a path along a loop - all ordering-based ones (upstream area, basins, stream orders, accumulations, distances,
sub-basins, ...), explicit cell orders, save/load round trips, set_transform, add_pits - traces (path, snap, add_pits
with a stream mask) start at cells that reach a pit. repair_loops() is judged against the harness' own repaired network
(a pit at every valid cell whose downstream walk reaches no pit, nothing else changed) and `isvalid` must hold afterwards,
whatever ran before."""
import copy
import io
import json
import math
import os
import pickle
import tempfile

import numpy as np
from affine import Affine

from common import (gen_raster_net, gen_funcgraph, gen_forest, ds_to_np, canon_idx, exc_class, VERIF,
                    LEAN_DIR, net_features, topo_of)

OPS = []  # filled below
RULE = ("random histories (quick: length <= 12, thorough: <= 30; plus all histories of length <= 3 over a "
        "reduced alphabet in the thorough tier) over ~35 queries and 6 mutators (order_cells, add_pits, "
        "repair_loops, set_transform, dump/load, cache toggle at construction) on Flwdir and FlwdirRaster; "
        "vector objects with and without a non-uniform per-node `area=` (twin built with the same area), rasters "
        "built / moved to geographic grids of 1-4 degree rows between 60 and 88 degrees N or S (cell area varies "
        "strongly with the row), sub-basin queries (area thresholds at the scale of the cell area, Pfafstetter with "
        "own / km2 / user upstream-area maps) before and after queries that memoise the main-upstream cells; "
        "add_pits by idxs / xy (raster), with and without a streams= mask (upstream count >= k, downstream-closed, "
        "random, all-True/False; start cells on and off the mask), network after the call checked against the harness' "
        "own downstream snap; probes after a mutator include basins() and both explicit cell orders (on a clone) with "
        "the node count / upstream area / basins derived from them; "
        "a mutator may only raise ValueError / IndexError, dump/load must succeed after every history (outcome compared "
        "with dump/load of the fresh twin); ~1/3 of the histories hold an area-memoising query (area, upstream_area / "
        "ucat_area with unit != cell, subbasins_area, floodplains) directly followed by dump/load; "
        "networks with loops (functional graphs; cycles of 2-4 cells wired into loop-free networks): any loop-safe query / "
        "mutator (everything ordering-based, explicit orders, round trips, set_transform, add_pits; traces only from cells "
        "that reach a pit) before repair_loops, whose outcome is compared with the harness' own repaired network + isvalid; "
        "non-trivial = history with >= 1 mutator or >= 2 queries sharing a cache key; distinct = SHA-1 of "
        "(class, network, history)")

CACHE_KEYS = {"rank": "rank", "isvalid": "rank", "nnodes": "rank", "idxs_us_main": "idxs_us_main",
              "main_upstream": "idxs_us_main", "stream_order": "strord", "path_up": "idxs_us_main",
              "upstream_area_m2": "area", "area": "area", "distnc": "distnc", "subgrid_rivlen_m": "distnc",
              "moving_average": "idxs_us_main", "subbasins_streamorder": "strord", "subbasins_area": "idxs_us_main",
              "subbasins_pfafstetter": "idxs_us_main", "floodplains": "area", "ucat_area": "area",
              "upstream_area_unit": "area"}


# ---------------------------------------------------------------------------------------------
def _canon(x):
    """canonical, exactly comparable form of a result"""
    if isinstance(x, tuple):
        return ("tuple",) + tuple(_canon(v) for v in x)
    if isinstance(x, list):
        return ("list",) + tuple(_canon(v) for v in x)
    if isinstance(x, dict):
        return ("dict",) + tuple((k, _canon(v)) for k, v in sorted(x.items()))
    if isinstance(x, np.ndarray):
        if x.dtype.kind == "f":
            return ("arr", x.shape, tuple("nan" if np.isnan(v) else float(v) for v in x.ravel().tolist()))
        return ("arr", x.shape, tuple(x.ravel().tolist()))
    if isinstance(x, (np.integer,)):
        return int(x)
    if isinstance(x, (np.floating, float)):
        return "nan" if np.isnan(x) else float(x)
    if isinstance(x, (np.bool_, bool)):
        return bool(x)
    if hasattr(x, "__len__") and not isinstance(x, (str, bytes)):  # numba typed list
        return ("list",) + tuple(_canon(v) for v in x)
    return x


def _relabel(a):
    """partition induced by a label map (ids documented as arbitrary): first-occurrence renumbering"""
    m, out = {}, []
    for v in np.asarray(a).ravel().tolist():
        if v == 0:
            out.append(0)
        else:
            out.append(m.setdefault(v, len(m) + 1))
    return tuple(out)


# A save/load round trip of a vector object built with `area=` loses the area (Flwdir._dict holds the network only).
# PF_C12_DUMP_AREA=1: judged by the property text (the loaded object must answer like a fresh object holding the same
# network AND area): `spec` failure with the mechanism signature below (see classify). Default: the harness models the
# code (the loaded object holds no area) and counts the observation.
# Since fix afe1ea5 in /repo (F12e) the area survives the round trip: judged strictly (PF_C12_DUMP_AREA=0 restores the
# old modelling of the defect, for replaying old trees).
STRICT_DUMP_AREA = os.environ.get("PF_C12_DUMP_AREA", "1") == "1"
SIG_DUMP_AREA = "dumpload-drops-vector-area"
OBSERVED = {}


class Obj:
    """a real object + the abstract state needed to build a fresh twin"""

    def __init__(self, cls, ds, shape, dtype, cache, transform, latlon, area=None, area_dtype="float64"):
        self.cls, self.shape, self.dtype, self.cache = cls, shape, dtype, cache
        self.transform, self.latlon = transform, latlon
        self.area, self.area_dtype = area, area_dtype   # vector objects: the per-node area handed to the constructor
        self.order = None
        self.real = self._build(ds_to_np(ds, dtype))

    def _build(self, idxs_ds):
        from pyflwdir.pyflwdir import FlwdirRaster
        from pyflwdir.flwdir import Flwdir
        if self.cls == "raster":
            return FlwdirRaster(idxs_ds, self.shape, "d8", transform=self.transform, latlon=self.latlon, cache=self.cache)
        if self.area is not None:
            # every object gets its own array (the constructor keeps a reference to its argument)
            return Flwdir(idxs_ds, area=np.array(self.area, dtype=self.area_dtype), cache=self.cache)
        return Flwdir(idxs_ds, cache=self.cache)

    def twin(self):
        o = Obj.__new__(Obj)
        o.__dict__.update(self.__dict__)
        o.cache = True
        o.real = o._build(self.real.idxs_ds.copy())
        if self.order is not None:
            o.real.order_cells(self.order)
        return o


# ---------------------------------------------------------------------------------------------
# georeferences whose cell area depends strongly on the row: geographic grids near the poles
R_EARTH = 6371e3


def polar_transform(rng, nrow):
    """north-up geographic grid, rows of 1-4 degrees, all rows between 60 and 88 degrees N or S"""
    dys = [d for d in (1, 2, 3, 4) if nrow * d <= 28]
    if not dys:
        return None
    dy = rng.choice(dys)
    span = nrow * dy
    top = rng.randint(60 + span, 88) if rng.random() < 0.5 else -rng.randint(60, 88 - span)
    return [rng.choice([1, 1, 2, 4, 0.5]), 0, rng.choice([0, 10, -120]), 0, -dy, top]


def cell_km2(transform, latlon, nrow):
    """harness' own cell area [km2] of the middle row (only used to put thresholds at the scale of the data)"""
    a, e, f = float(transform[0]), float(transform[4]), float(transform[5])
    if not latlon:
        return abs(a * e) / 1e6
    lat = f + e * (nrow // 2 + 0.5)
    l1, l2 = math.radians(lat - abs(e) / 2), math.radians(lat + abs(e) / 2)
    return abs(R_EARTH ** 2 * math.radians(abs(a)) * (math.sin(l2) - math.sin(l1))) / 1e6


def _field(rng, n, kind):
    if kind == "int":
        return np.array([rng.randint(-3, 9) for _ in range(n)], dtype=np.int64)
    if kind == "float":
        return np.array([rng.randint(0, 40) / 4 for _ in range(n)], dtype=np.float64)
    if kind == "mask":
        return np.array([rng.random() < 0.3 for _ in range(n)], dtype=bool)
    if kind == "upa":
        return np.array([float(rng.randint(1, 50)) for _ in range(n)], dtype=np.float64)
    raise KeyError(kind)


def gen_op(rng, o, n, valid, force=None):
    """returns (name, args-dict (JSON-able), kind) ; kind in query|mutator. `o` carries the georeference the object has
    at this point of the history (thresholds are put at the scale of its cell area)."""
    raster = o.cls == "raster"
    queries = ["rank", "isvalid", "nnodes", "idxs_pit", "idxs_seq", "idxs_us_main", "main_upstream",
               "n_upstream", "stream_order", "upstream_area", "accuflux", "path", "fillnodata", "downstream",
               "upstream_sum", "moving_average", "dem_adjust", "area", "distnc"]
    if raster:
        queries += ["basins", "subbasins_streamorder", "subbasins_area", "upstream_area_unit", "stream_distance",
                    "snap", "hand", "streams", "outflow_idxs", "subgrid_rivlen", "ucat_area", "to_array_nextxy",
                    "subbasins_pfafstetter", "floodplains"]
    mutators = ["order_cells", "add_pits", "add_pits", "repair_loops", "dumpload"] + (["set_transform"] if raster else [])
    if force is not None:
        name = force
    elif rng.random() < 0.28:
        name = rng.choice(mutators)
    else:
        name = rng.choice(queries)
    a = {}
    km2 = cell_km2(o.transform, o.latlon, o.shape[0]) if raster else 1.0
    if name == "main_upstream":
        a["uparea"] = None if rng.random() < 0.5 else [float(rng.randint(1, 50)) for _ in range(n)]
    elif name == "stream_order":
        a["type"] = rng.choice(["strahler", "strahler", "classic"])
        a["mask"] = None if rng.random() < 0.5 else [bool(rng.random() < 0.6) for _ in range(n)]
    elif name == "accuflux":
        a["data"] = [rng.randint(-3, 9) for _ in range(n)]
        a["direction"] = rng.choice(["up", "down"])
    elif name in ("path", "snap"):
        a["idxs"] = [rng.choice(valid) for _ in range(rng.randint(1, 3))]
        a["direction"] = rng.choice(["up", "down"])
        a["max_length"] = rng.choice([None, 1, 2, 3])
        a["mask"] = None if rng.random() < 0.6 else [bool(rng.random() < 0.3) for _ in range(n)]
        if name == "snap" or raster:
            a["unit"] = rng.choice(["cell", "m"]) if raster else None
    elif name == "fillnodata":
        a["data"] = [rng.choice([-9999, -9999, rng.randint(1, 5)]) for _ in range(n)]
        a["direction"] = rng.choice(["up", "down"])
        a["how"] = rng.choice(["min", "max", "sum"])
    elif name in ("downstream", "upstream_sum"):
        a["data"] = [rng.randint(0, 9) for _ in range(n)]
    elif name == "moving_average":
        a["data"] = [rng.randint(0, 40) / 4 for _ in range(n)]
        a["n"] = rng.randint(0, 2)
        a["restrict_strord"] = rng.random() < 0.4
    elif name in ("dem_adjust", "hand"):
        a["elevtn"] = [rng.randint(0, 20) for _ in range(n)]
        if name == "hand":
            a["drain"] = [bool(rng.random() < 0.3) for _ in range(n)]
    elif name == "basins":
        a["idxs"] = None if rng.random() < 0.5 else [rng.choice(valid) for _ in range(rng.randint(1, 3))]
    elif name == "subbasins_streamorder":
        a["min_sto"] = rng.choice([-2, 1, 2])
    elif name == "subbasins_area":
        # threshold [km2]: a few cells of the current georeference (so that tributaries and inter-basins on both
        # sides of it exist), or a fixed small number
        a["area_min"] = rng.choice([1, 2, 4]) if rng.random() < 0.3 else km2 * rng.choice([0.5, 1.5, 1.5, 2.5, 3.5, 5.5, 8.5])
    elif name == "subbasins_pfafstetter":
        a["depth"] = rng.choice([1, 1, 2])
        # upstream-area map: the default (cells), the object's own km2 map, or a user map (upstream sum of weights)
        u = rng.random()
        if u < 0.35:
            a["uparea"] = None
            a["upa_min"] = rng.choice([0.0, 1.5, 2.5])
        elif u < 0.75:
            a["uparea"] = "km2"
            a["upa_min"] = km2 * rng.choice([0.0, 0.0, 1.5, 2.5])
        else:
            a["uparea"] = [rng.randint(1, 40) / 4 for _ in range(n)]
            a["upa_min"] = rng.choice([0.0, 0.0, 6.0])
    elif name == "upstream_area_unit":
        a["unit"] = rng.choice(["m2", "km2", "ha", "cell"])
    elif name == "stream_distance":
        a["unit"] = rng.choice(["cell", "m"])
        a["mask"] = None if rng.random() < 0.5 else [bool(rng.random() < 0.3) for _ in range(n)]
    elif name == "streams":
        a["min_sto"] = rng.choice([1, 2])
        a["max_len"] = rng.choice([0, 2, 3])
    elif name == "outflow_idxs":
        a["region"] = [bool(rng.random() < 0.5) for _ in range(n)]
    elif name == "subgrid_rivlen":
        a["unit"] = rng.choice(["cell", "m"])
        a["direction"] = rng.choice(["up", "down"])
    elif name == "ucat_area":
        a["unit"] = rng.choice(["cell", "m2", "km2"])
        a["idxs_out"] = [rng.choice(valid) for _ in range(2)]
    elif name == "floodplains":
        # upstream area computed on the fly [km2] (memoises the cell areas) or the default-free variant with a user map
        a["elevtn"] = [rng.randint(0, 20) for _ in range(n)]
        a["uparea"] = None if rng.random() < 0.75 else [rng.randint(1, 40) / 4 for _ in range(n)]
        a["upa_min"] = km2 * rng.choice([0.5, 1.5, 2.5, 4.5]) if a["uparea"] is None else rng.choice([1.0, 6.0])
        a["b"] = rng.choice([0.3, 0.3, 0.5, 1.0])
    elif name == "order_cells":
        a["method"] = rng.choice(["sort", "walk"])
    elif name == "add_pits":
        a["idxs"] = [rng.choice(valid) for _ in range(rng.randint(1, 2))]
        if rng.random() < (0.65 if raster else 0.35):
            # pits snapped downstream to the first cell of a stream mask (drawn on the network the object was built
            # with; after earlier mutators it is just another mask); start cells on and off the mask
            ds0 = canon_idx(o.real.idxs_ds, n)
            m = stream_mask(rng, ds0, n, valid)
            a["streams"] = m
            off = [i for i in valid if not m[i] and ds0[i] != i]
            if off and rng.random() < 0.7:
                a["idxs"][0] = rng.choice(off)
        if raster and rng.random() < 0.35:
            # by coordinates: a point inside each start cell (fractions of the cell size from its first corner)
            a["by"] = "xy"
            a["frac"] = [[rng.choice([0.25, 0.5, 0.5, 0.75]), rng.choice([0.25, 0.5, 0.5, 0.75])] for _ in a["idxs"]]
    elif name == "set_transform":
        res = rng.choice([(1, -1), (2, -2), (3, -4), (0.5, -0.25), (10, -10)])
        a["transform"] = [res[0], 0, rng.choice([0, 5]), 0, res[1], rng.choice([0, 40])]
        a["latlon"] = rng.random() < 0.3 and abs(res[1]) <= 4
        pt = polar_transform(rng, o.shape[0]) if rng.random() < 0.3 else None
        if pt is not None:
            # geographic grid near a pole: the cell area differs strongly from row to row
            a["transform"], a["latlon"] = pt, True
        elif rng.random() < 0.2:
            # a georeference that differs from the current one by very little (sub-millimetre cells, a shift of a few
            # micro-units): still another transform
            t = o.transform
            k = rng.choice([0.5, 2.0, 0.25])
            small = rng.choice([1e-6, 4e-6, 8e-6])
            a["transform"] = [small, 0, t.c, 0, -small * rng.choice([1, k]), t.f] if rng.random() < 0.5 else \
                [t.a, t.b, t.c + rng.choice([2e-6, -3e-6]), t.d, t.e, t.f + rng.choice([0, 4e-6])]
            a["latlon"] = o.latlon
        elif rng.random() < 0.35:
            # same affine as the object was built with, only the latlon flag changes
            t = o.transform
            a["transform"] = [t.a, t.b, t.c, t.d, t.e, t.f]
            a["latlon"] = (not o.latlon) and abs(t.e) <= 4
    return name, a, ("mutator" if name in mutators else "query")


def _walk_down(ds, n, i):
    """cells from i downstream (i included) up to a pit, a missing cell or n steps; second value: ended regularly"""
    out, j = [i], i
    for _ in range(n + 1):
        d = ds[j]
        if d == j or d == n:
            return out, True
        j = d
        out.append(j)
    return out, False


def stream_mask(rng, ds, n, valid):
    """boolean `streams` masks for add_pits"""
    u = rng.random()
    if u < 0.4:
        # cells with at least k cells upstream (themselves included)
        cnt = [0] * n
        for i in valid:
            for j in set(_walk_down(ds, n, i)[0]):
                cnt[j] += 1
        k = rng.choice([2, 2, 3, 4, 6])
        return [bool(ds[i] != n and cnt[i] >= k) for i in range(n)]
    if u < 0.75:
        # downstream-closed: everything downstream of a few cells
        m = [False] * n
        for i in rng.sample(valid, min(len(valid), rng.randint(1, 3))):
            for j in _walk_down(ds, n, i)[0]:
                m[j] = True
        return m
    if u < 0.9:
        return [bool(rng.random() < 0.3) for _ in range(n)]
    return [rng.random() < 0.5] * n


def own_snap(ds, n, mask, idxs):
    """harness' own snap: first cell downstream of the start cell (itself included) that is True in mask or a pit;
    None if a walk does not end (loops: outside the documented domain)"""
    out = []
    for i in idxs:
        cells, ended = _walk_down(ds, n, i)
        hit = next((j for j in cells if mask[j]), None)
        if hit is None:
            if not ended:
                return None
            hit = cells[-1]
        out.append(hit)
    return out


def clone(f):
    """another object holding the same state (arrays shared, own memo dict): explicit orders are probed on it so
    that the probe does not become part of the history"""
    g = copy.copy(f)
    g._cached = dict(f._cached)
    return g


def own_upsum(f, weights):
    """user-made upstream-area map: the harness' own upstream sum of per-cell weights on the object's current network
    (-9999 at cells that reach no pit)"""
    n = int(f.size)
    ds = canon_idx(f.idxs_ds, n)
    seq = topo_of(ds)
    acc = [-9999.0] * n
    for i in seq:
        acc[i] = float(weights[i])
    for i in reversed(seq):
        if ds[i] != i:
            acc[ds[i]] += acc[i]
    return np.array(acc, dtype=np.float64)


def apply(o, name, a):
    """run one op on Obj o (mutating o for mutators); returns canonical result"""
    f = o.real
    n = f.size
    shp = o.shape if o.cls == "raster" else (n,)
    arr = lambda v, dt=None: None if v is None else np.array(v, dtype=dt).reshape(shp)  # noqa: E731
    if name in ("rank", "isvalid", "nnodes", "idxs_pit", "idxs_us_main", "n_upstream", "area", "distnc"):
        return _canon(getattr(f, name))
    if name == "idxs_seq":
        return _canon(f.idxs_seq)
    if name == "georef":   # where the raster is: coefficients, bounds and the centre of the first and last cell
        xs, ys = f.xy(np.array([0, f.size - 1]))
        return _canon((tuple(float(v) for v in tuple(f.transform)[:6]), bool(f.latlon), np.asarray(f.bounds, dtype=np.float64),
                       np.asarray(xs, dtype=np.float64), np.asarray(ys, dtype=np.float64)))
    if name == "main_upstream":
        return _canon(f.main_upstream(uparea=arr(a["uparea"], np.float64)))
    if name == "stream_order":
        return _canon(f.stream_order(type=a["type"], mask=arr(a["mask"], bool)))
    if name == "upstream_area":
        return _canon(f.upstream_area())
    if name == "upstream_area_unit":
        return _canon(f.upstream_area(unit=a["unit"]))
    if name == "accuflux":
        return _canon(f.accuflux(arr(a["data"], np.int64), direction=a["direction"]))
    if name == "path":
        kw = dict(idxs=np.array(a["idxs"]), mask=arr(a["mask"], bool), max_length=a["max_length"], direction=a["direction"])
        if o.cls == "raster":
            kw["unit"] = a["unit"]
        p, d = f.path(**kw)
        return _canon(([np.asarray(x) for x in p], d))
    if name == "snap":
        return _canon(f.snap(idxs=np.array(a["idxs"]), mask=arr(a["mask"], bool), max_length=a["max_length"],
                             direction=a["direction"], unit=a["unit"]))
    if name == "fillnodata":
        return _canon(f.fillnodata(arr(a["data"], np.int64), -9999, direction=a["direction"], how=a["how"]))
    if name == "downstream":
        return _canon(f.downstream(arr(a["data"], np.int64)))
    if name == "upstream_sum":
        return _canon(f.upstream_sum(arr(a["data"], np.int64)))
    if name == "moving_average":
        return _canon(f.moving_average(arr(a["data"], np.float64), n=a["n"], restrict_strord=a["restrict_strord"]))
    if name == "dem_adjust":
        return _canon(f.dem_adjust(arr(a["elevtn"], np.float32)))
    if name == "hand":
        return _canon(f.hand(arr(a["drain"], bool), arr(a["elevtn"], np.float32)))
    if name == "basins":
        return _canon(f.basins(idxs=None if a["idxs"] is None else np.array(a["idxs"])))
    if name == "subbasins_streamorder":
        m, idx = f.subbasins_streamorder(min_sto=a["min_sto"])
        return ("partition", _relabel(m), tuple(sorted(idx.tolist())))
    if name == "subbasins_area":
        m, idx = f.subbasins_area(a["area_min"])
        return ("partition", _relabel(m), tuple(sorted(idx.tolist())))
    if name == "subbasins_pfafstetter":
        upa = a["uparea"]
        if isinstance(upa, str):
            upa = f.upstream_area(unit=upa)
        elif upa is not None:
            upa = own_upsum(f, upa).reshape(shp)
        m, idx = f.subbasins_pfafstetter(depth=a["depth"], uparea=upa, upa_min=a["upa_min"])
        return ("pfafstetter", _canon(m), tuple(sorted(idx.tolist())))
    if name == "stream_distance":
        return _canon(f.stream_distance(mask=arr(a["mask"], bool), unit=a["unit"]))
    if name == "streams":
        feats = f.streams(min_sto=a["min_sto"], max_len=a["max_len"])
        return tuple(sorted((tuple(map(tuple, ft["geometry"]["coordinates"])), int(ft["properties"]["idx"]),
                             int(ft["properties"]["idx_ds"]), bool(ft["properties"]["pit"])) for ft in feats))
    if name == "outflow_idxs":
        return tuple(sorted(f.outflow_idxs(arr(a["region"], bool)).tolist()))
    if name == "subgrid_rivlen":
        return _canon(f.subgrid_rivlen(None, unit=a["unit"], direction=a["direction"]))
    if name == "ucat_area":
        return _canon(f.ucat_area(np.array(a["idxs_out"], dtype=f.idxs_ds.dtype), unit=a["unit"]))
    if name == "to_array_nextxy":
        return _canon(f.to_array("nextxy"))
    if name == "floodplains":
        upa = None if a["uparea"] is None else own_upsum(f, a["uparea"]).reshape(shp)
        return _canon(f.floodplains(arr(a["elevtn"], np.float32), uparea=upa, upa_min=a["upa_min"], b=a["b"]))
    # mutators
    if name == "order_cells":
        f.order_cells(a["method"])
        o.order = a["method"]
        return "ok"
    if name == "seq_probe":
        g = clone(f)
        g.order_cells(a["method"])
        out = (g.idxs_seq, g.nnodes, g.upstream_area())
        if o.cls == "raster":
            out += (g.basins(),)
        return _canon(out)
    if name == "add_pits":
        o.netfail = None
        ds0 = canon_idx(f.idxs_ds, n)
        kw = {}
        if a.get("by") == "xy":
            t, ncol = o.transform, o.shape[1]
            pts = [(i % ncol + fr[0], i // ncol + fr[1]) for i, fr in zip(a["idxs"], a["frac"])]
            kw["xy"] = (np.array([t.a * c + t.b * r + t.c for c, r in pts], dtype=np.float64),
                        np.array([t.d * c + t.e * r + t.f for c, r in pts], dtype=np.float64))
        else:
            kw["idxs"] = np.array(a["idxs"])
        want = list(a["idxs"])
        if a.get("streams") is not None:
            kw["streams"] = arr(a["streams"], bool)
            want = own_snap(ds0, n, a["streams"], a["idxs"])
        tag = "add_pits" + ("-xy" if "xy" in kw else "") + ("-streams" if "streams" in kw else "") + ":" + o.cls
        try:
            f.add_pits(**kw)
        except Exception as e:  # noqa: BLE001
            _obs(f"{tag}:raises-{exc_class(e)}")
            raise
        o.order = None
        if want is not None:
            if "streams" in kw:
                _obs(tag + (":start-cell-moved" if want != list(a["idxs"]) else ":no-start-cell-moved"))
            exp = list(ds0)
            for i in want:
                exp[i] = i
            ds1 = canon_idx(f.idxs_ds, n)
            if ds1 != exp:
                bad = [i for i in range(n) if ds1[i] != exp[i]]
                o.netfail = (f"after {tag.split(':')[0]} the network differs from the old network with pits at the snapped start "
                             f"cells {want}: cells {bad[:8]} point to {[ds1[i] for i in bad[:8]]}, expected {[exp[i] for i in bad[:8]]}")
        return "ok"
    if name == "repair_loops":
        o.netfail = None
        before = f.idxs_ds.copy()
        ds0 = canon_idx(before, n)
        f.repair_loops()
        if not np.array_equal(before, f.idxs_ds):
            o.order = None
        # the harness' own repair: a pit at every valid cell whose downstream walk reaches no pit, nothing else changes
        stuck = [i for i in range(n) if ds0[i] != n and not _walk_down(ds0, n, i)[1]]
        exp = list(ds0)
        for i in stuck:
            exp[i] = i
        _obs(f"repair_loops:{o.cls}:" + ("network-with-loops" if stuck else "loop-free-network"))
        ds1 = canon_idx(f.idxs_ds, n)
        if ds1 != exp:
            bad = [i for i in range(n) if ds1[i] != exp[i]]
            o.netfail = (f"after repair_loops the network differs from the old network with a pit at every cell that reaches no pit "
                         f"({len(stuck)} such cells: {stuck[:8]}): cells {bad[:8]} point to {[ds1[i] for i in bad[:8]]}, "
                         f"expected {[exp[i] for i in bad[:8]]}")
        elif not bool(clone(f).isvalid):   # on a clone: the probe does not become part of the history
            o.netfail = (f"after repair_loops isvalid is False (network as expected: pits at the {len(stuck)} cells that reached no pit)")
        return "ok"
    if name == "set_transform":
        f.set_transform(Affine(*a["transform"]), a["latlon"])
        o.transform, o.latlon = Affine(*a["transform"]), a["latlon"]
        return "ok"
    if name == "dumpload":
        fd, fn = tempfile.mkstemp(suffix=".pkl")
        os.close(fd)
        try:
            f.dump(fn)
            o.real = type(f).load(fn)
        finally:
            os.remove(fn)
        o.cache = True  # load() constructs with the default cache=True
        o.lost_area = False
        if o.cls == "vector" and o.area is not None:
            # the state dict of the vector class holds the network only: is the per-node area still there?
            kept = np.array_equal(np.asarray(o.real.area, dtype=np.float64), np.asarray(o.area, dtype=np.float64))
            if not kept:
                OBSERVED["dumpload-drops-vector-area"] = OBSERVED.get("dumpload-drops-vector-area", 0) + 1
                o.lost_area = True
                if not STRICT_DUMP_AREA:
                    o.area = None   # model the code that exists: the loaded object holds no area
        return "ok"
    raise KeyError(name)


def _obs(k):
    OBSERVED[k] = OBSERVED.get(k, 0) + 1


def safe_apply(o, name, a):
    try:
        return ("ok", apply(o, name, a))
    except Exception as e:  # noqa: BLE001
        o.last_exc = f"{type(e).__name__}: {e}"[:240]
        return ("exc", exc_class(e))


MUTATORS = ("order_cells", "add_pits", "repair_loops", "set_transform", "dumpload")
# what a mutator may raise (documented input errors); the save/load round trip documents none
MUTATOR_MAY_RAISE = {"order_cells": ("ValueError",), "add_pits": ("ValueError", "IndexError"), "repair_loops": (),
                     "set_transform": ("ValueError",), "dumpload": ()}


def judge_mutator_exc(o, name, a, got, step):
    """a mutator of the history raised: failure unless it is a documented error class. The round trip is also run on the
    fresh twin (same network / georeference / settings / order, no history) to say whether the outcome depends on the
    history."""
    if got[1] in MUTATOR_MAY_RAISE[name]:
        _obs(f"mutator-raises-documented:{name}:{got[1]}")
        return None
    what = f"mutator {name} raised {getattr(o, 'last_exc', got[1])}"
    fail = {"step": step, "op": name, "kind": "spec", "got": repr(got)}
    if name == "dumpload":
        t = o.twin()
        g2 = safe_apply(t, name, a)
        fail["fresh"] = repr(g2)
        keys = sorted(o.real._cached.keys())
        what = (f"save/load round trip after this history raised {getattr(o, 'last_exc', got[1])} (memoised: {keys}); the round trip "
                f"of a fresh object holding the same network and settings " + ("succeeds: the outcome depends on the history"
                                                                              if g2[0] == "ok" else f"raised {getattr(t, 'last_exc', g2[1])}"))
    else:
        what += f" (accepted: {list(MUTATOR_MAY_RAISE[name]) or 'nothing'})"
    fail["what"] = what
    return fail


def load_table():
    p = os.path.join(LEAN_DIR, "PfVerif", "Generated", "cache_protocol.json")
    t = {}
    for e in json.load(open(p)):
        t[(e["cls"], e["name"])] = e
    return t


METHOD_OF = {"idxs_us_main": "idxs_us_main", "upstream_area_unit": "upstream_area", "dumpload": "dump",
             "to_array_nextxy": "to_array"}


def run_history(spec, table=None):
    """spec: dict(cls, ds, shape, dtype, cache, transform, latlon, ops=[(name,args)...]).
    returns None or a failure dict (first failing step)."""
    o = Obj(spec["cls"], spec["ds"], tuple(spec["shape"]), np.dtype(spec["dtype"]).type, spec["cache"],
            Affine(*spec["transform"]), spec["latlon"], spec.get("area"), spec.get("area_dtype", "float64"))
    clsname = "FlwdirRaster" if spec["cls"] == "raster" else "Flwdir"
    for step, (name, a) in enumerate(spec["ops"]):
        keys_before = set(o.real._cached.keys())
        got = safe_apply(o, name, a)
        if name in MUTATORS and got[0] == "exc":
            fail = judge_mutator_exc(o, name, a, got, step)
            if fail is not None:
                return fail
        t = o.twin()
        if name in MUTATORS:
            # mutators: compare the observable state afterwards through a fixed probe set
            probes = [("rank", {}), ("idxs_pit", {}), ("nnodes", {}), ("idxs_us_main", {}), ("area", {}), ("distnc", {}),
                      ("stream_order", {"type": "strahler", "mask": None}), ("upstream_area", {})]
            if spec["cls"] == "raster":
                probes.append(("upstream_area_unit", {"unit": "m2"}))
                probes += [("georef", {}), ("basins", {"idxs": None})]
            probes += [("idxs_seq", {}), ("seq_probe", {"method": "walk"}), ("seq_probe", {"method": "sort"})]
            if name in ("add_pits", "repair_loops") and getattr(o, "netfail", None):
                return {"step": step, "op": name, "what": o.netfail}
            for pn, pa in probes:
                g1, g2 = safe_apply(o, pn, pa), safe_apply(t, pn, pa)
                if g1 != g2:
                    fail = {"step": step, "op": name, "probe": pn, "what": f"after mutator {name}, query {pn} differs from a fresh object",
                            "got": repr(g1)[:300], "fresh": repr(g2)[:300]}
                    if name == "dumpload" and getattr(o, "lost_area", False):
                        fail["mechanism"] = SIG_DUMP_AREA
                        fail["what"] += " holding the same network and per-node area (the area given to Flwdir(area=) is not part of the dumped state)"
                    return fail
        else:
            want = safe_apply(t, name, a)
            if got != want:
                return {"step": step, "op": name, "what": f"query {name} differs from the same query on a fresh object",
                        "got": repr(got)[:300], "fresh": repr(want)[:300]}
        # tie-1 cross-check: observed cache keys vs extracted protocol
        if table is not None and name not in ("dumpload",):
            e = table.get((clsname, METHOD_OF.get(name, name)))
            if e is not None:
                keys_after = set(o.real._cached.keys())
                new = keys_after - keys_before
                allowed = {w[0] for w in e["writes"]}
                if name in ("order_cells", "add_pits", "repair_loops", "set_transform"):
                    allowed |= {"rank", "idxs_us_main", "strord", "area", "distnc"}  # probes above
                if not new <= allowed:
                    return {"step": step, "op": name, "kind": "model", "what": f"cache keys {sorted(new - allowed)} written by {name} are not in the extracted protocol"}
                if not spec["cache"] and name != "dumpload" and o.cache is False and keys_after - {"area"}:
                    return {"step": step, "op": name, "what": f"cache disabled but keys {sorted(keys_after)} are stored"}
    return None


def shrink(spec, table):
    ops = list(spec["ops"])
    changed = True
    while changed and len(ops) > 1:
        changed = False
        for i in range(len(ops) - 1, -1, -1):
            cand = dict(spec, ops=ops[:i] + ops[i + 1:])
            try:
                if run_history(cand, table) is not None:
                    ops = cand["ops"]
                    changed = True
            except Exception:  # noqa: BLE001
                pass
    return dict(spec, ops=ops)


def gen_area(rng, n):
    """non-uniform per-node areas, exactly summable (quarters); a few nodes dominate so that the tributary with the
    most nodes is often not the one with the largest area"""
    return [rng.choice([0.25, 0.5, 0.75, 1.0, 1.5, 2.0, 3.0]) if rng.random() < 0.75 else float(rng.randint(8, 60))
            for _ in range(n)]


def memoiser(rng, ds, n, valid):
    """a query that needs (and, with the cache on, keeps) the main-upstream cells"""
    pits = [i for i in valid if ds[i] == i] or valid
    k = rng.randint(0, 4)
    if k == 0:
        return ("path", {"idxs": [rng.choice(pits)], "direction": "up", "max_length": None, "mask": None, "unit": "cell"})
    if k == 1:
        return ("stream_order", {"type": "classic", "mask": None})
    if k == 2:
        return ("moving_average", {"data": [rng.randint(0, 40) / 4 for _ in range(n)], "n": rng.randint(1, 2), "restrict_strord": False})
    if k == 3:
        return ("idxs_us_main", {})
    return ("main_upstream", {"uparea": None})


# configurations the first histories of every run are built with (the remaining ones are drawn at random)
STRATA = [{"cls": "vector", "area": True, "cache": False}, {"cls": "raster", "polar": True, "cache": True, "around": True, "memodump": True},
          {"cls": "vector", "area": True, "cache": True, "memodump": True}, {"cls": "raster", "polar": True, "cache": False, "around": True},
          {"cls": "vector", "area": True, "cache": False}, {"cls": "raster", "polar": True, "cache": True, "around": True},
          {"cls": "raster", "polar": False, "cache": True, "around": False, "memodump": True}, {"cls": "raster", "polar": True, "cache": True, "around": True},
          {"cls": "vector", "area": True, "cache": False}, {"cls": "raster", "polar": True, "cache": True, "around": True},
          {"cls": "vector", "area": False, "cache": False}, {"cls": "raster", "polar": True, "cache": True, "around": True},
          # networks with loops: loop-safe queries / mutators, then the repair
          {"cls": "raster", "loops": True, "cache": True, "polar": False}, {"cls": "vector", "loops": True, "cache": False},
          {"cls": "raster", "loops": True, "cache": False}, {"cls": "vector", "loops": True, "cache": True, "area": True},
          {"cls": "raster", "loops": True, "cache": True, "memodump": True}, {"cls": "vector", "loops": True, "cache": True, "area": False}]


def wire_loops(rng, ds, shape):
    """wires one or two cycles of 2-4 valid cells into a network (rasters: neighbouring cells - a pair, or three / four
    cells of a 2x2 block; vector: any cells). Everything that drained to one of these cells now drains into the loop."""
    n = len(ds)
    ds = list(ds)
    valid = [i for i in range(n) if ds[i] != n]
    for _ in range(rng.randint(1, 2)):
        for _try in range(30):
            k = rng.choice([2, 2, 3, 4])
            if len(shape) == 2 and min(shape) >= 2:
                nrow, ncol = shape
                r, c = rng.randint(0, nrow - 2), rng.randint(0, ncol - 2)
                block = [r * ncol + c, r * ncol + c + 1, (r + 1) * ncol + c + 1, (r + 1) * ncol + c]   # cyclic order
                at = rng.randint(0, 3)
                cyc = [block[(at + j) % 4] for j in range(k)]
                if k == 2 and rng.random() < 0.3:
                    cyc = [block[at], block[(at + 2) % 4]]   # diagonal pair
                if rng.random() < 0.5:
                    cyc.reverse()
            elif len(shape) == 2:
                i = rng.randint(0, n - 2)   # single row / column: two adjacent cells
                cyc = [i, i + 1]
            else:
                cyc = rng.sample(valid, min(k, len(valid)))
            if len(cyc) >= 2 and all(ds[i] != n for i in cyc):
                for j, i in enumerate(cyc):
                    ds[i] = cyc[(j + 1) % len(cyc)]
                break
    return ds


# what may run on a network with loops before the repair (see gen_spec)
LOOP_SAFE_VECTOR = ["upstream_area", "upstream_area", "idxs_seq", "accuflux", "accuflux", "stream_order", "idxs_us_main", "main_upstream",
                    "fillnodata", "downstream", "upstream_sum", "moving_average", "dem_adjust", "area", "distnc", "path",
                    "order_cells", "order_cells", "dumpload", "dumpload", "add_pits"]
LOOP_SAFE_RASTER = LOOP_SAFE_VECTOR + ["basins", "basins", "subbasins_streamorder", "subbasins_area", "upstream_area_unit",
                                       "stream_distance", "snap", "hand", "streams", "outflow_idxs", "subgrid_rivlen", "ucat_area",
                                       "to_array_nextxy", "subbasins_pfafstetter", "floodplains", "set_transform"]


def gen_spec(rng, tier, maxlen, force=None):
    force = force or {}
    cls = force.get("cls") or rng.choice(["raster", "raster", "vector"])
    if cls == "raster":
        ds, shape, fam = gen_raster_net(rng, max_cells=30 if tier == "quick" else 64, loopfree=rng.random() < 0.8)
    else:
        n = rng.randint(3, 24)
        ds = gen_forest(rng, n) if rng.random() < 0.75 else gen_funcgraph(rng, n)
        shape, fam = (n,), "vector"
    n = len(ds)
    if force.get("loops", rng.random() < 0.1) and not has_loops(ds):
        ds, fam = wire_loops(rng, ds, shape), fam + "+loops"
    if not any(ds[i] == i for i in range(n)):
        ds[next(i for i in range(n) if ds[i] != n)] = next(i for i in range(n) if ds[i] != n)
    valid = [i for i in range(n) if ds[i] != n]
    spec = {"cls": cls, "ds": ds, "shape": list(shape), "dtype": rng.choice(["int32", "int32", "int64", "uint32"]),
            "cache": force.get("cache", rng.random() < 0.75), "transform": [1, 0, 0, 0, -1, 0], "latlon": False, "family": fam}
    if cls == "raster" and rng.random() < 0.4:
        spec["transform"] = [rng.choice([1, 2, 3]), 0, 0, 0, -rng.choice([1, 2, 4]), rng.choice([0, 30])]
    if cls == "raster" and force.get("polar", rng.random() < 0.3):
        pt = polar_transform(rng, shape[0])
        if pt is not None:
            spec["transform"], spec["latlon"] = pt, True
    if cls == "vector" and force.get("area", rng.random() < 0.6):
        spec["area"] = gen_area(rng, n)
        spec["area_dtype"] = rng.choice(["float64", "float64", "float32"])
    o = Obj(cls, ds, tuple(shape), np.dtype(spec["dtype"]).type, spec["cache"], Affine(*spec["transform"]), spec["latlon"],
            spec.get("area"), spec.get("area_dtype", "float64"))

    def draw(forced=None):
        name, a, kind = gen_op(rng, o, n, valid, force=forced)
        if name == "set_transform":   # the georeference later thresholds are scaled with
            o.transform, o.latlon = Affine(*a["transform"]), a["latlon"]
        return (name, a)

    def area_memoiser():
        """a query after which (cache on) the object holds its cell / node areas"""
        if cls != "raster":
            return draw(rng.choice(["area", "upstream_area"]))
        q = draw(rng.choice(["area", "upstream_area_unit", "subbasins_area", "ucat_area", "floodplains"]))
        if q[0] in ("upstream_area_unit", "ucat_area") and q[1]["unit"] == "cell":
            q[1]["unit"] = rng.choice(["m2", "km2", "ha"] if q[0] == "upstream_area_unit" else ["m2", "km2"])
        if q[0] == "floodplains" and q[1]["uparea"] is not None:
            q[1]["uparea"], q[1]["upa_min"] = None, cell_km2(o.transform, o.latlon, shape[0]) * 1.5
        return q

    def rand_ops(k):
        """k random ops; with `memodump`, an area-memoising query directly followed by a save/load round trip is put at a
        random position between them (and now and then a second one later on)"""
        at = {rng.randint(0, k)} if memodump else set()
        if memodump and rng.random() < 0.25:
            at.add(rng.randint(0, k))
        for j in range(k + 1):
            if j in at:
                ops.append(area_memoiser())
                ops.append(("dumpload", {}))
            if j < k:
                ops.append(draw())

    memodump = force.get("memodump", rng.random() < (0.4 if cls == "raster" else 0.15))
    ops = []
    if has_loops(ds):
        # traces on networks with loops are outside the documented domain (they need not end): only
        # loop-safe queries may precede the repair. Loop-safe is everything whose work does not follow a path along a
        # loop: all queries that go through the ordered cells (these only hold cells that reach a pit, and nothing
        # that reaches a pit drains into a loop), local ones, explicit orders, round trips, set_transform, add_pits;
        # traces (path / snap / add_pits with a stream mask) when they start at cells that reach a pit (up- and
        # downstream of such a cell there are only cells that reach a pit).
        reach = [i for i in valid if _walk_down(ds, n, i)[1]]
        for _ in range(rng.randint(1 if force.get("loops") else 0, 4)):
            if rng.random() < 0.25:
                ops.append((rng.choice(["rank", "isvalid", "nnodes", "idxs_pit", "n_upstream", "idxs_seq"]), {}))
                continue
            q = draw(rng.choice(LOOP_SAFE_RASTER if cls == "raster" else LOOP_SAFE_VECTOR))
            if q[0] in ("path", "snap") or (q[0] == "add_pits" and q[1].get("streams") is not None):
                q[1]["idxs"] = [rng.choice(reach) for _ in q[1]["idxs"]]
            ops.append(q)
        ops.append(("repair_loops", {}))
    nrand = rng.randint(2, maxlen)
    if cls == "raster" and force.get("around", rng.random() < (0.5 if spec["latlon"] else 0.2)):
        # a sub-basin query before and after queries that memoise the main-upstream cells, and once more at the end
        sub = draw(rng.choice(["subbasins_area", "subbasins_area", "subbasins_pfafstetter"]))
        if rng.random() < 0.5:
            ops.append(sub)
        for _ in range(rng.randint(1, 2)):
            ops.append(memoiser(rng, ds, n, valid))
        ops.append(sub)
        nrand = max(0, nrand - 4)
        rand_ops(nrand)
        if nrand and rng.random() < 0.5:
            ops.append(draw(sub[0]))
    else:
        rand_ops(max(0, nrand - 2) if memodump else nrand)
    spec["ops"] = ops
    return spec


def has_loops(ds):
    n = len(ds)
    for i in range(n):
        if ds[i] == n:
            continue
        j, k = i, 0
        while ds[j] != j and k <= n:
            j, k = ds[j], k + 1
        if k > n:
            return True
    return False


def classify(failure):
    """mechanism signature of a known finding (never the message alone): the first failing step is a save/load round
    trip of a vector object after which the loaded object's `area` is no longer the area the object was built with"""
    d = failure.get("detail") or {}
    if d.get("mechanism") == SIG_DUMP_AREA and d.get("op") == "dumpload":
        return SIG_DUMP_AREA
    return None


class HistoryTimeout(BaseException):
    pass


def _alarm(*_):
    raise HistoryTimeout()


def run(ctx):
    ctx.no_watchdog()   # this check runs the implementation in worker processes / under its own alarms
    rng = ctx.rng
    table = load_table()
    nhist = (110 if ctx.tier == "quick" else 500) * ctx.escalate
    maxlen = 12 if ctx.tier == "quick" else 30
    specs = []
    if ctx.replay:
        specs.append(ctx.replay["failure"]["desc"])
    # corpus: the four cache defects of the pinned snapshot, as minimal histories
    chain = [1, 2, 2, 4, 5, 2]
    base = {"cls": "raster", "ds": chain, "shape": [2, 3], "dtype": "int32", "cache": True,
            "transform": [1, 0, 0, 0, -1, 0], "latlon": False, "family": "corpus"}
    m = [False, True, True, False, False, True]
    specs += [
        dict(base, ops=[("stream_order", {"type": "strahler", "mask": m}), ("stream_order", {"type": "strahler", "mask": None})]),
        dict(base, ops=[("rank", {}), ("idxs_us_main", {}), ("add_pits", {"idxs": [1]}), ("rank", {}), ("idxs_us_main", {})]),
        dict(base, ops=[("upstream_area_unit", {"unit": "m2"}), ("set_transform", {"transform": [10, 0, 0, 0, -10, 0], "latlon": False}),
                        ("upstream_area_unit", {"unit": "m2"}), ("distnc", {})]),
        dict(base, ops=[("main_upstream", {"uparea": [9.0, 1, 1, 1, 1, 1]}), ("idxs_us_main", {}), ("path", {"idxs": [2], "direction": "up", "max_length": None, "mask": None, "unit": "cell"})]),
        dict(base, ops=[("area", {}), ("distnc", {}), ("set_transform", {"transform": [1, 0, 0, 0, -1, 0], "latlon": True}),
                        ("area", {}), ("upstream_area_unit", {"unit": "km2"})]),
        dict(base, ds=[0, 2, 1, 2, 3, 4], ops=[("nnodes", {}), ("idxs_seq", {}), ("repair_loops", {}), ("nnodes", {}), ("rank", {})]),
        dict(base, cache=False, ops=[("rank", {}), ("stream_order", {"type": "strahler", "mask": None}), ("distnc", {}), ("idxs_us_main", {})]),
        dict(base, ops=[("order_cells", {"method": "sort"}), ("dem_adjust", {"elevtn": [3, 1, 2, 5, 0, 4]}), ("dumpload", {}), ("dem_adjust", {"elevtn": [3, 1, 2, 5, 0, 4]})]),
        # save/load round trip directly after queries that memoise the cell areas
        dict(base, transform=[250, 0, 1000, 0, -200, 5000], ops=[("upstream_area_unit", {"unit": "km2"}), ("dumpload", {}), ("upstream_area_unit", {"unit": "km2"}),
                                                                 ("ucat_area", {"unit": "m2", "idxs_out": [5, 2]}), ("dumpload", {}), ("area", {})]),
        # add_pits with a stream mask: start cells off the mask (snapped) and on it, by idxs and by xy; vector object
        dict(base, ops=[("upstream_area", {}), ("order_cells", {"method": "walk"}), ("add_pits", {"idxs": [3, 1], "streams": [False, True, True, False, False, True]}),
                        ("basins", {"idxs": None}), ("idxs_seq", {})]),
        dict(base, transform=[2, 0, 10, 0, -4, 30], ops=[("rank", {}), ("add_pits", {"idxs": [0, 4], "by": "xy", "frac": [[0.25, 0.75], [0.5, 0.5]],
                                                                     "streams": [False, True, False, False, False, True]}), ("nnodes", {})]),
        dict(base, cls="vector", shape=[6], ops=[("rank", {}), ("add_pits", {"idxs": [3], "streams": [False, False, True, False, False, True]}), ("idxs_pit", {})]),
    ]
    for k in range(nhist):
        specs.append(gen_spec(rng, ctx.tier, maxlen, force=STRATA[k] if k < len(STRATA) else None))
    for spec in specs:
        ops = spec["ops"]
        names = [o[0] for o in ops]
        muts = sum(1 for x in names if x in ("order_cells", "add_pits", "repair_loops", "set_transform", "dumpload"))
        keys = [CACHE_KEYS.get(x) for x in names if CACHE_KEYS.get(x)]
        nontriv = muts >= 1 or len(keys) != len(set(keys))
        ctx.count("class:" + spec["cls"]); ctx.count("cache:" + str(spec["cache"])); ctx.count("mutators", muts)
        if spec.get("area") is not None:
            ctx.count("vector-with-area:cache=" + str(spec["cache"]))
        if spec["latlon"]:
            ctx.count("raster-built-geographic-60-88deg")
        for x in names:
            ctx.count("op:" + x)
        for k, (x, xa) in enumerate(ops[:-1]):
            if ops[k + 1][0] == "dumpload" and (x in ("area", "subbasins_area") or (x == "floodplains" and xa["uparea"] is None) or (
                    x in ("upstream_area_unit", "ucat_area") and xa["unit"] != "cell") or (x == "upstream_area" and spec["cls"] == "vector")):
                ctx.count(f"area-memoiser-then-dumpload:{spec['cls']}:cache={spec['cache']}")
        if has_loops(spec["ds"]):
            ctx.count("feature:network-with-loops:" + spec["cls"] + ":" + ("cycles wired into a loop-free network" if str(spec.get("family", "")).endswith("+loops")
                                                                         else "functional graph / corpus"))
            if "repair_loops" in names:
                pre = names[:names.index("repair_loops")]
                for x in pre:
                    ctx.count("feature:loops:before-first-repair:" + x)
                ordering = [x for x in pre if x not in ("rank", "isvalid", "nnodes", "idxs_pit", "n_upstream", "area", "downstream", "set_transform", "add_pits")]
                ctx.count("feature:loops:first-repair-preceded-by:" + ("ordering-based query / explicit order / round trip" if ordering
                                                                       else "other calls only" if pre else "nothing"))
        for x, xa in ops:
            if x == "add_pits":
                ctx.count("add_pits:" + ("xy" if xa.get("by") == "xy" else "idxs") + ("+streams" if xa.get("streams") is not None else ""))
        ctx.evaluations += 1
        if nontriv:
            import hashlib
            ctx.nontrivial.add(hashlib.sha1(json.dumps(spec, sort_keys=True, default=str).encode()).hexdigest())
        if len(ctx.samples) < 3:
            ctx.samples.append(spec)
        import signal
        signal.signal(signal.SIGALRM, _alarm)
        signal.alarm(60)
        try:
            fail = run_history(spec, table)
        except HistoryTimeout:
            fail = {"what": "a call of the history did not return within 60 s (termination)", "kind": "spec"}
            ctx.failures.append({"desc": spec, "kind": "spec", "what": fail["what"]})
            continue
        except ValueError as e:
            if "no pits found" in str(e) or "size" in str(e):
                ctx.count("ctor-rejected")
                continue
            raise
        finally:
            signal.alarm(0)
        ctx.impl_validated += 1
        if fail is not None:
            small = shrink(spec, table)
            fail2 = run_history(small, table) or fail
            ctx.failures.append({"desc": small, "kind": fail2.get("kind", "spec"), "what": fail2["what"], "detail": fail2})
    for k, v in sorted(OBSERVED.items()):
        ctx.count(k, v)


OPS[:] = ["history x (query|mutator)"] * 40
