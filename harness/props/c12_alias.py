"""C12 extension - values that live in the cache are immutable (clause (6) `noInPlace` of `Entry.coherent`).

Two checks of the alias / in-place analysis of harness/extract_cache.py (which is part of the trusted base: the Lean
obligations `coherent_table` / `no_inplace_table` are only as good as the `inplace` lists it extracts):

1. translator self-test: the two classes of the tree under test are re-analysed with ~30 synthetic methods appended to
   `FlwdirRaster` (and two module-level kernels appended to pyflwdir.py). Every *positive* pattern (subscript and
   augmented assignment, `out=`, `np.copyto`, `np.put`, `ufunc.at`, `.fill`, `.sort`, a kernel / helper that assigns
   into its parameter, views by ravel / reshape / slicing / atleast_1d, `_check_data(None, "strord")`, branches,
   tuple unpacking) must be reported with the right cache key, every *negative* one (`.copy()`, arithmetic, `astype`,
   `np.where`, boolean indexing, re-binding to a copy, `_check_data(x, "data")`, writes into the caller's own array)
   must not. A miss is a `model` failure (the translator no longer reads this source correctly).
2. dynamic cross-check on random histories of real objects (generators of props/c12.py): before every call the
   objects stored in `_cached` / `_seq` / `_pit` are snapshotted; after the call every object that is STILL stored under
   the same key (same identity) must hold the same bytes - unless the extracted entry of that method lists an in-place
   write on that key. An unpredicted modification is a `model` failure (the extracted protocol does not describe the
   code), reported with the history as replay.
"""
import ast
import json
import os
import shutil
import tempfile

import numpy as np

from common import REPO

OPS = ["alias-analysis self-test", "cached objects unchanged across a call"]
RULE = ("self-test: ~30 synthetic methods (positive and negative in-place patterns) appended to the source of the tree "
        "under test, one extraction; dynamic: random histories (quick 40, thorough 150, x escalation) of props/c12.py, "
        "byte comparison of every object that stays in `_cached` / `_seq` / `_pit` across each call")

KERNELS = '''

def _b4_kernel_w(arr, v):
    for i in range(arr.size):
        arr[i] = v
    return arr


def _b4_kernel_c(arr, v):
    out = arr.copy()
    out[0] = v
    return out
'''

# name -> (body, expected cache key or None)
CASES = {
    # ---- positive ------------------------------------------------------------------------------------------------
    "p_aug_name": ("a = self.area\n a /= 2.0\n return a", "area"),
    "p_ravel_sub": ("r = self.rank.ravel()\n r[0] = 1", "rank"),
    "p_checkdata_none": ("d = self._check_data(None, 'strord')\n d[d > 1] = 0\n return d", "strord"),
    "p_checkdata_param": ("strord = self._check_data(strord, 'strord')\n strord[mask == False] = 0", "strord"),
    "p_copyto": ("np.copyto(self.distnc, 0)", "distnc"),
    "p_fill": ("u = self.idxs_us_main\n u.fill(0)", "idxs_us_main"),
    "p_sort_slice": ("s = self.idxs_seq[::-1]\n s.sort()", "_seq"),
    "p_out_kw": ("np.multiply(self.area, 2, out=self.area)", "area"),
    "p_out_pos": ("a = np.atleast_1d(self.area)\n np.add(a, 1, a)", "area"),
    "p_get_put": ("x = self._cached.get('rank')\n np.put(x, [0], 1)", "rank"),
    "p_reshape_augsub": ("x = self._cached['strord']\n x = x.reshape(-1)\n x[1:3] += 1", "strord"),
    "p_kernel": ("return _b4_kernel_w(self.idxs_us_main, 0)", "idxs_us_main"),
    "p_kernel_kw": ("nxt = self.idxs_us_main if mask is None else self.idxs_ds.copy()\n return _b4_kernel_w(v=0, arr=nxt)", "idxs_us_main"),
    "p_helper_param": ("self._b4_helper_w(self.rank)", "rank"),
    "p_helper_ret": ("self._b4_helper_get()[0] = 0", "area"),
    "p_branch": ("d = self.distnc if mask is None else self.distnc.copy()\n d[0] = 0", "distnc"),
    "p_memo_pit": ("self.idxs_pit[0] = 0", "_pit"),
    "p_ufunc_at": ("np.add.at(self.rank, mask, 1)", "rank"),
    "p_tuple": ("a, b = self.rank, np.zeros(3)\n a[0] = 1", "rank"),
    "p_loop": ("x = np.zeros(3)\n for i in range(2):\n  x[0] = i\n  x = self.area", "area"),
    "p_stream_order": ("so = self.stream_order()\n so[so < 2] = 0\n return so", "strord"),
    "p_asarray_flat": ("np.asarray(self.distnc).flat[0] = 1", "distnc"),
    # ---- negative ------------------------------------------------------------------------------------------------
    "n_copy": ("a = self.area.copy()\n a /= 2.0\n return a", None),
    "n_arith": ("a = self.area / 2\n a[0] = 1", None),
    "n_astype": ("r = self.rank.astype(np.int64)\n r[0] = 1", None),
    "n_checkdata_data": ("d = self._check_data(strord, 'data')\n d[0] = 1", None),
    "n_where": ("s = np.where(self.stream_order() > 1, 1, 0)\n s[0] = 5", None),
    "n_rebind_copy": ("u = self.idxs_us_main\n u = u.copy()\n u[0] = 1", None),
    "n_fancy": ("x = self.rank[self.rank > 0]\n x[0] = 1", None),
    "n_tuple": ("a, b = self.rank, np.zeros(3)\n b[0] = 1", None),
    "n_out_fresh": ("out = np.zeros(self.size)\n np.add(self.area.ravel(), 1, out=out)\n return out", None),
    "n_scalar_aug": ("d = self.distnc\n n = 0\n n += 1\n return d, n", None),
    "n_kernel_copy": ("return _b4_kernel_w(self.idxs_us_main.copy(), 0)", None),
    "n_kernel_nowrite": ("return _b4_kernel_c(self.idxs_us_main, 0)", None),
    "n_own_param": ("if strord is None:\n  strord = self.rank.copy()\n strord[0] = 1", None),
    "n_upstream_area": ("ua = self.upstream_area()\n ua[0] = 1", None),
}
HELPERS = '''
    def _b4_helper_w(self, x):
        x[0] = 1

    def _b4_helper_get(self):
        return np.atleast_1d(self.area)
'''


def _synthetic_tree():
    """copy of the package source of the tree under test with the synthetic methods appended; None if the class
    cannot be located (restructured source: site not comparable)"""
    src_dir = os.path.join(REPO, "pyflwdir")
    path = os.path.join(src_dir, "pyflwdir.py")
    src = open(path).read()
    tree = ast.parse(src)
    cls = next((n for n in tree.body if isinstance(n, ast.ClassDef) and n.name == "FlwdirRaster"), None)
    if cls is None:
        return None
    lines = src.split("\n")
    methods = [HELPERS]
    for name, (body, _) in CASES.items():
        b = "\n".join("        " + l.replace("\t", " ")[1:] if l.startswith(" ") else "        " + l for l in body.split("\n"))
        methods.append("    def _b4_%s(self, strord=None, mask=None):\n%s\n" % (name, b))
    new = "\n".join(lines[:cls.end_lineno]) + "\n\n" + "\n".join(methods) + "\n" + "\n".join(lines[cls.end_lineno:]) + KERNELS
    ast.parse(new)     # the synthetic source must be valid Python (harness bug otherwise)
    tmp = tempfile.mkdtemp(prefix="b4alias")
    os.makedirs(os.path.join(tmp, "pyflwdir"))
    for f in os.listdir(src_dir):
        if f.endswith(".py"):
            shutil.copy(os.path.join(src_dir, f), os.path.join(tmp, "pyflwdir", f))
    open(os.path.join(tmp, "pyflwdir", "pyflwdir.py"), "w").write(new)
    return tmp


def self_test(ctx):
    import extract_cache
    tmp = _synthetic_tree()
    if tmp is None:
        ctx.count("alias-selftest:class-not-found")
        return
    try:
        table = extract_cache.extract(tmp)
    finally:
        shutil.rmtree(tmp, ignore_errors=True)
    rows = {e["name"]: e for e in table if e["cls"] == "FlwdirRaster"}
    for name, (body, want) in CASES.items():
        ctx.evaluations += 1
        ctx.impl_validated += 1
        ctx.count("alias-selftest:" + ("positive" if want else "negative"))
        e = rows.get("_b4_" + name)
        got = sorted({w["target"] for w in e["inplace"]}) if e else None
        ok = got == ([want] if want else [])
        if not ok:
            ctx.fail({"op": "alias-analysis self-test", "case": name, "body": body}, "model",
                     f"alias analysis of extract_cache.py: synthetic method {name} should report in-place targets "
                     f"{[want] if want else []}, reported {got}")
    # the real methods of the tree must not be affected by the synthetic ones (same lists as the recorded protocol)
    real = {(e["cls"], e["name"]): e for e in table if not e["name"].startswith("_b4_")}
    p = os.path.join(os.path.dirname(os.path.abspath(__file__)), "..", "..", "lean", "PfVerif", "Generated", "cache_protocol.json")
    for e in json.load(open(p)):
        r = real.get((e["cls"], e["name"]))
        if r is not None and [w["target"] for w in r["inplace"]] != [w["target"] for w in e.get("inplace", [])]:
            ctx.fail({"op": "alias-analysis self-test", "method": e["cls"] + "." + e["name"]}, "model",
                     "in-place list of a real method changes when unrelated methods are appended to the class")


# ---------------------------------------------------------------------------------------------------------------
def _stored(f):
    out = {}
    for k, v in getattr(f, "_cached", {}).items():
        if isinstance(v, np.ndarray):
            out[k] = v
    for k in ("_seq", "_pit"):
        v = getattr(f, k, None)
        if isinstance(v, np.ndarray):
            out[k] = v
    return out


def run_history(c12, spec, table):
    from affine import Affine
    o = c12.Obj(spec["cls"], spec["ds"], tuple(spec["shape"]), np.dtype(spec["dtype"]).type, spec["cache"],
                Affine(*spec["transform"]), spec["latlon"], spec.get("area"), spec.get("area_dtype", "float64"))
    clsname = "FlwdirRaster" if spec["cls"] == "raster" else "Flwdir"
    checked = 0
    for step, (name, a) in enumerate(spec["ops"]):
        before = {k: (v, v.tobytes(), v.shape, v.dtype) for k, v in _stored(o.real).items()}
        c12.safe_apply(o, name, a)
        if name == "dumpload":
            continue       # a new object
        after = _stored(o.real)
        e = table.get((clsname, c12.METHOD_OF.get(name, name))) or {}
        predicted = {w["target"] for w in e.get("inplace", [])}
        for k, (v, raw, shp, dt) in before.items():
            if after.get(k) is not v:
                continue
            checked += 1
            if v.tobytes() != raw or v.shape != shp or v.dtype != dt:
                if k in predicted:
                    continue
                return checked, {"step": step, "op": name, "key": k,
                                 "what": f"the object stored under `{k}` was modified in place by {name} "
                                         f"(extracted protocol of {clsname}.{c12.METHOD_OF.get(name, name)} lists no in-place write on it)"}
    return checked, None


def dynamic(ctx):
    import props.c12 as c12
    import signal
    table = c12.load_table()
    nhist = (40 if ctx.tier == "quick" else 150) * ctx.escalate
    maxlen = 12 if ctx.tier == "quick" else 30
    for k in range(nhist):
        force = {"cache": True}
        if k < len(c12.STRATA):
            force = dict(c12.STRATA[k], cache=True)
        spec = c12.gen_spec(ctx.rng, ctx.tier, maxlen, force=force)
        ctx.evaluations += 1
        signal.signal(signal.SIGALRM, c12._alarm)
        signal.alarm(60)
        try:
            checked, fail = run_history(c12, spec, table)
        except c12.HistoryTimeout:
            ctx.count("alias-dynamic:timeout")     # termination is judged by props/c12.py on its own histories
            continue
        except ValueError as e:
            if "no pits found" in str(e) or "size" in str(e):
                ctx.count("ctor-rejected")
                continue
            raise
        finally:
            signal.alarm(0)
        ctx.impl_validated += 1
        ctx.count("alias-dynamic:stored-objects-compared", checked)
        if checked:
            import hashlib
            ctx.nontrivial.add(hashlib.sha1(("alias" + json.dumps(spec, sort_keys=True, default=str)).encode()).hexdigest())
        if fail is not None:
            # shrink: drop operations while the same key is still modified
            ops = list(spec["ops"])
            i = len(ops) - 1
            while i >= 0 and len(ops) > 1:
                cand = dict(spec, ops=ops[:i] + ops[i + 1:])
                try:
                    _, f2 = run_history(c12, cand, table)
                except Exception:  # noqa: BLE001
                    f2 = None
                if f2 is not None and f2["key"] == fail["key"]:
                    ops, fail = cand["ops"], f2
                i -= 1
            ctx.failures.append({"desc": dict(spec, ops=ops), "kind": "model", "what": fail["what"], "detail": fail})


def run(ctx):
    ctx.no_watchdog()
    if ctx.replay:
        return
    self_test(ctx)
    dynamic(ctx)
