"""C01 extension - the helper functions of the flow-direction formats that sit next to `from_array`:

* `core_d8._downstream_idx`, `core_ldd._downstream_idx`, `core_d8._upstream_idx`, `core_ldd._upstream_idx`
  (every cell of every generated raster), `ispit` / `isnodata` of the three formats (all 256 uint8 values,
  a window of int32 values), Lean ops `c01x.cells`, `c01x.codes`;
* `core.headwater_indices`, `core.confluence_indices` with and without `mask` (`c01x.degree`);
* `core_nextxy.read_nextxy` (file I/O, harness only: data identity and the transform of the bounding box).

Failure kinds: `spec` = the implementation's output is not what the property statement designates
(`spec.*` of the driver = `Spec.downOf`, `Spec.upOf`, `Spec.headwaters`, `Spec.confluences` over the hand-typed
code tables; plus checks made on the implementation's own outputs: the upstream list is exactly the set of
8-neighbours `j != i` with a direction code and `_downstream_idx(j) == i`, strictly increasing; the relation of
`_downstream_idx` to the graph `from_array` decodes); `model` = implementation != loop-for-loop Lean model.

`idx0` is passed as `np.intp`, the type Numba gives it: with the JIT disabled a Python-int `idx0` makes NumPy >= 2
evaluate `r0 + dr` in int8 (weak scalar promotion), an artefact of the interpreter mode, not of the kernel.

Case descriptions carry `fmt` / `shape` / `codes` so that `props/c01.py`, which dispatches every replay
description itself first, can process them too."""
import os
import tempfile
import warnings

import numpy as np
from common import canon_idx, exc_class, gen_shape, gen_raster_net, gen_funcgraph, ds_to_np, net_features
from props.c01 import rand_tab, TAB_STYLES, ALPHA, DIRS, NODATA, PITS

OPS = ["core_d8._downstream_idx", "core_ldd._downstream_idx", "core_d8._upstream_idx", "core_ldd._upstream_idx",
       "core_d8.ispit", "core_d8.isnodata", "core_ldd.ispit", "core_ldd.isnodata", "core_nextxy.ispit",
       "core_nextxy.isnodata", "core.headwater_indices", "core.confluence_indices", "core_nextxy.read_nextxy"]
RULE = ("C01 extension: every cell of random D8 / LDD rasters <= 56 cells (quick) / <= 400 (thorough), shapes incl. "
        "1x1, 1xN, Nx1, styles uniform / few-nodata / links-only / DEM-derived / all-pit / ambiguous / with illegal "
        "uint8 values; every (code, position class) of the 3x3, 1x3, 3x1 rasters; all 256 uint8 values and a window "
        "of int32 values for ispit / isnodata; loop-free, looping and not-closed index arrays with masks none / "
        "random / full / empty / uint8 for the degree queries; random (2, r, c) int32 files with dyadic bounding "
        "boxes for read_nextxy. non-trivial = >= 2 valid cells and >= 1 link / >= 1 confluence")

FT = {"d8": 1, "ldd": 2}


def _compat(desc, n=1):
    """keys `props/c01.py` needs to dispatch a replay description without crashing (see module docstring)"""
    desc.setdefault("fmt", "d8")
    desc.setdefault("shape", [1, max(1, n)])
    desc.setdefault("codes", [0] * max(1, n))
    return desc


def _idx(k, n):
    """-1 (core._mv) -> n; any other value outside the raster is kept recognisable"""
    k = int(k)
    if k == -1:
        return n
    if 0 <= k < n:
        return k
    return 10 ** 9 + abs(k)


# ----------------------------------------------------------------------------------------
# 1. per-cell helpers of the table formats
# ----------------------------------------------------------------------------------------
def run_cells(ctx, desc):
    from pyflwdir import core_d8, core_ldd
    fmt = desc["fmt"]
    core = {"d8": core_d8, "ldd": core_ldd}[fmt]
    r, c = desc["shape"]
    n = r * c
    codes = desc["codes"]
    data = np.array(codes, dtype=np.uint8).reshape(r, c)
    flat = data.ravel()
    shape = (int(r), int(c))
    down, up = [], []
    try:
        with warnings.catch_warnings():
            # int8 wrap-around inside core_ldd.drdc on illegal codes >= 128 (modelled: `wrap8`)
            warnings.simplefilter("ignore", RuntimeWarning)
            for i in range(n):
                down.append(_idx(core._downstream_idx(np.intp(i), flat, shape), n))
                up.append([int(x) for x in np.asarray(core._upstream_idx(np.intp(i), flat, shape)).ravel().tolist()])
    except Exception as e:  # noqa: BLE001 - the helpers never raise on a uint8 raster and a cell of it
        ctx.evaluations += 1
        ctx.fail(desc, "spec", f"core_{fmt}._downstream_idx/_upstream_idx raised {exc_class(e)} at cell {len(down)}: {e!r}"[:200])
        return
    legal = all(v in ALPHA[fmt] for v in codes)
    dec = None
    if legal:
        try:
            dec = canon_idx(core.from_array(data, dtype=np.int32)[0], n)
        except Exception:  # noqa: BLE001 - judged by props/c01.py
            dec = None
    nd, pits, dirs = NODATA[fmt], PITS[fmt], DIRS[fmt]
    for i, v in enumerate(codes):
        if v in dirs:
            rr, cc = i // c + dirs[v][0], i % c + dirs[v][1]
            if not (0 <= rr < r and 0 <= cc < c):
                ctx.count("x:link:off-raster")
            elif codes[rr * c + cc] == nd:
                ctx.count("x:link:into-nodata")
            else:
                ctx.count("x:link:ok")
        elif v in pits:
            ctx.count(f"x:pit:{fmt}:{v}")
        elif v == nd:
            ctx.count("x:nodata")
        else:
            ctx.count("x:illegal-code")

    def judge(ans):
        a = ans[0]
        if "__err__" in a:
            return [{"kind": "model", "what": "driver error " + str(a["__err__"])}]
        fs = []
        # _downstream_idx
        bad_spec = [i for i in range(n) if a["spec.defined"][i] == 1 and down[i] != a["spec.down"][i]]
        if bad_spec:
            i = bad_spec[0]
            fs.append({"kind": "spec", "what": f"core_{fmt}._downstream_idx: cell {i} (code {codes[i]}) is not the "
                       "table-designated neighbour / missing value off the raster", "cells": bad_spec[:8],
                       "impl": down, "spec": a["spec.down"]})
        if down != a["model.down"]:
            fs.append({"kind": "model", "what": f"core_{fmt}._downstream_idx: implementation != Lean model",
                       "impl": down, "model": a["model.down"]})
        # _upstream_idx
        def split(pre):
            out, pos = [], 0
            for ln in a[pre + ".len"]:
                out.append(a[pre][pos:pos + ln])
                pos += ln
            return out
        s_up, m_up = split("spec.up"), split("model.up")
        bad = [i for i in range(n) if up[i] != s_up[i]]
        if bad:
            i = bad[0]
            fs.append({"kind": "spec", "what": f"core_{fmt}._upstream_idx: cell {i}: returned list is not the list of "
                       "cells designating it (in loop order)", "cells": bad[:8], "impl": up[i], "spec": s_up[i]})
        if up != m_up:
            fs.append({"kind": "model", "what": f"core_{fmt}._upstream_idx: implementation != Lean model",
                       "impl": up, "model": m_up})
        # characterisation on the implementation's own outputs
        for i in range(n):
            ri, ci = divmod(i, c)
            want = [j for j in range(n) if j != i and abs(j // c - ri) <= 1 and abs(j % c - ci) <= 1
                    and codes[j] in dirs and down[j] == i]
            if up[i] != want:
                fs.append({"kind": "spec", "what": f"core_{fmt}._upstream_idx: cell {i}: list != increasing list of "
                           "8-neighbours j != i with a direction code and _downstream_idx(j) == i",
                           "impl": up[i], "expected": want})
                break
        # relation to the decoded graph of from_array (legal rasters)
        if dec is not None:
            for i, v in enumerate(codes):
                if v == nd:
                    ok = dec[i] == n
                elif v in pits:
                    ok = dec[i] == i and down[i] == i
                else:
                    rr, cc = i // c + dirs[v][0], i % c + dirs[v][1]
                    if not (0 <= rr < r and 0 <= cc < c):
                        ok = dec[i] == i and down[i] == n
                    elif codes[rr * c + cc] == nd:
                        ok = dec[i] == i and down[i] == rr * c + cc
                    else:
                        ok = dec[i] == down[i] == rr * c + cc
                if not ok:
                    fs.append({"kind": "spec", "what": f"core_{fmt}: cell {i} (code {v}): _downstream_idx and the decoded "
                               "idxs_ds of from_array are not related as the code tables say",
                               "down": down[i], "decoded": dec[i]})
                    break
        return fs

    nontriv = sum(1 for v in codes if v != nd) >= 2 and any(v in dirs for v in codes)
    ctx.add(desc, [("c01x.cells", {"ft": FT[fmt], "nrow": r, "ncol": c, "codes": codes})], judge, nontrivial=nontriv)


def enum_cells(rng):
    """every uint8 alphabet value (and two illegal ones) at every cell of the small shapes"""
    for fmt in ("d8", "ldd"):
        extra = [3, 129] if fmt == "d8" else [0, 10]
        for shape in [(3, 3), (1, 3), (3, 1), (1, 1), (2, 2)]:
            n = shape[0] * shape[1]
            for i in range(n):
                for v in ALPHA[fmt] + extra:
                    codes = rand_tab(rng, fmt, shape, rng.choice(["uniform", "few_nodata", "links"]))
                    codes[i] = v
                    yield {"op": "c01x.cells", "fmt": fmt, "shape": list(shape), "codes": codes, "enum": [i, v]}
    # LDD nodata code: drdc(255) = (-1, -9), on the raster only from column 9 on (ldd_downstream_nodata)
    yield {"op": "c01x.cells", "fmt": "ldd", "shape": [2, 10], "codes": [255] * 20}
    for _ in range(3):
        codes = rand_tab(rng, "ldd", (3, 11), "few_nodata")
        codes[rng.choice([20, 21, 31, 32])] = 255
        yield {"op": "c01x.cells", "fmt": "ldd", "shape": [3, 11], "codes": codes}


def gen_cells(rng, ctx, max_cells, max_side):
    fmt = rng.choice(["d8", "ldd"])
    u = rng.random()
    if u < 0.04:
        shape = rng.choice([(1, 1), (1, 2), (2, 1)])
    else:
        shape = gen_shape(rng, max_cells=max_cells, max_side=max_side)
    style = rng.choice(TAB_STYLES + ["links", "illegal", "illegal"])
    if style == "illegal":
        codes = rand_tab(rng, fmt, shape, rng.choice(["uniform", "few_nodata", "links"]))
        for _ in range(rng.randint(1, 4)):
            codes[rng.randrange(len(codes))] = rng.choice([3, 5, 6, 7, 9, 10, 12, 15, 17, 31, 33, 63, 65, 100, 127, 129,
                                                         200, 246, 248, 254, 0, 255, 247]) if fmt == "d8" else \
                rng.choice([0, 10, 11, 16, 32, 64, 100, 127, 128, 129, 200, 247, 254])
    else:
        codes = rand_tab(rng, fmt, shape, style)
    ctx.count(f"x:style:{fmt}:{style}")
    ctx.count("x:shape:" + ("1x1" if shape == (1, 1) else "1xN" if shape[0] == 1 else "Nx1" if shape[1] == 1 else "RxC"))
    return {"op": "c01x.cells", "fmt": fmt, "shape": list(shape), "codes": codes}


# ----------------------------------------------------------------------------------------
# 2. ispit / isnodata
# ----------------------------------------------------------------------------------------
def run_codes(ctx, desc):
    from pyflwdir import core_d8, core_ldd, core_nextxy
    u8, i32 = desc["u8"], desc["i32"]
    try:
        impl = {
            "d8.ispit": [int(bool(core_d8.ispit(np.uint8(v)))) for v in u8],
            "d8.isnodata": [int(bool(core_d8.isnodata(np.uint8(v)))) for v in u8],
            "ldd.ispit": [int(bool(core_ldd.ispit(np.uint8(v)))) for v in u8],
            "ldd.isnodata": [int(bool(core_ldd.isnodata(np.uint8(v)))) for v in u8],
            "xy.ispit": [int(bool(core_nextxy.ispit(np.int32(v)))) for v in i32],
            "xy.isnodata": [int(bool(core_nextxy.isnodata(np.int32(v)))) for v in i32],
        }
        # array form (vectorised use inside isvalid / the public API) where the function supports it
        au8, ai32 = np.array(u8, dtype=np.uint8), np.array(i32, dtype=np.int32)
        arr = {
            "d8.isnodata": [int(x) for x in np.asarray(core_d8.isnodata(au8)).tolist()],
            "ldd.ispit": [int(x) for x in np.asarray(core_ldd.ispit(au8)).tolist()],
            "ldd.isnodata": [int(x) for x in np.asarray(core_ldd.isnodata(au8)).tolist()],
            "xy.ispit": [int(x) for x in np.asarray(core_nextxy.ispit(ai32)).tolist()],
            "xy.isnodata": [int(x) for x in np.asarray(core_nextxy.isnodata(ai32)).tolist()],
        }
    except Exception as e:  # noqa: BLE001
        ctx.evaluations += 1
        ctx.fail(desc, "spec", f"ispit / isnodata raised {exc_class(e)}: {e!r}"[:200])
        return

    def judge(ans):
        a = ans[0]
        if "__err__" in a:
            return [{"kind": "model", "what": "driver error " + str(a["__err__"])}]
        fs = []
        for k, got in impl.items():
            vals = u8 if not k.startswith("xy") else i32
            if got != a["spec." + k]:
                w = [vals[j] for j in range(len(vals)) if got[j] != a["spec." + k][j]]
                fs.append({"kind": "spec", "what": f"{k}: not membership in the pit / nodata code set of the property "
                           f"statement for value(s) {w[:6]}", "impl": got, "spec": a["spec." + k]})
            if got != a["model." + k]:
                fs.append({"kind": "model", "what": f"{k}: implementation != Lean model", "impl": got, "model": a["model." + k]})
            if k in arr and arr[k] != got:
                fs.append({"kind": "spec", "what": f"{k}: array call differs from the scalar calls", "impl": arr[k], "scalar": got})
        return fs

    ctx.add(desc, [("c01x.codes", {"u8": u8, "i32": i32})], judge, nontrivial=True)


# ----------------------------------------------------------------------------------------
# 3. headwater_indices / confluence_indices
# ----------------------------------------------------------------------------------------
DT = {"int32": np.int32, "int64": np.int64, "uint32": np.uint32, "intp": np.intp}


def run_degree(ctx, desc):
    from pyflwdir import core
    ds = desc["ds"]
    n = len(ds)
    dtype = DT[desc["dtype"]]
    a = ds_to_np(ds, dtype)
    mv = a.dtype.type(-1) if np.issubdtype(dtype, np.signedinteger) else np.iinfo(dtype).max
    kw = {}
    if desc["dtype"] != "intp" or desc.get("pass_mv"):
        kw["mv"] = a.dtype.type(mv)
    mask = None
    if desc.get("mask") is not None:
        mask = np.array(desc["mask"], dtype=np.bool_ if desc.get("mask_dtype", "bool") == "bool" else np.uint8)
        kw["mask"] = mask
    try:
        head = core.headwater_indices(a, **kw)
        conf = core.confluence_indices(a, **kw)
        ok_dtype = head.dtype == a.dtype and conf.dtype == a.dtype
        head, conf = [int(x) for x in head.tolist()], [int(x) for x in conf.tolist()]
    except Exception as e:  # noqa: BLE001
        ctx.evaluations += 1
        ctx.fail(desc, "spec", f"headwater_indices / confluence_indices raised {exc_class(e)}: {e!r}"[:200])
        return
    ctx.count("x:degree:mask:" + ("none" if mask is None else desc.get("mask_kind", "given")))

    def judge(ans):
        r = ans[0]
        if "__err__" in r:
            return [{"kind": "model", "what": "driver error " + str(r["__err__"])}]
        fs = []
        inflow = r["spec.inflow"]
        closed = r["closed"] == [1]
        if head != r["spec.head"]:
            fs.append({"kind": "spec", "what": "headwater_indices: not the increasing list of network cells without an "
                       "(admitted) inflowing cell", "impl": head, "spec": r["spec.head"]})
        want_conf = r["spec.conf"] if closed else [i for i in range(n) if inflow[i] >= 2]
        if conf != want_conf:
            fs.append({"kind": "spec", "what": "confluence_indices: not the increasing list of cells with >= 2 "
                       "(admitted) inflowing cells", "impl": conf, "spec": want_conf})
        if head != r["model.head"] or conf != r["model.conf"]:
            fs.append({"kind": "model", "what": "headwater_indices / confluence_indices: implementation != Lean model",
                       "impl": [head, conf], "model": [r["model.head"], r["model.conf"]]})
        if not ok_dtype:
            fs.append({"kind": "spec", "what": "headwater_indices / confluence_indices: result dtype differs from idxs_ds.dtype"})
        # degree characterisation recomputed by the harness
        m = [True] * n if mask is None else [bool(x) for x in desc["mask"]]
        deg = [sum(1 for j in range(n) if j != i and ds[j] == i and m[j]) for i in range(n)]
        if inflow != deg:
            fs.append({"kind": "model", "what": "harness and Lean disagree on the inflow counts", "lean": inflow, "harness": deg})
        return fs

    feat = net_features(ds)
    ctx.add(desc, [("c01x.degree", {"ds": ds, "mask": None if mask is None else [int(bool(x)) for x in desc["mask"]]})],
            judge, nontrivial=feat["valid"] >= 2 and feat["confluences"] >= 1)


def gen_degree(rng, ctx, max_cells):
    u = rng.random()
    if u < 0.7:
        ds, shape, fam = gen_raster_net(rng, max_cells=max_cells, loopfree=rng.random() < 0.7)
    elif u < 0.85:
        ds, fam = gen_funcgraph(rng, rng.randint(2, max_cells)), "funcgraph"
    else:
        # not closed: some cells of the network drain into a missing cell
        ds, fam = gen_funcgraph(rng, rng.randint(3, max_cells), p_nodata=0.3), "not-closed"
        n = len(ds)
        missing = [i for i in range(n) if ds[i] == n]
        valid = [i for i in range(n) if ds[i] != n]
        if missing:
            for _ in range(rng.randint(1, 4)):
                ds[rng.choice(valid)] = rng.choice(missing)
    n = len(ds)
    ctx.count("x:degree:family:" + fam)
    desc = {"op": "c01x.degree", "ds": list(ds), "dtype": rng.choice(["intp", "intp", "int32", "int64", "uint32"]),
            "pass_mv": rng.random() < 0.3}
    v = rng.random()
    if v < 0.35:
        pass
    elif v < 0.75:
        p = rng.choice([0.3, 0.5, 0.8])
        desc["mask"], desc["mask_kind"] = [int(rng.random() < p) for _ in range(n)], "random"
    elif v < 0.85:
        desc["mask"], desc["mask_kind"] = [1] * n, "full"
    elif v < 0.92:
        desc["mask"], desc["mask_kind"] = [0] * n, "empty"
    else:   # thresholded inflow count: a "stream" mask
        nup = [sum(1 for j in range(n) if ds[j] == i and j != i) for i in range(n)]
        desc["mask"], desc["mask_kind"] = [int(x >= 1) for x in nup], "streams"
    if desc.get("mask") is not None:
        desc["mask_dtype"] = rng.choice(["bool", "bool", "uint8"])
    return _compat(desc, n)


# ----------------------------------------------------------------------------------------
# 4. read_nextxy (file I/O: harness only)
# ----------------------------------------------------------------------------------------
def run_read_nextxy(ctx, desc):
    from pathlib import Path
    from pyflwdir import core_nextxy
    r, c = desc["nrow"], desc["ncol"]
    data = np.array(desc["data"], dtype=np.int32).reshape(2, r, c)
    west, south, east, north = desc["bbox"]
    fd, fn = tempfile.mkstemp(suffix=".bin", prefix="pf_nextxy_")
    os.close(fd)
    try:
        data.tofile(fn)
        try:
            got, tr = core_nextxy.read_nextxy(Path(fn) if desc.get("path") else fn, r, c, list(desc["bbox"]))
        except Exception as e:  # noqa: BLE001
            ctx.evaluations += 1
            ctx.fail(desc, "spec", f"read_nextxy raised {exc_class(e)} on a well-formed file: {e!r}"[:200])
            return
    finally:
        os.remove(fn)
    fs = []
    if not (isinstance(got, np.ndarray) and got.shape == (2, r, c) and got.dtype == np.int32 and np.array_equal(got, data)):
        fs.append({"kind": "spec", "what": "read_nextxy: data read back differs from the data written (shape, dtype or values)"})
    xres, yres = (east - west) / c, (south - north) / r
    coef = tuple(float(x) for x in tuple(tr)[:6])
    if coef != (xres, 0.0, west, 0.0, yres, north):
        fs.append({"kind": "spec", "what": "read_nextxy: transform is not (xres, 0, west, 0, yres, north) with "
                   "xres = (east - west) / ncol, yres = (south - north) / nrow", "impl": coef,
                   "expected": (xres, 0.0, west, 0.0, yres, north)})
    else:
        # the bounding box is mapped onto the raster: origin = (west, north), far corner = (east, south); yres < 0
        x0, y0 = tr * (0, 0)
        x1, y1 = tr * (c, r)
        tol = 1e-9 * max(1.0, abs(west), abs(east), abs(south), abs(north))
        if (x0, y0) != (west, north) or abs(x1 - east) > tol or abs(y1 - south) > tol or not (tr.e < 0 < tr.a):
            fs.append({"kind": "spec", "what": "read_nextxy: transform does not map the raster onto the bounding box",
                       "corners": [x0, y0, x1, y1]})
    ctx.count("x:read_nextxy")
    ctx.add(desc, [], lambda ans: fs, nontrivial=True)


def gen_read_nextxy(rng):
    r, c = rng.choice([(1, 1), (1, 4), (3, 1), (2, 2), (2, 3), (4, 4), (3, 8), (5, 7), (8, 16)])
    data = [rng.choice([-9999, -9, -10, 0, 1, 2, 3, c, r, 2 ** 31 - 1, -2 ** 31]) if rng.random() < 0.5 else rng.randint(-20, 40)
            for _ in range(2 * r * c)]
    west = rng.choice([-180.0, -10.5, 0.0, 3.25, 100.0])
    north = rng.choice([90.0, 60.5, 0.0, -12.25])
    east = west + c * rng.choice([0.25, 0.5, 1.0, 0.1, 1 / 3])
    south = north - r * rng.choice([0.25, 0.5, 1.0, 0.1, 1 / 3])
    return _compat({"op": "c01x.read_nextxy", "nrow": r, "ncol": c, "data": data, "bbox": [west, south, east, north],
                    "path": rng.random() < 0.5})


# ----------------------------------------------------------------------------------------
def dispatch(ctx, desc):
    op = desc["op"]
    if op == "c01x.cells":
        run_cells(ctx, desc)
    elif op == "c01x.codes":
        run_codes(ctx, desc)
    elif op == "c01x.degree":
        run_degree(ctx, desc)
    elif op == "c01x.read_nextxy":
        run_read_nextxy(ctx, desc)


def run(ctx):
    rng = ctx.rng
    if getattr(ctx, "replay", None):
        d = ctx.replay.get("failure", {}).get("desc") or ctx.replay.get("desc")
        if d:
            if str(d.get("op", "")).startswith("c01x."):
                dispatch(ctx, d)
            return
    quick = ctx.tier == "quick"
    esc = ctx.escalate
    max_cells, max_side = (56, 9) if quick else (400, 20)

    # 1. ispit / isnodata: every uint8 value, a window of int32 values around the codes and random ones
    dispatch(ctx, _compat({"op": "c01x.codes", "u8": list(range(256)),
                           "i32": list(range(-12, 3)) + [-9999, -9998, -10000, 9999, 2 ** 31 - 1, -2 ** 31]}))
    for _ in range((2 if quick else 20) * esc):
        dispatch(ctx, _compat({"op": "c01x.codes", "u8": [rng.randrange(256) for _ in range(16)],
                               "i32": [rng.choice([-9, -10, -9999, rng.randint(-10 ** 4, 10 ** 4)]) for _ in range(16)]}))

    # 2. every (code, cell) of the small shapes: all in the thorough tier / after a broken obligation, a third otherwise
    enum = list(enum_cells(rng))
    if quick and esc == 1:
        enum = [d for d in enum if "enum" not in d or rng.random() < 0.33]
    for d in enum:
        ctx.count("x:enum:" + d["fmt"])
        dispatch(ctx, d)
        if len(ctx.cases) > 400:
            ctx.flush()

    # 3. random rasters, every cell
    for _ in range((160 if quick else 1600) * esc):
        if quick or rng.random() < 0.8:
            d = gen_cells(rng, ctx, 56, 9)
        else:
            d = gen_cells(rng, ctx, max_cells, max_side)
        dispatch(ctx, d)
        if len(ctx.cases) > 400:
            ctx.flush()

    # 4. degree queries
    for _ in range((120 if quick else 1200) * esc):
        dispatch(ctx, gen_degree(rng, ctx, 56 if quick or rng.random() < 0.8 else max_cells))
        if len(ctx.cases) > 400:
            ctx.flush()

    # 5. read_nextxy
    for _ in range((12 if quick else 120) * esc):
        dispatch(ctx, gen_read_nextxy(rng))
