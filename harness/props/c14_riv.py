"""C14 extension `riv` - three operators that were outside the Lean model:

* `rivers.classify_estuary` / `Flwdir.classify_estuaries`  (op `c14x_estuary`)
* the Manning branch of `Flwdir.river_depth`                (op `c14x_river_depth`)
* `dem.slope`                                               (op `c14x_slope`)

Input discipline. Fields are dyadic rationals (multiples of 1/4 resp. 1/2) stored as float64 (or
int32 / float32 where the arithmetic stays exact) and sent to the Lean driver as integers over the
common scale; thresholds (`min_convergence`, `min_rivslp`, `8*|xres|`) are sent as the exact
rational value of the float the implementation receives. Under that discipline every float
operation the implementation performs before a comparison is exact or a correctly rounded quotient
of exact operands (rounding is monotone, and no quotient of small integers lies within an ulp of a
threshold without being equal to it), so the comparisons of the code and of the exact model agree.
The transcendental pieces are parameters: the power law of Manning's equation is evaluated by the
harness with the very numpy expression of the implementation on every candidate slope and handed to
the model as a table of float64 bit patterns (ordered tokens); `math.hypot` (and, for latlon=True,
`gis_utils.degree_metres_x/y` per row) is applied by the harness to the model's exact `dzdx`, `dzdy`.
"""
from fractions import Fraction
import math
import warnings
import numpy as np
from common import (gen_raster_net, gen_forest, mk_raster, mk_vector, canon_idx, ints, net_features,
                    max_path_len, topo_of, ds_to_np)

OPS = ["classify_estuaries", "rivers.classify_estuary", "river_depth(manning)", "dem.slope",
       "dem.slope(latlon)"]
RULE = ("estuary / river_depth: random loop-free networks (D8 from DEMs, forests; Flwdir and FlwdirRaster) "
        "<= 56 cells (quick) / <= 150 (thorough) with quarter-metre fields; slope: rasters <= 8x8 (quick) / 14x14 "
        "(thorough) incl. 1xN / Nx1, 0-40% nodata, planar (Pythagorean) and random surfaces, six cell sizes")


def drv_err(a):
    for x in a:
        if "__err__" in x:
            return [{"kind": "model", "what": "c14_riv: driver error " + x["__err__"]}]
    return None


def frac_nd(x):
    f = Fraction(float(x))
    return f.numerator, f.denominator


class Net:
    pass


def make_net(rng, max_cells):
    N = Net()
    if rng.random() < 0.35:
        n = rng.randint(3, min(max_cells, 40))
        N.ds = gen_forest(rng, n, fanin_bias=rng.choice([0.0, 0.5]))
        N.shape = (n,)
        N.fam = "vector"
        N.flw = mk_vector(N.ds)
        N.raster = False
    else:
        N.ds, N.shape, N.fam = gen_raster_net(rng, max_cells=max_cells)
        N.flw = mk_raster(N.ds, N.shape)
        N.raster = True
    N.n = len(N.ds)
    feat = net_features(N.ds)
    N.nontriv = feat["valid"] >= 2 and feat["confluences"] >= 1 and max_path_len(N.ds) >= 3
    N.seq = canon_idx(N.flw.idxs_seq, N.n)
    N.base = {"ds": N.ds, "shape": list(N.shape), "class": "FlwdirRaster" if N.raster else "Flwdir"}
    return N


def along(rng, N, start, steps, up_sign=1):
    """field defined along the network: value(pit) = start(), value(i) = value(ds i) + up_sign*step()"""
    out = [0] * N.n
    for i in topo_of(N.ds):
        out[i] = start() if N.ds[i] == i else out[N.ds[i]] + up_sign * steps()
    for i in range(N.n):
        if N.ds[i] == N.n:
            out[i] = start()
    return out


# ---------------------------------------------------------------------------------------------
# classify_estuary
# ---------------------------------------------------------------------------------------------
K4 = 4  # fields are multiples of 1/4


def case_estuary(ctx, rng, N):
    from pyflwdir import rivers
    n = N.n
    mode = rng.choice(["river", "river", "river", "random"])
    if mode == "river":
        # distance to the outlet grows upstream by 0, 1/2, 1, 2, 5 m; width shrinks upstream mostly
        rivdst = along(rng, N, lambda: rng.choice([0, 0, 0, 4]), lambda: rng.choice([0, 2, 4, 4, 8, 8, 20]))
        rivwth = along(rng, N, lambda: rng.randint(40, 120), lambda: rng.choice([-4, -1, 0, 1, 1, 2, 2, 4, 8, 16]), -1)
    else:
        rivdst = [rng.randint(0, 12) for _ in range(n)]
        rivwth = [rng.randint(0, 12) for _ in range(n)]
    elev = [rng.randint(-8, 8) for _ in range(n)]
    max_elev = rng.choice([0, 0, 2, -4, 8])
    mc = rng.choice([1e-2, 1e-2, 0.25, 0.5, 1.0, 0.0, 2.0, 0.125])
    mcn, mcd = frac_nd(mc)
    f = lambda v: (np.array(v, dtype=np.float64) / K4).reshape(N.shape)
    kernel = rng.random() < 0.3
    use_distnc = (not kernel) and (not N.raster) and rng.random() < 0.1
    desc = {"op": "rivers.classify_estuary" if kernel else "classify_estuaries", **N.base, "rivdst4": rivdst,
            "rivwth4": rivwth, "elevtn4": elev, "max_elevtn4": max_elev, "min_convergence": mc,
            "rivdst_given": not use_distnc}
    try:
        if kernel:
            seq = topo_of(N.ds)
            # harness' own breadth-first order (differs from idxs_seq when that was built with method='sort')
            pits_np = N.flw.idxs_pit
            out = rivers.classify_estuary(N.flw.idxs_ds, np.array(seq, dtype=N.flw.idxs_ds.dtype), pits_np,
                                          rivdst=f(rivdst).ravel(), rivwth=f(rivwth).ravel(), elevtn=f(elev).ravel(),
                                          max_elevtn=max_elev / K4, min_convergence=mc)
        else:
            seq = N.seq
            pits_np = N.flw.idxs_pit
            if use_distnc:
                rivdst = [int(x) * K4 for x in ints(N.flw.distnc)]
                out = N.flw.classify_estuaries(f(elev), f(rivwth), min_convergence=mc, max_elevtn=max_elev / K4)
            else:
                out = N.flw.classify_estuaries(f(elev), f(rivwth), f(rivdst), min_convergence=mc,
                                               max_elevtn=max_elev / K4)
    except Exception as e:  # noqa: BLE001
        ctx.fail(desc, "spec", f"{desc['op']}: raised {type(e).__name__}: {str(e)[:160]} on a valid input")
        return
    impl = ints(out)
    pits = canon_idx(pits_np, n)
    dtype_ok = out.dtype == np.int8 and out.size == n
    ctx.count("op:" + desc["op"])
    ctx.count("estuary:cells=1", sum(1 for x in impl if x == 1))
    ctx.count("estuary:cells=2", sum(1 for x in impl if x == 2))
    ctx.count(f"estuary:mc={mc}")

    def judge(ans):
        e = drv_err(ans)
        if e:
            return e
        a = ans[0]
        fs = []
        if a["topo"] != [1]:
            fs.append({"kind": "spec", "what": "classify_estuary: cell order is not downstream-first (C03 hypothesis)"})
        if a["pits_ok"] != [1]:
            fs.append({"kind": "spec", "what": "classify_estuary: idxs_pit is not the list of pits in index order"})
        if a["cover"] != [1]:
            fs.append({"kind": "spec", "what": "classify_estuary: the cell order does not hold every cell of the network "
                       "(C03 hypothesis; hcov of estModel_eq_spec)"})
        if a["model"] != a["spec"]:
            # proved impossible under topo, cover, pits_ok (estModel_eq_spec): a difference means the build is not the proved one
            bad = [i for i in range(n) if a["model"][i] != a["spec"][i]]
            if a["topo"] == [1] and a["cover"] == [1] and a["pits_ok"] == [1]:
                fs.append({"kind": "model", "what": f"classify_estuary: Lean model != Lean oracle at cells {bad[:6]} although the "
                           "hypotheses of estModel_eq_spec hold"})
        bad = [i for i in range(n) if impl[i] != a["spec"][i]]
        if bad:
            fs.append({"kind": "spec", "what": f"{desc['op']}: class differs from the flow-path definition (0 outside; estuary = "
                       f"outlet with elevtn <= max_elevtn or link test passes and downstream cell is estuary; 2 iff an inflowing "
                       f"link fails the test) at cells {bad[:6]}", "impl": impl, "spec": a["spec"]})
        if impl != a["model"]:
            bad = [i for i in range(n) if impl[i] != a["model"][i]]
            fs.append({"kind": "model", "what": f"{desc['op']}: implementation != Lean model at cells {bad[:6]}",
                       "impl": impl, "model": a["model"]})
        if not dtype_ok:
            fs.append({"kind": "spec", "what": f"{desc['op']}: documented int8 array of the network size, got {out.dtype} size {out.size}"})
        return fs
    ctx.add(desc, [("c14x_estuary", {"ds": N.ds, "seq": seq, "pits": pits, "elevtn": elev, "max_elev": max_elev,
                                     "rivdst": rivdst, "rivwth": rivwth, "mc_num": mcn, "mc_den": mcd})],
            judge, nontrivial=N.nontriv and any(x == 1 for x in impl) and any(x == 2 for x in impl))


def estuary_regressions(ctx):
    """hand-made corner cases: ties dw/dx == min_convergence (strict >), dx == 0 (no division), rivdst[ds] == 0
    with dw <= 0, a confluence where one branch fails (2) and the other continues (1 upstream of a 2),
    a headwater estuary (stays 1), a pit above max_elevtn"""
    cases = [
        # chain 3->2->1->0, outlet at distance 0
        ([0, 0, 1, 2], [0, 4, 8, 12], [40, 39, 38, 38], [0, 0, 0, 0], 0, 0.25),   # dw/dx = 1/4 : tie -> fails at link 1->0?  (rivdst[0]=0, dw=1>0)
        ([0, 0, 1, 2], [0, 4, 8, 12], [40, 38, 36, 35], [0, 0, 0, 0], 0, 0.25),
        ([0, 0, 1, 2], [0, 0, 0, 0], [40, 41, 41, 30], [0, 0, 0, 0], 0, 1e-2),    # dx = 0 everywhere
        ([0, 0, 0, 1, 1, 2], [0, 4, 4, 8, 8, 8], [80, 60, 80, 40, 60, 79], [-4, 0, 0, 0, 0, 0], 0, 1e-2),
        ([0, 0, 1, 3, 3], [4, 8, 12, 0, 4], [40, 30, 20, 40, 30], [4, 0, 0, -4, 0], 0, 1e-2),  # pit 0 above max_elevtn
    ]
    for ds, rivdst, rivwth, elev, max_elev, mc in cases:
        n = len(ds)
        flw = mk_vector(ds)
        seq = canon_idx(flw.idxs_seq, n)
        pits = canon_idx(flw.idxs_pit, n)
        f = lambda v: np.array(v, dtype=np.float64) / K4
        out = flw.classify_estuaries(f(elev), f(rivwth), f(rivdst), min_convergence=mc, max_elevtn=max_elev / K4)
        impl = ints(out)
        mcn, mcd = frac_nd(mc)
        ctx.count("regression:estuary")

        def judge(ans, impl=impl, n=n):
            e = drv_err(ans)
            if e:
                return e
            a = ans[0]
            fs = []
            if impl != a["spec"]:
                fs.append({"kind": "spec", "what": "classify_estuaries: class differs from the flow-path definition", "impl": impl, "spec": a["spec"]})
            if impl != a["model"]:
                fs.append({"kind": "model", "what": "classify_estuaries: implementation != Lean model", "impl": impl, "model": a["model"]})
            return fs
        ctx.add({"op": "classify_estuaries", "ds": ds, "class": "Flwdir", "rivdst4": rivdst, "rivwth4": rivwth,
                 "elevtn4": elev, "max_elevtn4": max_elev, "min_convergence": mc},
                [("c14x_estuary", {"ds": ds, "seq": seq, "pits": pits, "elevtn": elev, "max_elev": max_elev,
                                   "rivdst": rivdst, "rivwth": rivwth, "mc_num": mcn, "mc_den": mcd})],
                judge, nontrivial=False)


# ---------------------------------------------------------------------------------------------
# river_depth, Manning branch
# ---------------------------------------------------------------------------------------------
def bits(a):
    return [int(x) for x in np.asarray(a, dtype=np.float64).view(np.int64).ravel().tolist()]


def case_river_depth(ctx, rng, N):
    n = N.n
    # water surface rises upstream by 0..2 m per link (sometimes falls), links are 0, 1/2, 3/4, 1, 2, 3, 5 m long
    zs = along(rng, N, lambda: rng.randint(-4, 8), lambda: rng.choice([-1, 0, 0, 1, 1, 2, 3, 4, 8]))
    rivdst = along(rng, N, lambda: rng.choice([0, 0, 4]), lambda: rng.choice([0, 2, 3, 4, 4, 8, 8, 12, 20]))
    if rng.random() < 0.15:
        # a link with slope exactly -9999 (the in-band nodata value of the slope field)
        cand = [i for i in range(n) if N.ds[i] not in (i, n)]
        if cand:
            i = rng.choice(cand)
            d = N.ds[i]
            rivdst[i] = rivdst[d] + 4
            zs[i] = zs[d] - 9999 * 4
    min_slp = rng.choice([1e-5, 1e-5, 0.25, 0.5, 1 / 1024, 1.0])
    min_dph = rng.choice([1, 1, 0.5, 2, 0])
    q = np.array([rng.choice([0.0, 1.0, 12.5, 100.0, 2500.0, rng.random() * 1000]) for _ in range(n)]).reshape(N.shape)
    w = np.array([rng.choice([1.0, 5.0, 30.0, 250.0, 1 + rng.random() * 100]) for _ in range(n)]).reshape(N.shape)
    manning = rng.choice([0.03, 0.03, 0.05, None])
    if manning is None:
        manning_arg = np.array([rng.choice([0.02, 0.03, 0.1]) for _ in range(n)]).reshape(N.shape)
    else:
        manning_arg = manning
    f = lambda v: (np.array(v, dtype=np.float64) / K4).reshape(N.shape)
    desc = {"op": "river_depth(manning)", **N.base, "zs4": zs, "rivdst4": rivdst, "min_rivslp": min_slp,
            "min_rivdph": min_dph, "qbankfull": q.ravel().tolist(), "rivwth": w.ravel().tolist(),
            "manning": manning if manning is not None else manning_arg.ravel().tolist()}
    kw = {}
    if min_slp != 1e-5 or rng.random() < 0.5:
        kw["min_rivslp"] = min_slp
    if min_dph != 1 or rng.random() < 0.5:
        kw["min_rivdph"] = min_dph
    if manning != 0.03 or rng.random() < 0.5:
        kw["manning"] = manning_arg
    try:
        with warnings.catch_warnings():
            warnings.simplefilter("ignore")
            out = N.flw.river_depth(q, w, zs=f(zs), rivdst=f(rivdst), **kw)
    except Exception as e:  # noqa: BLE001
        ctx.fail(desc, "spec", f"river_depth: raised {type(e).__name__}: {str(e)[:160]} on a valid input")
        return
    impl = bits(out)
    shape_ok = tuple(out.shape) == tuple(N.shape)
    # theorems replayed on the implementation (no model involved): river_depth_ge_min,
    # river_depth_mono_discharge, river_depth_anti_width. Scaling by 4 is exact in binary floating point and moves
    # the power law by the factor 4**0.6, far outside rounding, so the comparisons are exact statements.
    fs0 = []
    try:
        with warnings.catch_warnings():
            warnings.simplefilter("ignore")
            out_q = N.flw.river_depth(q * 4, w, zs=f(zs), rivdst=f(rivdst), **kw)
            out_w = N.flw.river_depth(q, w * 4, zs=f(zs), rivdst=f(rivdst), **kw)
    except Exception as e:  # noqa: BLE001
        ctx.fail(desc, "spec", f"river_depth: raised {type(e).__name__}: {str(e)[:160]} on a valid input (4*qbankfull / 4*rivwth)")
        return
    o, oq, ow = (np.asarray(x, dtype=np.float64).ravel() for x in (out, out_q, out_w))
    inside = np.array([N.ds[i] != n for i in range(n)], dtype=bool)
    ctx.count("river_depth:replay-monotone")
    # river_depth_anti_zs replayed on the implementation: zs2 = zs + 1 m per step to the pit raises the drop of
    # EVERY link by 1 m (dz' = dz + 1 >= dz, rivdst unchanged), so every cell must use a slope at least as large
    # and must not get deeper - also the cells that take their slope from upstream through fillnodata. Values
    # stay quarter metres (exact); a slope that grows at all grows by >= 1/20, far outside rounding of the
    # power law. Excluded by the theorem's hypothesis: a link whose slope is exactly the in-band nodata -9999.
    steps = [0] * n
    for i in range(n):
        j, k = i, 0
        while N.ds[j] not in (j, n) and k <= n:
            j, k = N.ds[j], k + 1
        steps[i] = k if N.ds[i] != n else 0
    nd_link = any(N.ds[i] not in (i, n) and rivdst[i] - rivdst[N.ds[i]] >= K4 and
                  (zs[i] - zs[N.ds[i]] == -9999 * (rivdst[i] - rivdst[N.ds[i]]) or
                   zs[i] - zs[N.ds[i]] + K4 == -9999 * (rivdst[i] - rivdst[N.ds[i]])) for i in range(n))
    if not nd_link:
        zs2 = [zs[i] + K4 * steps[i] for i in range(n)]
        try:
            with warnings.catch_warnings():
                warnings.simplefilter("ignore")
                out_z = N.flw.river_depth(q, w, zs=f(zs2), rivdst=f(rivdst), **kw)
        except Exception as e:  # noqa: BLE001
            ctx.fail(desc, "spec", f"river_depth: raised {type(e).__name__}: {str(e)[:160]} on a valid input (zs + 1 m per link)")
            return
        oz = np.asarray(out_z, dtype=np.float64).ravel()
        ctx.count("river_depth:replay-anti-zs")
        if inside.any():
            if not np.all(oz[inside] <= o[inside]):
                bad = [int(i) for i in np.flatnonzero(inside & ~(oz <= o))[:6]]
                fs0.append({"kind": "spec", "what": f"river_depth(manning): depth increased when the water-surface drop of every "
                            f"link was raised by 1 m, at cells {bad} (river_depth_anti_zs)", "impl": o.tolist(),
                            "impl_zs2": oz.tolist(), "zs2_4": zs2})
            ctx.count("river_depth:replay-anti-zs-strictly-shallower-cells", int(np.sum(oz[inside] < o[inside])))
    if inside.any():
        if not np.all(o[inside] >= float(min_dph)):
            bad = [int(i) for i in np.flatnonzero(inside & ~(o >= float(min_dph)))[:6]]
            fs0.append({"kind": "spec", "what": f"river_depth(manning): depth below min_rivdph inside the network at cells {bad} "
                        f"(river_depth_ge_min)", "impl": o.tolist()})
        if not np.all(oq[inside] >= o[inside]):
            bad = [int(i) for i in np.flatnonzero(inside & ~(oq >= o))[:6]]
            fs0.append({"kind": "spec", "what": f"river_depth(manning): depth decreased when qbankfull was multiplied by 4, at cells "
                        f"{bad} (river_depth_mono_discharge)", "impl": o.tolist(), "impl_4q": oq.tolist()})
        if not np.all(ow[inside] <= o[inside]):
            bad = [int(i) for i in np.flatnonzero(inside & ~(ow <= o))[:6]]
            fs0.append({"kind": "spec", "what": f"river_depth(manning): depth increased when rivwth was multiplied by 4, at cells "
                        f"{bad} (river_depth_anti_width)", "impl": o.tolist(), "impl_4w": ow.tolist()})
        ctx.count("river_depth:replay-strictly-deeper-cells", int(np.sum(oq[inside] > o[inside])))
    # the parameter: power law of every candidate slope at every cell, by the implementation's own expression
    cands = {Fraction(float(min_slp))}
    for i in range(n):
        d = N.ds[i]
        if d in (i, n):
            continue
        dx = rivdst[i] - rivdst[d]
        if dx > 0:
            cands.add(Fraction(zs[i] - zs[d], dx))
    cands = sorted(cands)
    man_flat = np.full(n, manning_arg, dtype=np.float64) if manning is not None else manning_arg.ravel()
    tab = []
    with warnings.catch_warnings():
        warnings.simplefilter("ignore")
        for v in cands:
            if v <= 0:
                tab += [-1] * n
                continue
            rivslp = np.full(n, float(v))
            dph = ((man_flat * q.ravel()) / (np.sqrt(rivslp) * w.ravel())) ** (3 / 5)
            tab += bits(dph)
    S = 1
    for v in cands:
        S = S * v.denominator // math.gcd(S, v.denominator)
    mn, md = frac_nd(min_slp)
    args = {"ds": N.ds, "seq": N.seq, "zs": zs, "rivdst": rivdst, "K": K4, "S": S, "min_num": mn, "min_den": md,
            "cand_num": [v.numerator for v in cands], "cand_den": [v.denominator for v in cands], "pw": tab,
            "min_dph": bits([float(min_dph)])[0], "nd_out": bits([-9999.0])[0]}
    ctx.count("op:river_depth(manning)")
    ctx.count("river_depth:candidate-slopes", len(cands))

    def judge(ans):
        e = drv_err(ans)
        if e:
            return e
        a = ans[0]
        fs = list(fs0)
        if a["topo"] != [1]:
            fs.append({"kind": "spec", "what": "river_depth: cell order is not downstream-first (C03 hypothesis)"})
        if a["exact"] != [1]:
            return fs + [{"kind": "model", "what": "river_depth: slope scale S does not make the model's divisions exact (harness)"}]
        if a["cover"] != [1]:
            fs.append({"kind": "spec", "what": "river_depth: the cell order does not hold every cell of the network "
                       "(C03 hypothesis; hcov of river_slope_eq_spec)"})
        if a["hyp"] != [1]:
            fs.append({"kind": "model", "what": "river_depth: harness sent S, K, min_rivslp outside the hypotheses of "
                       "river_slope_eq_spec (S, K, den > 0, min_rivslp > -9999)"})
        mslope = [Fraction(p, r) for p, r in zip(a["model.slope.num"], a["model.slope.den"])]
        sslope = [Fraction(p, r) for p, r in zip(a["spec.slope.num"], a["spec.slope.den"])]
        # spec: depth from the flow-path definition of the slope, through the same parameter table
        idx = {v: k for k, v in enumerate(cands)}
        nd_out = args["nd_out"]
        exp = []
        for i in range(n):
            if N.ds[i] == n:
                exp.append(nd_out)
            elif sslope[i] in idx:
                exp.append(max(args["min_dph"], tab[idx[sslope[i]] * n + i]))
            else:
                exp.append(None)
        bad = [i for i in range(n) if impl[i] != exp[i]]
        if bad:
            fs.append({"kind": "spec", "what": f"river_depth(manning): depth is not max(min_rivdph, power law of the slope given by "
                       f"the flow-path definition [own dz/dx if dx >= 1, else largest of the nearest upstream slopes, else "
                       f"min_rivslp; at least min_rivslp]) / -9999 outside the network, at cells {bad[:6]}",
                       "impl": [float(x) for x in np.asarray(out).ravel().tolist()],
                       "spec_slope": [str(s) for s in sslope]})
        if impl != a["model.depth"] or mslope != sslope:
            bad = [i for i in range(n) if impl[i] != a["model.depth"][i] or mslope[i] != sslope[i]]
            fs.append({"kind": "model", "what": f"river_depth(manning): implementation != Lean model at cells {bad[:6]}",
                       "model_slope": [str(s) for s in mslope], "spec_slope": [str(s) for s in sslope]})
        if not shape_ok or out.dtype != np.float64:
            fs.append({"kind": "spec", "what": f"river_depth: result shape/dtype {out.shape} {out.dtype}"})
        return fs
    filled = sum(1 for i in range(n) if N.ds[i] not in (i, n) and rivdst[i] - rivdst[N.ds[i]] < K4)
    ctx.count("river_depth:links-shorter-than-1m", filled)
    ctx.add(desc, [("c14x_river_depth", args)], judge, nontrivial=N.nontriv and filled > 0)


def river_depth_errors(ctx):
    ctx.count("op:river_depth(errors)")
    ctx.evaluations += 1
    flw = mk_vector([0, 0, 1])
    try:
        flw.river_depth(np.ones(3), np.ones(3), rivslp=np.ones(3), method="chezy")
        got = "returns"
    except ValueError:
        got = "ValueError"
    except Exception as e:  # noqa: BLE001
        got = type(e).__name__
    if got != "ValueError":
        ctx.fail({"op": "river_depth", "method": "chezy"}, "spec", f"unknown method must raise ValueError, got {got}")


# ---------------------------------------------------------------------------------------------
# dem.slope
# ---------------------------------------------------------------------------------------------
def gen_surface(rng, nrow, ncol):
    kind = rng.choice(["random", "random", "plane", "plane", "flat", "steps"])
    if kind == "random":
        return kind, [rng.randint(-10, 40) for _ in range(nrow * ncol)]
    if kind == "flat":
        k = rng.randint(-5, 20)
        return kind, [k] * (nrow * ncol)
    if kind == "steps":
        k = rng.randint(0, 5)
        return kind, [k + 3 * (c // 2) for r in range(nrow) for c in range(ncol)]
    a, b = rng.choice([(3, 4), (4, 3), (-3, 4), (6, 8), (5, 12), (0, 2), (1, 0), (1, 1), (2, -7)])
    k = rng.randint(-5, 20)
    return kind, [a * c + b * r + k for r in range(nrow) for c in range(ncol)]


def case_slope(ctx, rng, max_side):
    from pyflwdir import dem, gis_utils
    from affine import Affine
    u = rng.random()
    if u < 0.1:
        nrow, ncol = 1, rng.randint(1, max_side + 2)
    elif u < 0.2:
        nrow, ncol = rng.randint(1, max_side + 2), 1
    else:
        nrow, ncol = rng.randint(2, max_side), rng.randint(2, max_side)
    n = nrow * ncol
    kind, elev2 = gen_surface(rng, nrow, ncol)       # elevation in half metres
    KE = 2
    nd_val = rng.choice([-9999.0, -9999.0, -1.0, 0.0, 3.0])
    p_nd = rng.choice([0.0, 0.0, 0.1, 0.4])
    nd2 = int(nd_val * KE)
    elev2 = [nd2 if rng.random() < p_nd else (v + 1 if v == nd2 else v) for v in elev2]
    dt = rng.choice([np.float64, np.float64, np.float32, np.int32])
    xres, yres = rng.choice([(0.125, -0.125), (1.0, -1.0), (0.5, -0.25), (3.0, -4.0), (30.0, -30.0), (2.5, 2.5),
                             (0.1, -0.1)])
    latlon = rng.random() < 0.25
    if latlon:
        xres, yres = rng.choice([(0.5, -0.5), (1 / 120, -1 / 120), (0.25, 0.25)])
    if dt == np.float32 and latlon:
        dt = np.float64
    if dt == np.float32:
        # float32 rasters: interpreted numpy keeps float32 / python-float in float32, so only power-of-two cell sizes
        xres, yres = rng.choice([(0.125, -0.125), (1.0, -1.0), (0.5, -0.25)])
    if dt == np.int32:
        # integer rasters hold whole metres
        elev2 = [v if v == nd2 else 2 * (v // 2) for v in elev2]
    north = rng.choice([50.0, 10.0, -30.0]) if latlon else 50.0
    if latlon and yres > 0:
        north = -40.0
    transform = Affine(xres, 0.0, 5.0, 0.0, yres, north)
    arr = (np.array(elev2, dtype=np.float64) / KE).astype(dt).reshape(nrow, ncol)
    desc = {"op": "dem.slope" + ("(latlon)" if latlon else ""), "shape": [nrow, ncol], "elevtn2": elev2, "nodata": nd_val,
            "dtype": np.dtype(dt).name, "res": [xres, yres], "north": north, "surface": kind}
    try:
        out = dem.slope(arr, nd_val, latlon, transform)
        shift = rng.choice([1, 7, -3, 100])
        arr2 = arr.copy()
        arr2[arr != nd_val] += shift
        clash = bool(np.any(arr2[arr != nd_val] == nd_val))
        out2 = None if clash else dem.slope(arr2, nd_val, latlon, transform)
    except Exception as e:  # noqa: BLE001
        ctx.fail(desc, "spec", f"dem.slope: raised {type(e).__name__}: {str(e)[:160]} on a valid input")
        return
    impl = [float(x) for x in out.ravel().tolist()]
    x8 = Fraction(float(8 * abs(xres)))
    y8 = Fraction(float(8 * abs(yres)))
    fx = 1 / (x8 * KE)
    fy = 1 / (y8 * KE)
    if latlon:
        degx = [float(gis_utils.degree_metres_x(north + (r + 0.5) * yres)) for r in range(nrow)]
        degy = [float(gis_utils.degree_metres_y(north + (r + 0.5) * yres)) for r in range(nrow)]
    nd32 = float(np.float32(nd_val))
    ctx.count("op:" + desc["op"])
    ctx.count("slope:surface=" + kind)
    ctx.count("slope:nodata-cells", sum(1 for v in elev2 if v == nd2))
    fs0 = []
    if out.dtype != np.float32 or out.shape != arr.shape:
        fs0.append({"kind": "spec", "what": f"dem.slope: result {out.dtype} {out.shape}, expected float32 of the input shape"})
    # theorems replayed on the implementation (no model involved)
    for i in range(n):
        if elev2[i] == nd2 and impl[i] != nd32:
            fs0.append({"kind": "spec", "what": f"dem.slope: nodata cell {i} -> {impl[i]}, not nodata (slope_nodata)"})
            break
    if out2 is not None and not np.array_equal(out, out2, equal_nan=True):
        bad = [int(i) for i in np.flatnonzero(out.ravel() != out2.ravel())[:6]]
        fs0.append({"kind": "spec", "what": f"dem.slope: adding the constant {shift} to every elevation changed the slope at "
                    f"cells {bad} (slope_add_const)", "impl": impl})
    if kind == "flat" and any(impl[i] != 0.0 for i in range(n) if elev2[i] != nd2):
        fs0.append({"kind": "spec", "what": "dem.slope: non-zero slope on a flat surface (slope_flat)", "impl": impl})

    def judge(ans):
        e = drv_err(ans)
        if e:
            return e
        a = ans[0]
        fs = list(fs0)
        exp_model, exp_spec = [], []
        for src, dst in (("model", exp_model), ("spec", exp_spec)):
            for i in range(n):
                if elev2[i] == nd2:
                    dst.append(nd32)
                    continue
                dzdx = float(Fraction(a[src + ".gx"][i]) * fx)
                dzdy = float(Fraction(a[src + ".gy"][i]) * fy)
                if latlon:
                    r = i // ncol
                    v = math.hypot(dzdx / degx[r], dzdy / degy[r])
                else:
                    v = math.hypot(dzdx, dzdy)
                dst.append(float(np.float32(v)))
        bad = [i for i in range(n) if impl[i] != exp_spec[i]]
        if bad:
            fs.append({"kind": "spec", "what": f"dem.slope: differs from hypot of the 3x3 finite differences (weights 1 2 1, missing / "
                       f"outside cells = centre value, / 8|res|) at cells {bad[:6]}", "impl": impl, "spec": exp_spec})
        nd_flags = [1 if v == nd2 else 0 for v in elev2]
        if impl != exp_model or a["model.nd"] != nd_flags:
            bad = [i for i in range(n) if impl[i] != exp_model[i] or a["model.nd"][i] != nd_flags[i]]
            fs.append({"kind": "model", "what": f"dem.slope: implementation != Lean model at cells {bad[:6]}", "impl": impl,
                       "model": exp_model})
        # exact Pythagorean gradients: the model's own exact hypot (no parameter)
        if not latlon:
            for i in range(n):
                if elev2[i] != nd2 and a["model.exact"][i] == 1:
                    dzdx = Fraction(a["model.gx"][i]) * fx
                    dzdy = Fraction(a["model.gy"][i]) * fy
                    if float(dzdx) == dzdx and float(dzdy) == dzdy:
                        v = float(np.float32(float(Fraction(a["model.num"][i], a["model.den"][i]))))
                        if impl[i] != v:
                            fs.append({"kind": "model", "what": f"dem.slope: exact (Pythagorean) slope of the model {v} != "
                                       f"implementation {impl[i]} at cell {i}"})
                            break
        return fs
    xn, xd = fx.numerator, fx.denominator
    yn, yd = fy.numerator, fy.denominator
    ctx.add(desc, [("c14x_slope", {"nrow": nrow, "ncol": ncol, "elev": elev2, "nodata": nd2, "xn": xn, "xd": xd,
                                   "yn": yn, "yd": yd})], judge,
            nontrivial=nrow >= 3 and ncol >= 3 and kind != "flat")


def run(ctx):
    rng = ctx.rng
    estuary_regressions(ctx)
    river_depth_errors(ctx)
    quick = ctx.tier == "quick"
    nnet = (110 if quick else 2500) * ctx.escalate
    max_cells = 56 if quick else 150
    for k in range(nnet):
        N = make_net(rng, max_cells)
        ctx.count("riv:family:" + N.fam)
        case_estuary(ctx, rng, N)
        if rng.random() < 0.5:
            case_estuary(ctx, rng, N)
        case_river_depth(ctx, rng, N)
        case_slope(ctx, rng, 8 if quick else 14)
        case_slope(ctx, rng, 8 if quick else 14)
        if len(ctx.cases) > 400:
            ctx.flush()
