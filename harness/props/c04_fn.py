"""C04_fn - translator tie for single-loop sweep kernels (`harness/extract_fn.py`, fragment 2 ->
`lean/PfVerif/Generated/Sweeps.lean`, obligations `gen_*_eq_model` in `Props/C04_fn.lean`).

(a) **translator self-test** (trusted code, tested on every run): a synthetic module with every construct of the sweep
    fragment (forward / reversed / `range` loops, one and two written arrays, `continue`, `elif`, augmented writes,
    `np.full` / `np.zeros` / `.copy()`, `.shape` / `.size`, optional mask, index arithmetic, a Lean-keyword name) is
    translated, the emitted defs are *evaluated by Lean itself* (`lake env lean --run`; the compiled driver never
    imports `Generated`) on random small arrays and compared with Python's evaluation of the same source; functions
    outside the fragment must be REFUSED. A failure raises (BROKEN, exit 2) - never a VIOLATION.
(b) **generated defs of the real kernels vs the real kernels** (interpreted, NUMBA_DISABLE_JIT) on ~100 random small
    networks, in the same Lean run (`model` failure on a difference: the generated text is not the function).
(c) **differential** through the driver (`c04fn.sweeps`, `c04fn.scans`): real kernels vs the hand-written models
    (`model.*`) and vs independent declarative definitions (`spec.*`: brute-force catchment sum, walk to the pit, walk
    to the first valid value, brute-force inflow count, closed form of `upstream_sum`; `main_upstream` is judged by a
    declarative argmax condition in the harness). implementation != spec -> `spec` failure (replayable failing input),
    == spec but != model -> `model` failure.
A kernel that is absent from the tree under check is counted and skipped.
"""
import inspect
import os
import subprocess
import sys
import warnings

import numpy as np

HERE = os.path.dirname(os.path.abspath(__file__))
sys.path.insert(0, os.path.dirname(HERE))
import extract_fn  # noqa: E402
from extract_fn import ARRI, ARRN, INT, NAT, OPTB, SEQ  # noqa: E402
from common import LEAN_DIR, REPO, ds_to_np, gen_forest, gen_funcgraph, net_features  # noqa: E402

OPS = ["streams.accuflux", "streams.accuflux_ds", "core.fillnodata_upstream", "core.upstream_count",
       "arithmetics.upstream_sum", "core.main_upstream", "harness/extract_fn.py sweep fragment (self-test)"]
RULE = ("C04_fn: translator self-test (3 synthetic sweep kernels x 25 random array inputs evaluated by Lean vs Python, "
        "33 functions outside the fragment that must be refused); generated defs of the 6 real kernels vs the real "
        "kernels on ~100 random small networks (Lean-evaluated); differential on random forests (n <= 14, random "
        "topological orders, int / float fields, nodata in {-9999, 0, -1} on ~25 % of the cells, seed-label fields) "
        "and random functional graphs incl. loops for the scans, against model.* and the declarative spec.*. "
        "non-trivial = network with >= 1 confluence")

_NETK = {"idxs_ds": ARRN, "seq": SEQ, "data": ARRI, "nodata": INT}

# ----------------------------------------------------------------------------------------
# (a) translator self-test
# ----------------------------------------------------------------------------------------
SYN_OK = '''
import numpy as np

def w_fwd(idxs_ds, seq, data, nodata):
    """forward sweep: copy, local scalars (one named like a Lean keyword), elif, continue, augmented writes"""
    out = data.copy()
    n = idxs_ds.size
    for i in seq:
        d = idxs_ds[i]
        if d == i:
            continue
        elif data[d] == nodata or i >= n:
            out[i] = nodata
            continue
        at = out[d] * 2
        at -= data[i] // 3
        out[i] += at % 7
        out[i] *= -1
        pass
    return out

def w_rev(idxs_ds, seq, data, nodata, mv):
    """reversed sweep: two written arrays (values / indices), np.zeros(.shape), np.full(.size, mv), tuple return"""
    acc = np.zeros(data.shape, dtype=data.dtype)
    last = np.full(idxs_ds.size, mv, dtype=idxs_ds.dtype)
    k = data.size
    for idx0 in seq[::-1]:
        idx_ds = idxs_ds[idx0]
        if idx_ds != mv and idx_ds != idx0:
            if data[idx0] != nodata:
                acc[idx_ds] = acc[idx_ds] + max(acc[idx0], data[idx0])
            last[idx_ds] = idx0
        else:
            acc[idx0] -= 1
    return acc, last, k + 1

def w_range(idxs_ds, vals, mask=None):
    """range loop: optional mask, index arithmetic, conditional expression, min, int()"""
    cnt = np.full(idxs_ds.size, -1, dtype=np.int64)
    half = idxs_ds.size // 2
    for i in range(idxs_ds.size):
        j = idxs_ds[(i + half) % idxs_ds.size]
        ok = mask is None or mask[i]
        if ok and not (mask is not None and mask[j]):
            cnt[j] = vals[i] if vals[i] > cnt[j] else cnt[j] + 1
        w = min(i * 2, j)
        cnt[w % idxs_ds.size] += int(vals[j]) - 1
    return cnt
'''
SYN_OK_SPECS = [("w_fwd", _NETK), ("w_rev", dict(_NETK, mv=NAT)),
                ("w_range", {"idxs_ds": ARRN, "vals": ARRI, "mask": OPTB})]

SYN_BAD = '''
import numpy as np
_K = 3

def helper(x):
    return x

def b_nested(idxs_ds, seq, data, nodata):
    out = data.copy()
    for i in seq:
        for j in seq:
            out[i] += data[j]
    return out

def b_while(idxs_ds, seq, data, nodata):
    out = data.copy()
    for i in seq:
        j = i
        while idxs_ds[j] != j:
            j = idxs_ds[j]
        out[i] = data[j]
    return out

def b_noloop(idxs_ds, seq, data, nodata):
    out = data.copy()
    return out

def b_append(idxs_ds, seq, data, nodata):
    lst = []
    for i in seq:
        lst.append(i)
    return lst

def b_slice(idxs_ds, seq, data, nodata):
    out = data.copy()
    for i in seq[1:]:
        out[i] = 0
    return out

def b_step2(idxs_ds, seq, data, nodata):
    out = data.copy()
    for i in seq[::2]:
        out[i] = 0
    return out

def b_call(idxs_ds, seq, data, nodata):
    out = data.copy()
    for i in seq:
        out[i] = helper(data[i])
    return out

def b_param_write(idxs_ds, seq, data, nodata):
    out = data.copy()
    for i in seq:
        data[i] = 0
        out[i] = 1
    return out

def b_alias(idxs_ds, seq, data, nodata):
    out = data
    for i in seq:
        out[i] = 0
    return out

def b_carried(idxs_ds, seq, data, nodata):
    out = data.copy()
    s = 0
    for i in seq:
        s += data[i]
        out[i] = s
    return out

def b_break(idxs_ds, seq, data, nodata):
    out = data.copy()
    for i in seq:
        if data[i] == nodata:
            break
        out[i] = 0
    return out

def b_return_in_loop(idxs_ds, seq, data, nodata):
    out = data.copy()
    for i in seq:
        out[i] = 0
        return out
    return out

def b_two_loops(idxs_ds, seq, data, nodata):
    out = data.copy()
    for i in seq:
        out[i] = 0
    for i in seq:
        out[i] = 1
    return out

def b_for_else(idxs_ds, seq, data, nodata):
    out = data.copy()
    for i in seq:
        out[i] = 0
    else:
        pass
    return out

def b_neg_index(idxs_ds, seq, data, nodata):
    out = data.copy()
    for i in seq:
        out[-1] = data[i]
    return out

def b_nat_sub(idxs_ds, seq, data, nodata):
    out = data.copy()
    for i in seq:
        out[i - 1] = data[i]
    return out

def b_value_as_index(idxs_ds, seq, data, nodata):
    out = data.copy()
    for i in seq:
        out[data[i]] = 1
    return out

def b_stmt_after_loop(idxs_ds, seq, data, nodata):
    out = data.copy()
    for i in seq:
        out[i] = 0
    out[0] = 1
    return out

def b_float(idxs_ds, seq, data, nodata):
    out = data.copy()
    for i in seq:
        out[i] = 0.5
    return out

def b_enumerate(idxs_ds, seq, data, nodata):
    out = data.copy()
    for k, i in enumerate(seq):
        out[i] = 0
    return out

def b_read_before_assign(idxs_ds, seq, data, nodata):
    out = data.copy()
    for i in seq:
        if data[i] == nodata:
            t = 1
        out[i] = t
    return out

def b_loopvar_shadow(idxs_ds, seq, data, nodata):
    out = data.copy()
    for nodata in seq:
        out[nodata] = 0
    return out

def b_fancy(idxs_ds, seq, data, nodata):
    out = data.copy()
    out[seq] = 0
    for i in seq:
        out[i] += 1
    return out

def b_truediv(idxs_ds, seq, data, nodata):
    out = data.copy()
    for i in seq:
        out[i] = data[i] / 2
    return out

def b_mixed_cmp(idxs_ds, seq, data, nodata):
    out = data.copy()
    for i in seq:
        if data[i] == i:
            out[i] = 0
    return out

def b_store_index(idxs_ds, seq, data, nodata):
    out = data.copy()
    for i in seq:
        out[i] = i
    return out

def b_np_other(idxs_ds, seq, data, nodata):
    out = np.ones(data.size, dtype=data.dtype)
    for i in seq:
        out[i] = 0
    return out

def b_global(idxs_ds, seq, data, nodata):
    out = data.copy()
    for i in seq:
        out[i] = _K
    return out

def b_tuple_target(idxs_ds, seq, data, nodata):
    out = data.copy()
    for i in seq:
        a, b = data[i], nodata
        out[i] = a
    return out

def b_range2(idxs_ds, seq, data, nodata):
    out = data.copy()
    for i in range(1, data.size):
        out[i] = 0
    return out

def b_no_write(idxs_ds, seq, data, nodata):
    out = data.copy()
    for i in seq:
        t = data[i]
    return out

def b_rebind_array(idxs_ds, seq, data, nodata):
    out = data.copy()
    for i in seq:
        out = data.copy()
        out[i] = 0
    return out

def b_truthy(idxs_ds, seq, data, nodata):
    out = data.copy()
    for i in seq:
        if data[i]:
            out[i] = 0
    return out
'''
SYN_BAD_NAMES = [l.split("(")[0][4:] for l in SYN_BAD.splitlines() if l.startswith("def b_")]

LEAN_MAIN_PRELUDE = '''
class Fmt (α : Type) where fmt : α → String
instance : Fmt Int := ⟨toString⟩
instance : Fmt Nat := ⟨toString⟩
instance : Fmt Bool := ⟨fun b => if b then "1" else "0"⟩
instance {α : Type} [Fmt α] : Fmt (Array α) := ⟨fun a => " ".intercalate (a.toList.map Fmt.fmt)⟩
instance {α β : Type} [Fmt α] [Fmt β] : Fmt (α × β) := ⟨fun p => Fmt.fmt p.1 ++ " | " ++ Fmt.fmt p.2⟩
'''


def lint(x):
    x = int(x)
    return f"({x})" if x < 0 else str(x)


def larg(kind, v):
    """Lean literal of an argument of the given kind"""
    if kind == ARRI:
        return "(#[" + ", ".join(lint(x) for x in v) + "] : Array Int)"
    if kind == ARRN:
        return "(#[" + ", ".join(str(int(x)) for x in v) + "] : Array Nat)"
    if kind == SEQ:
        return "([" + ", ".join(str(int(x)) for x in v) + "] : List Nat)"
    if kind == OPTB:
        if v is None:
            return "(none : Option (Array Bool))"
        return "(some (#[" + ", ".join("true" if x else "false" for x in v) + "] : Array Bool))"
    if kind == NAT:
        return f"({int(v)} : Nat)"
    return f"({lint(v)} : Int)"


def flat(v):
    """python result -> list of int lists (one per returned component)"""
    if isinstance(v, tuple):
        return [x for c in v for x in flat(c)]
    if isinstance(v, np.ndarray):
        return [[int(x) for x in v.ravel().tolist()]]
    if isinstance(v, (bool, np.bool_)):
        return [[int(bool(v))]]
    return [[int(v)]]


def lean_eval(defs_text, calls):
    """calls: [lean expression text] -> list (per call) of int lists (per component)"""
    lines = [f"  IO.println (\"R \" ++ Fmt.fmt ({c}))" for c in calls]
    chunks = [lines[i:i + 40] for i in range(0, len(lines), 40)] or [[]]
    body = LEAN_MAIN_PRELUDE
    for k, ch in enumerate(chunks):
        body += f"def part{k} : IO Unit := do\n" + "\n".join(ch or ["  pure ()"]) + "\n"
    body += "def main : IO Unit := do\n" + "\n".join(f"  part{k}" for k in range(len(chunks))) + "\n"
    path = os.path.join(LEAN_DIR, f".sw_eval_{os.getpid()}.lean")
    with open(path, "w") as fh:
        fh.write(defs_text + body)
    try:
        p = subprocess.run(["lake", "env", "lean", "--run", path], cwd=LEAN_DIR, stdout=subprocess.PIPE,
                           stderr=subprocess.STDOUT, timeout=600)
    finally:
        os.remove(path)
    out = p.stdout.decode(errors="replace")
    if p.returncode != 0:
        return None, out[-1500:]
    res = [l[2:] for l in out.split("\n") if l.startswith("R ") or l == "R"]
    if len(res) != len(calls):
        return None, f"{len(res)} answers for {len(calls)} calls: " + out[-500:]
    return [[[int(t) for t in part.split()] for part in l.split("|")] for l in res], ""


def rand_topo(rng, ds):
    """a random downstream-first order of the cells that reach a pit"""
    n = len(ds)
    ups = [[] for _ in range(n)]
    for i, d in enumerate(ds):
        if d != n and d != i:
            ups[d].append(i)
    front = [i for i in range(n) if ds[i] == i]
    seq = []
    while front:
        k = rng.randrange(len(front)) if rng.random() < 0.7 else 0
        c = front.pop(k)
        seq.append(c)
        front.extend(ups[c])
    return seq


def rand_field(rng, n, nodata, p_nd=0.25, lo=-5, hi=9):
    return [nodata if rng.random() < p_nd else rng.randint(lo, hi) for _ in range(n)]


def synthetic(ctx):
    """-> (lean defs text in namespace Syn, calls, expected); raises RuntimeError when the refusal test fails"""
    rng = ctx.rng
    text, status = extract_fn.translate_sweep_source(SYN_OK, "syn.py", [(n, n, k) for n, k in SYN_OK_SPECS])
    bad = [n for n, r in status.items() if r is not None]
    if bad:
        raise RuntimeError(f"extract_fn sweep self-test: supported synthetic kernels were refused: "
                           f"{[(n, status[n]) for n in bad]}")
    _, st2 = extract_fn.translate_sweep_source(SYN_BAD, "syn.py", [(n, n, _NETK) for n in SYN_BAD_NAMES])
    accepted = [n for n in SYN_BAD_NAMES if st2[n] is None]
    if accepted:
        raise RuntimeError(f"extract_fn sweep self-test: functions outside the fragment were translated: {accepted}")
    # fragment 1 must keep refusing loops, fragment 2 straight-line functions
    _, st3 = extract_fn.translate_source(SYN_OK, "syn.py", [("w_fwd", "w_fwd", {})])
    if st3["w_fwd"] is None:
        raise RuntimeError("extract_fn self-test: the straight-line fragment accepted a loop")
    ctx.count("sw:selftest:refused", len(SYN_BAD_NAMES) + 1)
    env = {}
    exec(compile(SYN_OK, "<syn>", "exec"), env)
    calls, expected = [], []
    for name, kinds in SYN_OK_SPECS:
        params = list(inspect.signature(env[name]).parameters)
        for _ in range(25):
            n = rng.randint(1, 9)
            ds = [rng.randrange(n) for _ in range(n)]
            seq = rng.sample(range(n), rng.randint(0, n))
            nodata = rng.choice([-9, 0, 3])
            vals = {"idxs_ds": ds, "seq": seq, "data": rand_field(rng, n, nodata, 0.3, -40, 40), "nodata": nodata,
                    "mv": n, "vals": [rng.randint(-30, 30) for _ in range(n)],
                    "mask": None if rng.random() < 0.4 else [rng.random() < 0.5 for _ in range(n)]}
            if name == "w_rev":   # some missing downstream cells (only compared with mv, never subscripted)
                vals["idxs_ds"] = [n if rng.random() < 0.2 else d for d in ds]
            py = []
            for p in params:
                k = kinds.get(p, INT)
                v = vals[p]
                py.append(np.array(v, dtype=np.int64) if k in (ARRI, ARRN, SEQ) else
                          (None if v is None else np.array(v, dtype=bool)) if k == OPTB else int(v))
            want = env[name](*py)
            calls.append("Syn." + name + " " + " ".join(larg(kinds.get(p, INT), vals[p]) for p in params))
            expected.append(flat(want))
            ctx.count("sw:selftest:call:" + name)
    lean = "namespace Syn\nopen Pf.Generated.Sw\n" + text + "\nend Syn\n"
    return lean, calls, expected


REAL = {  # lean name -> (module, python name)
    "accuflux": ("streams", "accuflux"), "accuflux_ds": ("streams", "accuflux_ds"),
    "fillnodata_upstream": ("core", "fillnodata_upstream"), "upstream_count": ("core", "upstream_count"),
    "upstream_sum": ("arithmetics", "upstream_sum"), "main_upstream": ("core", "main_upstream"),
}


def kernel(lean):
    import pyflwdir  # noqa: F401
    import importlib
    mod = importlib.import_module("pyflwdir." + REAL[lean][0])
    return getattr(mod, REAL[lean][1], None)


def call_real(lean, ds, seq, data, nodata, dtype, mask=None, upamin=0):
    """the real kernel on a canonical network (ds[i] = n = missing) -> list of ints (indices canonicalised) or None"""
    f = kernel(lean)
    if f is None:
        return None
    n = len(ds)
    idxs_ds = ds_to_np(ds, np.intp)
    mv = np.intp(-1)
    arr = np.array(data, dtype=dtype)
    nd = arr.dtype.type(nodata)
    sq = np.array(seq, dtype=np.intp)
    with warnings.catch_warnings():
        warnings.simplefilter("ignore")
        if lean in ("accuflux", "accuflux_ds", "fillnodata_upstream"):
            out = f(idxs_ds, sq, arr, nd)
        elif lean == "upstream_count":
            out = f(idxs_ds, mv=mv, mask=None if mask is None else np.array(mask, dtype=bool))
        elif lean == "upstream_sum":
            out = f(idxs_ds, arr, nd, mv=mv)
        else:
            out = f(idxs_ds, arr, arr.dtype.type(upamin), mv=mv)
            return [n if int(x) < 0 or int(x) >= n else int(x) for x in out]
    res = []
    for x in np.asarray(out).ravel().tolist():
        if float(x) != int(x):
            return ["non-integer " + repr(x)]
        res.append(int(x))
    return res


def gen_net(ctx, loops=False):
    rng = ctx.rng
    n = rng.randint(2, 14)
    if loops and rng.random() < 0.4:
        ds = gen_funcgraph(rng, n)
        kind = "funcgraph"
    else:
        ds = gen_forest(rng, n, fanin_bias=rng.choice([0.0, 0.0, 0.5]))
        kind = "forest"
    nodata = rng.choice([-9999, -9999, 0, -1])
    if rng.random() < 0.25:    # seed labels (the `basins` use of fillnodata_upstream): few non-zero cells
        nodata = 0
        data = [rng.randint(1, 4) if (ds[i] == i or rng.random() < 0.1) else 0 for i in range(n)]
        kind += ":labels"
    else:
        data = rand_field(rng, n, nodata)
    dtype = rng.choice(["int64", "int32", "float64", "float32"])
    mask = None if rng.random() < 0.5 else [rng.random() < 0.6 for _ in range(n)]
    return {"ds": ds, "data": data, "nodata": nodata, "dtype": dtype, "mask": mask,
            "upamin": rng.choice([0, 0, 2, -3]), "kind": kind}


def real_calls(ctx, status):
    """random networks for the translated real kernels -> (calls, expected, descs)"""
    calls, expected, descs = [], [], []
    for lean in REAL:
        if status.get(lean, 1) is not None or kernel(lean) is None:
            ctx.count("sw:gen:not-comparable:" + lean)
    for _ in range(100 * min(ctx.escalate, 2)):
        d = gen_net(ctx, loops=True)
        ds, n = d["ds"], len(d["ds"])
        seq = rand_topo(ctx.rng, ds)
        args = {"idxs_ds": ds, "seq": seq, "data": d["data"], "nodata": d["nodata"], "mv": n, "mask": d["mask"],
                "uparea": d["data"], "upa_min": d["upamin"]}
        for lean, _file, _py, kinds in extract_fn.SWEEPS:
            if status.get(lean, 1) is not None or kernel(lean) is None:
                continue
            params = list(inspect.signature(kernel(lean)).parameters)
            if any(p not in args for p in params):
                ctx.count("sw:gen:not-comparable:" + lean)
                continue
            want = call_real(lean, ds, seq, d["data"], d["nodata"], d["dtype"], d["mask"], d["upamin"])
            calls.append("Pf.Generated.Sw." + lean + " " + " ".join(larg(kinds.get(p, INT), args[p]) for p in params))
            expected.append([want])
            descs.append({"op": "c04fn.gen", "kernel": lean, **d, "seq": seq})
            ctx.count("sw:gen:" + lean)
    return calls, expected, descs


def run_translator(ctx):
    text, status = extract_fn.render_sweeps(REPO)
    for k, v in status.items():
        ctx.count("sw:extract:" + k + (":translated" if v is None else ":REFUSED"))
        if v is not None:
            ctx.notes.append(f"extract_fn refused sweep kernel {k}: {v}")
    syn_defs, calls_s, exp_s = synthetic(ctx)
    calls_r, exp_r, descs = real_calls(ctx, status)
    rows, err = lean_eval(text + syn_defs, calls_s + calls_r)
    if rows is None:
        rows_s, err_s = lean_eval("namespace Pf.Generated.Sw\n" + extract_fn.SW_PRELUDE + "end Pf.Generated.Sw\n" + syn_defs,
                                  calls_s)
        if rows_s is None:
            raise RuntimeError("extract_fn sweep self-test: the synthetic translation does not run in Lean:\n" + err_s)
        rows = rows_s + [None] * len(calls_r)
        ctx.fail({"op": "c04fn.gen", "what": "generated defs of the real kernels"}, "model",
                 "Generated/Sweeps.lean text does not elaborate / run in Lean: " + err[-600:])
    for c, want, got in zip(calls_s, exp_s, rows[:len(calls_s)]):
        if want != got:
            raise RuntimeError(f"extract_fn sweep self-test: {c}: Python {want}, Lean evaluation of the translation {got}")
    ctx.count("sw:selftest:lean-evaluated", len(calls_s))
    for c, want, got, d in zip(calls_r, exp_r, rows[len(calls_s):], descs):
        ctx.evaluations += 1
        if got is not None and want != got:
            ctx.fail(d, "model", f"generated def evaluates to {got}, the Python kernel returns {want} ({c[:60]}…)")
    ctx.count("sw:gen:lean-evaluated", len(calls_r))


# ----------------------------------------------------------------------------------------
# (c) differential against the hand-written models and the declarative definitions
# ----------------------------------------------------------------------------------------
def cmp3(name, impl, a, model_key, spec_key, use_spec=True, only=None):
    if impl is None:
        return []
    idx = range(len(impl)) if only is None else only
    fs = []
    spec, model = a[spec_key] if spec_key else None, a[model_key]
    bad = [k for k in idx if spec is not None and use_spec and impl[k] != spec[k]]
    if bad:
        k = bad[0]
        fs.append({"kind": "spec", "what": f"{name}: cell {k} holds {impl[k]}, the declarative definition gives "
                                           f"{spec[k]} ({len(bad)} cells differ)", "impl": impl, "spec": spec})
    badm = [k for k in range(len(impl)) if impl[k] != model[k]]
    if badm and not bad:
        k = badm[0]
        fs.append({"kind": "model", "what": f"{name}: cell {k} holds {impl[k]}, {model_key} gives {model[k]}",
                   "impl": impl, "model": model})
    return fs


def run_sweeps(ctx, d):
    ds, seq, data, nodata, dtype = d["ds"], d["seq"], d["data"], d["nodata"], d["dtype"]
    up = call_real("accuflux", ds, seq, data, nodata, dtype)
    down = call_real("accuflux_ds", ds, seq, data, nodata, dtype)
    fill = call_real("fillnodata_upstream", ds, seq, data, nodata, dtype)
    for nm, v in (("accuflux", up), ("accuflux_ds", down), ("fillnodata_upstream", fill)):
        ctx.count("sw:sweeps:" + nm + (":not-comparable" if v is None else ""))

    def judge(ans):
        a = ans[0]
        if "__err__" in a:
            return [{"kind": "model", "what": f"driver error {a['__err__']}"}]
        ok = bool(a["topo"][0]) and bool(a["cover"][0])
        return (cmp3("accuflux", up, a, "model.up", "spec.up", ok, seq)
                + cmp3("accuflux_ds", down, a, "model.down", "spec.down", ok, seq)
                + cmp3("fillnodata_upstream", fill, a, "model.fill", "spec.fill", ok, seq))
    ctx.add(d, [("c04fn.sweeps", {"ds": ds, "seq": seq, "data": data, "nodata": nodata})], judge,
            nontrivial=net_features(ds)["confluences"] >= 1)


def usmain_spec(ds, upa, upamin, out):
    """declarative: out[j] is the first inflow cell of j with the largest uparea, if that exceeds upa_min"""
    n = len(ds)
    for j in range(n):
        ins = [i for i in range(n) if ds[i] == j and i != j]
        best = max([upa[i] for i in ins], default=None)
        want = n if best is None or not best > upamin else min(i for i in ins if upa[i] == best)
        if out[j] != want:
            return f"main_upstream: cell {j} gets {out[j]}, the first inflow cell of largest uparea (> {upamin}) is {want}"
    return None


def run_scans(ctx, d):
    ds, data, nodata, dtype, mask, upamin = d["ds"], d["data"], d["nodata"], d["dtype"], d["mask"], d["upamin"]
    nup = call_real("upstream_count", ds, [], data, nodata, dtype, mask=mask)
    upsum = call_real("upstream_sum", ds, [], data, nodata, dtype)
    usmain = call_real("main_upstream", ds, [], data, nodata, dtype, upamin=upamin)
    for nm, v in (("upstream_count", nup), ("upstream_sum", upsum), ("main_upstream", usmain)):
        ctx.count("sw:scans:" + nm + (":not-comparable" if v is None else ""))
    us_msg = usmain_spec(ds, data, upamin, usmain) if usmain is not None else None

    def judge(ans):
        a = ans[0]
        if "__err__" in a:
            return [{"kind": "model", "what": f"driver error {a['__err__']}"}]
        fs = cmp3("upstream_count", nup, a, "model.nup", "spec.nup") + cmp3("upstream_sum", upsum, a, "model.upsum", "spec.upsum")
        if us_msg:
            fs.append({"kind": "spec", "what": us_msg, "impl": usmain})
        elif usmain is not None:
            fs += cmp3("main_upstream", usmain, a, "model.usmain", None)
        return fs
    args = {"ds": ds, "data": data, "nodata": nodata, "upamin": upamin}
    if mask is not None:
        args["mask"] = [int(b) for b in mask]
    ctx.add(d, [("c04fn.scans", args)], judge, nontrivial=net_features(ds)["confluences"] >= 1)


def dispatch(ctx, d):
    if d.get("op") == "c04fn.sweeps":
        run_sweeps(ctx, d)
    elif d.get("op") == "c04fn.scans":
        run_scans(ctx, d)


def run(ctx):
    if getattr(ctx, "replay", None):
        d = ctx.replay.get("failure", {}).get("desc") or ctx.replay.get("desc")
        if d and str(d.get("op", "")).startswith("c04fn."):
            dispatch(ctx, d)
        return
    quick = ctx.tier == "quick"
    run_translator(ctx)
    for _ in range((120 if quick else 1500) * ctx.escalate):
        d = gen_net(ctx)
        d["seq"] = rand_topo(ctx.rng, d["ds"])
        dispatch(ctx, dict(d, op="c04fn.sweeps"))
        dispatch(ctx, dict(gen_net(ctx, loops=True), op="c04fn.scans"))
        if len(ctx.cases) > 400:
            ctx.flush()
